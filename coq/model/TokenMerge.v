(* contracts/minters/token-merge-minter/src/contract.rs : the deposit ledger, the mint
   path and the admin messages as far as they touch ledger, counters and supply; plus a
   small world (source collections, target collection) in which the messages the minter
   emits are executed depth-first and everything reverts on any failure.

   Identifiers are N (the harness owns id <-> string).  Id 0 stands for any string
   that `addr_validate` rejects.  The pseudo-random token pick is an oracle input
   (`pick`): the model only checks that it is a token id that is still mintable.
   Factory parameters (max_per_address_limit, airdrop price, shuffle fee) are read from
   the factory on every call in the code; they are constant fields here (no history of
   this property changes them; governance updates are property C18).
   Bank messages of the admin mint (airdrop fee split) are not modelled here (C02/C06). *)
From LP Require Export Num Pay Sg1.
From LP Require Import Consts.

(* ---------- association lists: cw-storage-plus maps read only by key ---------- *)
Section AL.
  Context {K : Type} (eqb : K -> K -> bool).
  Fixpoint al_get (k : K) (l : list (K * N)) : N :=
    match l with
    | [] => 0
    | (k', v) :: t => if eqb k k' then v else al_get k t
    end.
  Fixpoint al_remove (k : K) (l : list (K * N)) : list (K * N) :=
    match l with
    | [] => []
    | (k', v) :: t => if eqb k k' then al_remove k t else (k', v) :: al_remove k t
    end.
  Definition al_set (k : K) (v : N) (l : list (K * N)) : list (K * N) := (k, v) :: al_remove k l.
End AL.

Definition pkey := (N * N)%type.              (* (recipient, collection) *)
Definition pkey_eqb (a b : pkey) : bool := (fst a =? fst b) && (snd a =? snd b).

Inductive tmsg :=
| TMint (to : N) (tok : N)          (* Mint{token_id, owner} to the minter's own collection *)
| TBurn (coll : N) (tok : N).       (* Burn{token_id} sent back to the collection that called *)

Record tm_state := mkTm {
  tm_admin : N;
  tm_start : N;                         (* config.extension.start_time, ns *)
  tm_limit : N;                         (* config.extension.per_address_limit *)
  tm_num_tokens : N;                    (* config.extension.num_tokens *)
  tm_req : list (N * N);             (* config.extension.mint_tokens *)
  tm_max_limit : N;                     (* factory: max_per_address_limit *)
  tm_airdrop_price : N;                 (* factory: airdrop_mint_price.amount (ustars) *)
  tm_shuffle_fee : N;                   (* factory: shuffle_fee.amount (ustars) *)
  tm_mintable : N;                      (* MINTABLE_NUM_TOKENS *)
  tm_avail : list N;                    (* token ids still in MINTABLE_TOKEN_POSITIONS *)
  tm_counts : list (N * N);          (* MINTER_ADDRS *)
  tm_ledger : list (pkey * N)           (* RECEIVED_TOKENS *)
}.

Definition set_ledger (st : tm_state) (l : list (pkey * N)) : tm_state :=
  mkTm (tm_admin st) (tm_start st) (tm_limit st) (tm_num_tokens st) (tm_req st) (tm_max_limit st)
       (tm_airdrop_price st) (tm_shuffle_fee st) (tm_mintable st) (tm_avail st) (tm_counts st) l.
Definition set_counts (st : tm_state) (c : list (N * N)) : tm_state :=
  mkTm (tm_admin st) (tm_start st) (tm_limit st) (tm_num_tokens st) (tm_req st) (tm_max_limit st)
       (tm_airdrop_price st) (tm_shuffle_fee st) (tm_mintable st) (tm_avail st) c (tm_ledger st).
Definition set_supply (st : tm_state) (m : N) (av : list N) : tm_state :=
  mkTm (tm_admin st) (tm_start st) (tm_limit st) (tm_num_tokens st) (tm_req st) (tm_max_limit st)
       (tm_airdrop_price st) (tm_shuffle_fee st) m av (tm_counts st) (tm_ledger st).
Definition set_start (st : tm_state) (t : N) : tm_state :=
  mkTm (tm_admin st) t (tm_limit st) (tm_num_tokens st) (tm_req st) (tm_max_limit st)
       (tm_airdrop_price st) (tm_shuffle_fee st) (tm_mintable st) (tm_avail st) (tm_counts st) (tm_ledger st).
Definition set_limit (st : tm_state) (l : N) : tm_state :=
  mkTm (tm_admin st) (tm_start st) l (tm_num_tokens st) (tm_req st) (tm_max_limit st)
       (tm_airdrop_price st) (tm_shuffle_fee st) (tm_mintable st) (tm_avail st) (tm_counts st) (tm_ledger st).

Definition ledger (st : tm_state) (r c : N) : N := al_get pkey_eqb (r, c) (tm_ledger st).
Definition count (st : tm_state) (r : N) : N := al_get N.eqb r (tm_counts st).

Definition addr_ok (a : N) : bool := negb (a =? 0).

(* `recipient.unwrap_or(sender)`: the explicit recipient of DepositToken, else the
   `sender` field of the Cw721ReceiveMsg (the account that called SendNft) *)
Definition recipient_of (cw_sender : N) (recip : option N) : N :=
  match recip with Some r => r | None => cw_sender end.

(* `mint_tokens.iter().find(|t| t.collection == info.sender)` *)
Definition req_amount (c : N) (req : list (N * N)) : option N :=
  match find (fun p => fst p =? c) req with Some p => Some (snd p) | None => None end.

(* check_all_mint_tokens_received *)
Definition all_met (led : list (pkey * N)) (r : N) (req : list (N * N)) : bool :=
  forallb (fun p => snd p <=? al_get pkey_eqb (r, fst p) led) req.

(* `for mint_token in mint_tokens { RECEIVED_TOKENS.remove((recipient, collection)) }` *)
Fixpoint clear_ledger (r : N) (req : list (N * N)) (led : list (pkey * N)) : list (pkey * N) :=
  match req with
  | [] => led
  | p :: t => clear_ledger r t (al_remove pkey_eqb (r, fst p) led)
  end.

Fixpoint remove_tok (t : N) (l : list N) : list N :=
  match l with
  | [] => []
  | x :: xs => if t =? x then remove_tok t xs else x :: remove_tok t xs
  end.

(* the tail of _execute_mint: sold-out test, the token leaves the mintable set, the
   counter drops by one, the recipient's mint count grows by one (u32) *)
Definition take_token (r : N) (t : N) (st : tm_state) : result tm_state :=
  do _ <- guard (0 <? tm_mintable st);
  do _ <- guard (existsb (N.eqb t) (tm_avail st));
  let c := count st r in
  do _ <- guard (c + 1 <=? U32_MAX);
  Ok (set_counts (set_supply st (tm_mintable st - 1) (remove_tok t (tm_avail st)))
                 (al_set N.eqb r (c + 1) (tm_counts st))).

(* ExecuteMsg::ReceiveNft(Cw721ReceiveMsg{sender, token_id, msg = DepositToken{recipient}})
   with info.sender = caller *)
Definition receive (now : N) (caller cw_sender : N) (recip : option N) (tok pick : N)
                   (st : tm_state) : result (tm_state * list tmsg) :=
  do _ <- guard (tm_start st <? now);
  let r := recipient_of cw_sender recip in
  do _ <- guard (addr_ok r);
  do _ <- guard (count st r <? tm_limit st);
  match req_amount caller (tm_req st) with
  | None => Err
  | Some amt =>
      let have := ledger st r caller in
      do _ <- guard (have <? amt);
      let st1 := set_ledger st (al_set pkey_eqb (r, caller) (have + 1) (tm_ledger st)) in
      if all_met (tm_ledger st1) r (tm_req st) then
        do st2 <- take_token r pick st1;
        Ok (set_ledger st2 (clear_ledger r (tm_req st) (tm_ledger st2)),
            [TMint r pick; TBurn caller tok])
      else Ok (st1, [TBurn caller tok])
  end.

(* MintTo / MintFor: admin only, exact airdrop price, no ledger involvement *)
Definition admin_mint (caller recipient : N) (funds : list coin) (fixed : option N) (pick : N)
                      (st : tm_state) : result (tm_state * list tmsg) :=
  do _ <- guard (addr_ok recipient);
  do _ <- guard (caller =? tm_admin st);
  do _ <- guard (match fixed with Some t => negb (t =? 0) && (t <=? tm_num_tokens st) | None => true end);
  do p <- may_pay funds NATIVE;
  do _ <- guard (p =? tm_airdrop_price st);
  let t := match fixed with Some t => t | None => pick end in
  do st' <- take_token recipient t st;
  Ok (st', [TMint recipient t]).

Definition three_percent (n : N) : N := (n * 3 + 99) / 100.       (* checked_mul_ceil (3,100) *)
Definition dynamic_limit_ok (l n maxl : N) : bool :=
  if maxl <? l then false else if n <? 100 then l <=? 3 else l <=? three_percent n.

Inductive tm_op :=
| OReceive (caller cw_sender : N) (recip : option N) (tok pick : N)
| OMintTo (caller recipient : N) (funds : list coin) (pick : N)
| OMintFor (caller : N) (tid : N) (recipient : N) (funds : list coin)
| OShuffle (caller : N) (funds : list coin)
| OPurge (caller : N) (funds : list coin)
| OBurnRemaining (caller : N) (funds : list coin)
| OUpdStart (caller : N) (t : N) (funds : list coin)
| OUpdLimit (caller : N) (l : N) (funds : list coin).

Definition step (minter : N) (now : N) (op : tm_op) (st : tm_state) : result (tm_state * list tmsg) :=
  match op with
  | OReceive caller cws recip tok pick => receive now caller cws recip tok pick st
  | OMintTo caller r funds pick => admin_mint caller r funds None pick st
  | OMintFor caller tid r funds => admin_mint caller r funds (Some tid) 0 st
  | OShuffle caller funds =>
      (* exact-or-more shuffle fee (checked_fair_burn), not sold out; the set of mintable ids is unchanged *)
      do _ <- checked_fair_burn minter funds (tm_shuffle_fee st) None;
      do _ <- guard (negb (tm_mintable st =? 0));
      Ok (st, [])
  | OPurge caller funds =>
      do _ <- nonpayable funds;
      do _ <- guard (tm_mintable st =? 0);
      Ok (set_counts st [], [])
  | OBurnRemaining caller funds =>
      do _ <- nonpayable funds;
      do _ <- guard (caller =? tm_admin st);
      do _ <- guard (negb (tm_mintable st =? 0));
      let total := N.of_nat (length (tm_avail st)) in
      do _ <- guard (total <=? tm_mintable st);               (* u32 subtraction *)
      Ok (set_supply st (tm_mintable st - total) [], [])
  | OUpdStart caller t funds =>
      do _ <- nonpayable funds;
      do _ <- guard (caller =? tm_admin st);
      do _ <- guard (now <? tm_start st);                     (* AlreadyStarted when now >= start *)
      do _ <- guard (now <=? t);
      do _ <- guard (sg_utils__GENESIS_MINT_START_TIME <=? t);
      Ok (set_start st t, [])
  | OUpdLimit caller l funds =>
      do _ <- nonpayable funds;
      do _ <- guard (caller =? tm_admin st);
      do _ <- guard (negb (l =? 0) && (l <=? tm_max_limit st));
      do _ <- guard (dynamic_limit_ok l (tm_num_tokens st) (tm_max_limit st));
      Ok (set_limit st l, [])
  end.

(* ---------- ghost accounting, defined from the *emitted messages* only ---------- *)
Record ghost := mkGhost {
  g_cred : list (pkey * N);      (* (recipient, collection) -> Burn messages sent to `collection` in deposit steps credited to `recipient` *)
  g_dm : list (N * N)         (* recipient -> Mint messages emitted by deposit steps *)
}.
Definition cred (g : ghost) (r c : N) : N := al_get pkey_eqb (r, c) (g_cred g).
Definition dmints (g : ghost) (r : N) : N := al_get N.eqb r (g_dm g).

Fixpoint ghost_msgs (r : N) (ms : list tmsg) (g : ghost) : ghost :=
  match ms with
  | [] => g
  | TBurn c _ :: t =>
      ghost_msgs r t (mkGhost (al_set pkey_eqb (r, c) (al_get pkey_eqb (r, c) (g_cred g) + 1) (g_cred g)) (g_dm g))
  | TMint r' _ :: t =>
      ghost_msgs r t (mkGhost (g_cred g) (al_set N.eqb r' (al_get N.eqb r' (g_dm g) + 1) (g_dm g)))
  end.

Definition gstep (minter : N) (sg : tm_state * ghost) (e : N * tm_op) : tm_state * ghost :=
  let '(st, g) := sg in
  let '(now, op) := e in
  match step minter now op st with
  | Err => (st, g)                                   (* a failed call leaves no trace *)
  | Ok (st', ms) =>
      match op with
      | OReceive _ cws recip _ _ => (st', ghost_msgs (recipient_of cws recip) ms g)
      | _ => (st', g)
      end
  end.
Definition grun (minter : N) (h : list (N * tm_op)) (sg : tm_state * ghost) : tm_state * ghost :=
  fold_left (gstep minter) h sg.
Definition ghost0 : ghost := mkGhost [] [].

(* ---------- the world: source collections + target collection around the minter ---------- *)
Record world := mkWorld {
  w_m : tm_state;
  w_minter : N;
  w_src : list (pkey * N);        (* (collection, token) -> owner id; absent = does not exist.  Owner ids are never 0 *)
  w_tgt : list (N * N)            (* target token id -> owner id *)
}.
Definition src_owner (w : world) (c t : N) : N := al_get pkey_eqb (c, t) (w_src w).   (* 0 = no such token *)
Definition tgt_owner (w : world) (t : N) : N := al_get N.eqb t (w_tgt w).

(* execute the minter's messages in order; None = some message failed *)
Fixpoint exec_msgs (minter : N) (ms : list tmsg) (src : list (pkey * N)) (tgt : list (N * N))
  : option (list (pkey * N) * list (N * N)) :=
  match ms with
  | [] => Some (src, tgt)
  | TMint r t :: rest =>
      (* sg721 mint: fails when the id is already claimed *)
      if (al_get N.eqb t tgt =? 0) && addr_ok r then exec_msgs minter rest src (al_set N.eqb t r tgt) else None
  | TBurn c t :: rest =>
      (* cw721 burn: the sender (the minter) must own the token *)
      if negb (minter =? 0) && (al_get pkey_eqb (c, t) src =? minter)
      then exec_msgs minter rest (al_remove pkey_eqb (c, t) src) tgt else None
  end.

Inductive wop :=
| WSend (coll caller tok : N) (wellformed : bool) (recip : option N) (pick : N)
    (* `caller` executes SendNft{contract: minter, token_id: tok, msg} on `coll`; wellformed = the payload parses as DepositToken *)
| WDirect (caller cw_sender tok : N) (recip : option N) (pick : N)
    (* an account calls the minter's ReceiveNft itself *)
| WAdmin (op : tm_op).            (* any other minter entry point, called directly *)

Definition wstep (now : N) (op : wop) (w : world) : world * bool :=
  match op with
  | WSend coll caller tok wf recip pick =>
      if negb (caller =? 0) && (src_owner w coll tok =? caller) && wf then
        (* cw721 send_nft: ownership moves to the minter, then the hook runs with info.sender = coll *)
        let src1 := al_set pkey_eqb (coll, tok) (w_minter w) (w_src w) in
        match receive now coll caller recip tok pick (w_m w) with
        | Err => (w, false)
        | Ok (m', ms) =>
            match exec_msgs (w_minter w) ms src1 (w_tgt w) with
            | None => (w, false)
            | Some (src2, tgt2) => (mkWorld m' (w_minter w) src2 tgt2, true)
            end
        end
      else (w, false)
  | WDirect caller cws tok recip pick =>
      match receive now caller cws recip tok pick (w_m w) with
      | Err => (w, false)
      | Ok (m', ms) =>
          match exec_msgs (w_minter w) ms (w_src w) (w_tgt w) with
          | None => (w, false)
          | Some (src2, tgt2) => (mkWorld m' (w_minter w) src2 tgt2, true)
          end
      end
  | WAdmin o =>
      match o with
      | OReceive _ _ _ _ _ => (w, false)     (* deposits are WSend / WDirect *)
      | _ =>
          match step (w_minter w) now o (w_m w) with
          | Err => (w, false)
          | Ok (m', ms) =>
              match exec_msgs (w_minter w) ms (w_src w) (w_tgt w) with
              | None => (w, false)
              | Some (src2, tgt2) => (mkWorld m' (w_minter w) src2 tgt2, true)
              end
          end
      end
  end.
