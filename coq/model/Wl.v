(* contracts/whitelists/{whitelist, whitelist-flex, whitelist-merkletree}/src/contract.rs
   (+ admin.rs, identical in the three crates).  One state record tagged with the kind;
   the handlers follow the Rust line by line, guards in source order (the order is not
   observable: a failed call leaves nothing behind).

   Addresses are ids; `valid` is the oracle for `Api::addr_validate` (the harness owns
   the id <-> string table and says which ids are malformed strings).  The harness names
   members so that string order = id order, hence `sort_unstable(); dedup()` is
   `sort_dedup` on ids. *)
From LP Require Export Num Pay Sg1.
From LP Require Import Consts.

Inductive kind := KPlain | KFlex | KMerkle.

Definition kind_eqb (a b : kind) : bool :=
  match a, b with KPlain, KPlain | KFlex, KFlex | KMerkle, KMerkle => true | _, _ => false end.

Definition GENESIS : N := sg_utils__GENESIS_MINT_START_TIME.

Definition max_members (k : kind) : N :=
  match k with KPlain => whitelist__MAX_MEMBERS | KFlex => whitelist_flex__MAX_MEMBERS | KMerkle => 0 end.
Definition price_per_1000 (k : kind) : N :=
  match k with
  | KPlain => whitelist__PRICE_PER_1000_MEMBERS
  | KFlex => whitelist_flex__PRICE_PER_1000_MEMBERS
  | KMerkle => 0
  end.
Definition MAX_PAL : N := whitelist__MAX_PER_ADDRESS_LIMIT.
Definition MERKLE_FEE : N := whitelist_merkletree__CREATION_FEE.

(* Decimal::new(limit, 3).ceil() : limit / 1000 rounded up (rust_decimal, exact) *)
Definition tiers (limit : N) : N := (limit + 999) / 1000.
Definition creation_fee (k : kind) (limit : N) : N := tiers limit * price_per_1000 k.
Definition upgrade_fee (k : kind) (old new : N) : N :=
  if tiers old <? tiers new then (tiers new - tiers old) * price_per_1000 k else 0.

Definition nlen {A} (l : list A) : N := N.of_nat (length l).

(* Vec<String>::sort_unstable(); dedup() *)
Fixpoint ins (a : N) (l : list N) : list N :=
  match l with
  | [] => [a]
  | x :: t => if a <? x then a :: l else if a =? x then l else x :: ins a t
  end.
Definition sort_dedup (l : list N) : list N := fold_right ins [] l.

(* Map<Addr, bool> / Map<Addr, u32> : association list, at most one entry per key *)
Definition mem := list (addr * N).
Definition keys (m : mem) : list addr := map fst m.
Definition m_has (a : addr) (m : mem) : bool := existsb (fun p => fst p =? a) m.
Definition m_del (a : addr) (m : mem) : mem := filter (fun p => negb (fst p =? a)) m.
Definition m_set (a : addr) (c : N) (m : mem) : mem := (a, c) :: m_del a m.
Fixpoint m_get (a : addr) (m : mem) : option N :=
  match m with
  | [] => None
  | (k, v) :: t => if k =? a then Some v else m_get a t
  end.

Record wl := mkWl {
  w_kind : kind;
  w_start : N; w_end : N;
  w_num : N; w_limit : N;
  w_pal : N;                 (* plain, merkle; flex has none (0) *)
  w_whale : option N;        (* flex only *)
  w_admins : list addr; w_mutable : bool;
  w_mem : mem
}.

Definition set_start (w : wl) (t : N) : wl :=
  mkWl (w_kind w) t (w_end w) (w_num w) (w_limit w) (w_pal w) (w_whale w) (w_admins w) (w_mutable w) (w_mem w).
Definition set_end (w : wl) (t : N) : wl :=
  mkWl (w_kind w) (w_start w) t (w_num w) (w_limit w) (w_pal w) (w_whale w) (w_admins w) (w_mutable w) (w_mem w).
Definition set_members (w : wl) (n : N) (m : mem) : wl :=
  mkWl (w_kind w) (w_start w) (w_end w) n (w_limit w) (w_pal w) (w_whale w) (w_admins w) (w_mutable w) m.
Definition set_limit (w : wl) (l : N) : wl :=
  mkWl (w_kind w) (w_start w) (w_end w) (w_num w) l (w_pal w) (w_whale w) (w_admins w) (w_mutable w) (w_mem w).
Definition set_pal (w : wl) (p : N) : wl :=
  mkWl (w_kind w) (w_start w) (w_end w) (w_num w) (w_limit w) p (w_whale w) (w_admins w) (w_mutable w) (w_mem w).
Definition set_admins (w : wl) (l : list addr) (mu : bool) : wl :=
  mkWl (w_kind w) (w_start w) (w_end w) (w_num w) (w_limit w) (w_pal w) (w_whale w) l mu (w_mem w).

Record imsg := mkImsg {
  i_members : list (addr * N);    (* plain: the counts are ignored *)
  i_start : N; i_end : N;
  i_pal : N;                      (* flex: ignored *)
  i_limit : N;                    (* merkle: ignored *)
  i_whale : option N;             (* flex only *)
  i_admins : list addr; i_mutable : bool;
  i_root_ok : bool                (* merkle: verify_merkle_root && verify_tree_uri; oracle *)
}.

Record env := mkEnv { e_now : N; e_sender : addr; e_funds : list coin }.

Inductive op :=
| OUpdStart (t : N)
| OUpdEnd (t : N)
| OAdd (ms : list (addr * N))
| ORemove (ms : list addr)
| OUpdPal (n : N)
| OIncrease (n : N)
| OUpdAdmins (l : list addr)
| OFreeze.

(* u32 `x -= 1` with overflow-checks *)
Definition dec1 (x : N) : result N := if 1 <=? x then Ok (x - 1) else Err.

Section WithOracle.
Variable valid : addr -> bool.

Definition is_admin (a : addr) (w : wl) : bool := existsb (N.eqb a) (w_admins w).
Definition can_modify (a : addr) (w : wl) : bool := w_mutable w && is_admin a w.

(* the three time checks shared by the three instantiate functions *)
Definition inst_times (now start end_ : N) : result unit :=
  do _ <- guard (start <=? end_);          (* start_time > end_time  => Err *)
  do _ <- guard (now <? start);            (* block.time >= start    => Err *)
  guard (GENESIS <=? start).               (* start < genesis        => Err *)

(* whitelist-flex instantiate: members stored in message order, a repeated address
   overwrites its entry and takes one off the pre-computed count *)
Fixpoint flex_store (whale : option N) (ms : list (addr * N)) (num : N) (m : mem) : result (N * mem) :=
  match ms with
  | [] => Ok (num, m)
  | (a, c) :: t =>
      do _ <- guard (valid a);
      do _ <- guard (match whale with Some wc => c <=? wc | None => true end);
      do num' <- (if m_has a m then dec1 num else Ok num);
      flex_store whale t num' (m_set a c m)
  end.

Definition inst (k : kind) (self : addr) (e : env) (m : imsg) : result (wl * list bmsg) :=
  match k with
  | KPlain =>
      do _ <- guard (negb (i_limit m =? 0) && (i_limit m <=? max_members KPlain));
      do _ <- guard (i_pal m <=? MAX_PAL);
      do _ <- guard (negb (i_pal m =? 0));
      let fee := creation_fee KPlain (i_limit m) in
      do payment <- must_pay (e_funds e) NATIVE;
      do _ <- guard (payment =? fee);
      let ms := sort_dedup (map fst (i_members m)) in
      let num := N.of_nat (length ms) in
      do _ <- guard (forallb valid (i_admins m));
      do _ <- inst_times (e_now e) (i_start m) (i_end m);
      do msgs <- checked_fair_burn self (e_funds e) fee None;
      do _ <- guard (num <=? i_limit m);
      do _ <- guard (forallb valid ms);
      Ok (mkWl KPlain (i_start m) (i_end m) num (i_limit m) (i_pal m) None (i_admins m) (i_mutable m)
               (map (fun a => (a, 1)) ms), msgs)
  | KFlex =>
      do _ <- guard (negb (i_limit m =? 0) && (i_limit m <=? max_members KFlex));
      let fee := creation_fee KFlex (i_limit m) in
      do payment <- must_pay (e_funds e) NATIVE;
      do _ <- guard (payment =? fee);
      do _ <- guard (match i_whale m with Some wc => i_limit m <? wc | None => true end);
      let num := N.of_nat (length (i_members m)) in
      do _ <- guard (forallb valid (i_admins m));
      do _ <- inst_times (e_now e) (i_start m) (i_end m);
      do msgs <- checked_fair_burn self (e_funds e) fee None;
      do _ <- guard (num <=? i_limit m);
      do nm <- flex_store (i_whale m) (i_members m) num [];
      Ok (mkWl KFlex (i_start m) (i_end m) (fst nm) (i_limit m) 0 (i_whale m) (i_admins m) (i_mutable m)
               (snd nm), msgs)
  | KMerkle =>
      do _ <- guard (i_root_ok m);
      do payment <- must_pay (e_funds e) NATIVE;
      do _ <- guard (payment =? MERKLE_FEE);
      do _ <- inst_times (e_now e) (i_start m) (i_end m);
      do msgs <- checked_fair_burn self (e_funds e) MERKLE_FEE None;
      do _ <- guard (forallb valid (i_admins m));
      Ok (mkWl KMerkle (i_start m) (i_end m) 0 0 (i_pal m) None (i_admins m) (i_mutable m) [], msgs)
  end.

(* execute_add_members, plain: input already sorted and de-duplicated; the limit test
   comes BEFORE the already-a-member skip *)
Fixpoint add_plain (ms : list addr) (limit num : N) (m : mem) : result (N * mem) :=
  match ms with
  | [] => Ok (num, m)
  | a :: t =>
      do _ <- guard (num <? limit);
      do _ <- guard (valid a);
      if m_has a m then add_plain t limit num m
      else add_plain t limit (num + 1) (m_set a 1 m)
  end.

(* flex: message order, an existing (or repeated) address is rejected *)
Fixpoint add_flex (ms : list (addr * N)) (limit num : N) (m : mem) : result (N * mem) :=
  match ms with
  | [] => Ok (num, m)
  | (a, c) :: t =>
      do _ <- guard (num <? limit);
      do _ <- guard (valid a);
      do _ <- guard (negb (m_has a m));
      add_flex t limit (num + 1) (m_set a c m)
  end.

Fixpoint remove_loop (ms : list addr) (num : N) (m : mem) : result (N * mem) :=
  match ms with
  | [] => Ok (num, m)
  | a :: t =>
      do _ <- guard (valid a);
      do _ <- guard (m_has a m);
      do num' <- dec1 num;
      remove_loop t num' (m_del a m)
  end.

Definition exec (self : addr) (e : env) (o : op) (w : wl) : result (wl * list bmsg) :=
  let now := e_now e in
  match o with
  | OUpdStart t =>
      do _ <- guard (is_admin (e_sender e) w);
      do _ <- guard (now <? w_start w);           (* block.time >= start => AlreadyStarted *)
      do _ <- guard (t <=? w_end w);              (* start_time > end    => Err *)
      Ok (set_start w (if t <? GENESIS then GENESIS else t), [])
  | OUpdEnd t =>
      do _ <- guard (is_admin (e_sender e) w);
      do _ <- guard (negb ((w_start w <=? now) && (w_end w <? t)));
      do _ <- guard (w_start w <=? t);            (* end_time < start    => Err *)
      Ok (set_end w t, [])
  | OAdd ms =>
      match w_kind w with
      | KPlain =>
          do _ <- guard (is_admin (e_sender e) w);
          do nm <- add_plain (sort_dedup (map fst ms)) (w_limit w) (w_num w) (w_mem w);
          Ok (set_members w (fst nm) (snd nm), [])
      | KFlex =>
          do _ <- guard (is_admin (e_sender e) w);
          do nm <- add_flex ms (w_limit w) (w_num w) (w_mem w);
          Ok (set_members w (fst nm) (snd nm), [])
      | KMerkle => Err                              (* no such message *)
      end
  | ORemove ms =>
      match w_kind w with
      | KMerkle => Err
      | _ =>
          do _ <- guard (is_admin (e_sender e) w);
          do _ <- guard (now <? w_start w);
          do nm <- remove_loop ms (w_num w) (w_mem w);
          Ok (set_members w (fst nm) (snd nm), [])
      end
  | OUpdPal n =>
      match w_kind w with
      | KPlain =>
          do _ <- guard (is_admin (e_sender e) w);
          do _ <- guard (n <=? MAX_PAL);
          Ok (set_pal w n, [])
      | _ => Err
      end
  | OIncrease n =>
      match w_kind w with
      | KMerkle => Err
      | k =>
          (* note: no can_execute here; anyone may raise the limit if they pay *)
          do _ <- guard ((w_limit w <? n) && (n <=? max_members k));
          let fee := upgrade_fee k (w_limit w) n in
          do payment <- may_pay (e_funds e) NATIVE;
          do _ <- guard (payment =? fee);
          do msgs <- (if 0 <? fee then checked_fair_burn self (e_funds e) fee None else Ok []);
          Ok (set_limit w n, msgs)
      end
  | OUpdAdmins l =>
      do _ <- guard (can_modify (e_sender e) w);
      do _ <- guard (forallb valid l);
      Ok (set_admins w l (w_mutable w), [])
  | OFreeze =>
      do _ <- guard (can_modify (e_sender e) w);
      Ok (set_admins w (w_admins w) false, [])
  end.

(* queries *)
Definition q_started (now : N) (w : wl) : bool := w_start w <=? now.
Definition q_ended (now : N) (w : wl) : bool := w_end w <=? now.
Definition q_active (now : N) (w : wl) : bool := (w_start w <=? now) && (now <? w_end w).
(* ConfigResponse: num_members, per_address_limit, member_limit, start, end, is_active *)
Definition q_config (now : N) (w : wl) : N * N * N * N * N * bool :=
  (w_num w, w_pal w, w_limit w, w_start w, w_end w, (w_start w <=? now) && (now <? w_end w)).
Definition q_has (a : addr) (w : wl) : result bool :=
  if valid a then Ok (m_has a (w_mem w)) else Err.
(* admin.rs query_can_execute: the sender string is validated, then looked up in the
   stored admin list (the message argument is ignored); query_admin_list *)
Definition q_can_execute (a : addr) (w : wl) : result bool :=
  if valid a then Ok (is_admin a w) else Err.
Definition q_admin_list (w : wl) : list addr * bool := (w_admins w, w_mutable w).
(* whitelist-flex Member { member }: the stored mint count, an error when not stored; the
   plain whitelist has no such query *)
Definition q_member (a : addr) (w : wl) : result N :=
  match w_kind w with
  | KFlex => if valid a then match m_get a (w_mem w) with Some c => Ok c | None => Err end else Err
  | _ => Err
  end.

(* a history: failed calls leave the state alone (CosmWasm discards their writes) *)
Definition step (self : addr) (w : wl) (eo : env * op) : wl :=
  match exec self (fst eo) (snd eo) w with Ok (w', _) => w' | Err => w end.
Definition run (self : addr) (h : list (env * op)) (w : wl) : wl := fold_left (step self) h w.

End WithOracle.
