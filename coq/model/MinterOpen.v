(* The three open-edition minters (open-edition-minter, -wl-flex, -merkle-wl) and the
   base minter: handler-level models.

   ------------------------------------------------------------------------------
   ARGUMENT ORDER (for users of this file: C01 C02 C03 C04 C07 C19)
   ------------------------------------------------------------------------------
   ovariant  mkOV   ov_flex ov_merkle
               open-edition-minter            = mkOV false false
               open-edition-minter-wl-flex    = mkOV true  false
               open-edition-minter-merkle-wl  = mkOV false true
   ofparams  mkOFP  min_price min_denom mint_fee_bps airdrop_price airdrop_denom
                    airdrop_fee_bps max_per_address max_token_limit offset_secs dev
               (dev : option addr = dev_fee_address if it validates, None if not)
   wlview    mkWV   (from MinterVending) active price denom limit member_limit
                    num_members has_plain has_proof tiered stage_id stage_limit
                    flex_count
   env       mkEnv  (from MinterVending) now sender funds contract
   ostate    mkOS   admin payment num_tokens pal whitelist start end_ price denom
                    mintable token_index total airdrops
                    public wl fs ss ts fs_count ss_count ts_count
                    minted burned trading
               (minted, burned, trading are ghosts: ids handed to the collection newest
                first, tokens given up by burn-remaining, trading time last sent)
   eop       EMint stage proof alloc | EMintTo recipient_ok recipient | EPurge
             | EBurnRemaining | EUpdateMintPrice p | EUpdateStartTime t
             | EUpdateEndTime t | EUpdateStartTradingTime t
             | EUpdatePerAddressLimit l | ESetWhitelist w_ok w newview
   ostep     vr s e fp wv op : result (ostate * list omsg)       (total function)
   omsg      (from MinterVending) OBank m | OMintNft token_id owner | OTrading t

   nft_cfg   mkNft  onchain uri ext      (metadata mode layer, end of the OE part of the file:
   omint     mkOMint id owner uri ext     Config.nft_data is read only to fill the collection's
   ostep_nft c vr s e fp wv op            Mint message; `ostep` itself never sees it)

   bstate    mkBS   price token_index minted trading      (minted, trading ghosts)
   bop       BMint uri_ok | BUpdateStartTradingTime t
   bstep     s e creator fee_bps op : result (bstate * list omsg)
               (creator : option addr = what the collection's CollectionInfo query
                reports as creator at call time, None if the query fails;
                fee_bps = the base factory's mint_fee_bps at call time)
   ------------------------------------------------------------------------------

   As in MinterVending.v, cross-contract queries are ORACLE INPUTS of each step: the
   factory parameters at call time (`ofparams`) and what the attached whitelist answers
   at call time (`wlview`).  A failed call (error or panic) is Err and carries no state.

   What differs between the three open-edition contracts (they are near-copies):
   - instantiate: plain and merkle always store MINTABLE_NUM_TOKENS (num_tokens, else
     the factory's max_token_limit at creation); wl-flex stores it only when
     num_tokens is given (`o_mintable = None` otherwise: no cap at all);
   - BurnRemaining unwraps the stored count: on wl-flex without num_tokens it panics;
   - Purge: plain/merkle require "ended" (when an end time exists) and "sold out" only
     when there is no end time; wl-flex requires sold out (when a count is stored)
     and ended (when an end time exists), and also clears the plain whitelist counts;
   - whitelist entitlement: plain = whitelist per_address_limit; wl-flex = the member's
     own mint_count (plus the minter's per-address limit when num_tokens is None);
     merkle = a proof is mandatory while the whitelist is active, limit = allocation
     if given else the whitelist per_address_limit;
   - MintCount query: wl-flex reports (public, whitelist) separately. *)
From LP Require Export Num Pay Sg1 MinterVending.
From LP Require Import Consts.

Record ovariant := mkOV { ov_flex : bool; ov_merkle : bool }.

(* open-edition-factory parameters a minter reads *)
Record ofparams := mkOFP {
  ofp_min_price : N; ofp_min_denom : denom;
  ofp_mint_fee_bps : N;
  ofp_airdrop_price : N; ofp_airdrop_denom : denom; ofp_airdrop_fee_bps : N;
  ofp_max_per_address : N;
  ofp_max_token_limit : N;
  ofp_offset_secs : N;
  ofp_dev : option addr }.

Record ostate := mkOS {
  o_admin : addr;
  o_payment : option addr;
  o_num_tokens : option N;           (* Config.num_tokens *)
  o_pal : N;                         (* per_address_limit *)
  o_whitelist : option addr;
  o_start : N;
  o_end : option N;
  o_price : N; o_denom : denom;      (* mint_price *)
  o_mintable : option N;             (* MINTABLE_NUM_TOKENS; None = never stored *)
  o_token_index : N;                 (* TOKEN_INDEX (absent = 0) *)
  o_total : N;                       (* TOTAL_MINT_COUNT *)
  o_airdrops : N;                    (* AIRDROP_COUNT *)
  o_public : list (addr * N);        (* MINTER_ADDRS *)
  o_wl : list (addr * N);            (* WHITELIST_MINTER_ADDRS *)
  o_fs : list (addr * N); o_ss : list (addr * N); o_ts : list (addr * N);
  o_fs_count : N; o_ss_count : N; o_ts_count : N;
  o_minted : list N;                 (* ghost: ids handed to the collection, newest first *)
  o_burned : N;                      (* ghost: count given up by burn-remaining *)
  o_trading : option N               (* ghost: start_trading_time last sent to the collection *)
}.

Inductive eop :=
| EMint (stage : option N) (proof : bool) (alloc : option N)
| EMintTo (recipient_ok : bool) (recipient : addr)
| EPurge
| EBurnRemaining
| EUpdateMintPrice (p : N)
| EUpdateStartTime (t : N)
| EUpdateEndTime (t : N)
| EUpdateStartTradingTime (t : option N)
| EUpdatePerAddressLimit (l : N)
| ESetWhitelist (w_ok : bool) (w : addr) (newview : option wlview).

(* u32 / u64 "+ 1" with overflow checks on *)
Definition inc32 (x : N) : result N := if U32_MAX <=? x then Err else Ok (x + 1).
Definition inc64 (x : N) : result N := if U64_MAX <=? x then Err else Ok (x + 1).

(* ---- price selection: mint_price(is_admin) ---- *)
Definition o_mint_price (s : ostate) (fp : ofparams) (wv : option wlview) (is_admin : bool)
  : result (N * denom) :=
  if is_admin then
    if (ofp_airdrop_price fp =? 0) && (match o_num_tokens s with None => true | Some _ => false end)
    then Err
    else Ok (ofp_airdrop_price fp, ofp_airdrop_denom fp)
  else match o_whitelist s with
       | None => Ok (o_price s, o_denom s)
       | Some _ =>
           match wv with
           | None => Err
           | Some v => if wv_active v then Ok (wv_price v, wv_denom v) else Ok (o_price s, o_denom s)
           end
       end.

(* whitelist_mint_count: (count, tiered, stage) *)
Definition o_wl_count (s : ostate) (v : wlview) (a : addr) : result (N * bool * option N) :=
  if wv_tiered v then
    match wv_stage_id v with
    | None => Err
    | Some 1 => Ok (get (o_fs s) a, true, Some 1)
    | Some 2 => Ok (get (o_ss s) a, true, Some 2)
    | Some 3 => Ok (get (o_ts s) a, true, Some 3)
    | Some _ => Err
    end
  else Ok (get (o_wl s) a, false, None).

(* is_public_mint: Ok true = public rules apply, Ok false = whitelist mint allowed *)
Definition o_is_public_mint (vr : ovariant) (s : ostate) (wv : option wlview) (a : addr)
           (proof : bool) (alloc : option N) : result bool :=
  match o_whitelist s with
  | None => Ok true
  | Some _ =>
      match wv with
      | None => Err
      | Some v =>
          if negb (wv_active v) then Ok true
          else
            do _ <- (if ov_merkle vr then
                       if negb proof then Err
                       else match wv_has_proof v with Some true => Ok tt | _ => Err end
                     else match wv_has_plain v with Some true => Ok tt | _ => Err end);
            do c <- o_wl_count s v a;
            let '(cnt, tiered, stage) := c in
            do _ <- (if ov_flex vr then
                       do _ <- (match o_num_tokens s with
                                | None => guard (cnt <? o_pal s)
                                | Some _ => Ok tt
                                end);
                       match wv_flex_count v with
                       | None => Err
                       | Some m => guard (cnt <? m)
                       end
                     else if ov_merkle vr then
                       guard (cnt <? match alloc with Some al => al | None => wv_limit v end)
                     else guard (cnt <? wv_limit v));
            match tiered, stage with
            | true, Some st =>
                match wv_stage_limit v with
                | None => Err
                | Some None => Ok false
                | Some (Some lim) =>
                    let sc := match st with 1 => o_fs_count s | 2 => o_ss_count s | _ => o_ts_count s end in
                    if lim <=? sc then Err else Ok false
                end
            | _, _ => Ok false
            end
      end
  end.

(* state update helpers: every field spelled once *)
Definition o_set_config (s : ostate) (pal : N) (wl : option addr) (start : N) (end_ : option N) (price : N)
  : ostate :=
  mkOS (o_admin s) (o_payment s) (o_num_tokens s) pal wl start end_ price (o_denom s)
       (o_mintable s) (o_token_index s) (o_total s) (o_airdrops s)
       (o_public s) (o_wl s) (o_fs s) (o_ss s) (o_ts s) (o_fs_count s) (o_ss_count s) (o_ts_count s)
       (o_minted s) (o_burned s) (o_trading s).

Definition o_set_counts (s : ostate) (pub wl fs ss ts : list (addr * N)) (fsc ssc tsc : N) : ostate :=
  mkOS (o_admin s) (o_payment s) (o_num_tokens s) (o_pal s) (o_whitelist s) (o_start s) (o_end s)
       (o_price s) (o_denom s) (o_mintable s) (o_token_index s) (o_total s) (o_airdrops s)
       pub wl fs ss ts fsc ssc tsc (o_minted s) (o_burned s) (o_trading s).

Definition o_set_supply (s : ostate) (mintable : option N) (idx total airdrops : N) (minted : list N) (burned : N)
  : ostate :=
  mkOS (o_admin s) (o_payment s) (o_num_tokens s) (o_pal s) (o_whitelist s) (o_start s) (o_end s)
       (o_price s) (o_denom s) mintable idx total airdrops
       (o_public s) (o_wl s) (o_fs s) (o_ss s) (o_ts s) (o_fs_count s) (o_ss_count s) (o_ts_count s)
       minted burned (o_trading s).

Definition o_set_trading (s : ostate) (t : option N) : ostate :=
  mkOS (o_admin s) (o_payment s) (o_num_tokens s) (o_pal s) (o_whitelist s) (o_start s) (o_end s)
       (o_price s) (o_denom s) (o_mintable s) (o_token_index s) (o_total s) (o_airdrops s)
       (o_public s) (o_wl s) (o_fs s) (o_ss s) (o_ts s) (o_fs_count s) (o_ss_count s) (o_ts_count s)
       (o_minted s) (o_burned s) t.

(* per-address / per-stage counter bookkeeping of one mint *)
Definition o_bump_counts (s : ostate) (e : env) (wv : option wlview) (is_public : bool) : result ostate :=
  if is_public then
    do c <- inc32 (get (o_public s) (e_sender e));
    Ok (o_set_counts s (set (o_public s) (e_sender e) c) (o_wl s) (o_fs s) (o_ss s) (o_ts s)
                     (o_fs_count s) (o_ss_count s) (o_ts_count s))
  else
    match o_whitelist s, wv with
    | Some _, Some v =>
        do c3 <- o_wl_count s v (e_sender e);
        let '(cnt, tiered, stage) := c3 in
        do c <- inc32 cnt;
        match tiered, stage with
        | true, Some 1 =>
            do k <- inc32 (o_fs_count s);
            Ok (o_set_counts s (o_public s) (o_wl s) (set (o_fs s) (e_sender e) c) (o_ss s) (o_ts s)
                             k (o_ss_count s) (o_ts_count s))
        | true, Some 2 =>
            do k <- inc32 (o_ss_count s);
            Ok (o_set_counts s (o_public s) (o_wl s) (o_fs s) (set (o_ss s) (e_sender e) c) (o_ts s)
                             (o_fs_count s) k (o_ts_count s))
        | true, Some 3 =>
            do k <- inc32 (o_ts_count s);
            Ok (o_set_counts s (o_public s) (o_wl s) (o_fs s) (o_ss s) (set (o_ts s) (e_sender e) c)
                             (o_fs_count s) (o_ss_count s) k)
        | true, _ => Err
        | false, _ =>
            Ok (o_set_counts s (o_public s) (set (o_wl s) (e_sender e) c) (o_fs s) (o_ss s) (o_ts s)
                             (o_fs_count s) (o_ss_count s) (o_ts_count s))
        end
    | _, _ => Err
    end.

(* _execute_mint *)
Definition o_execute_mint (vr : ovariant) (s : ostate) (e : env) (fp : ofparams) (wv : option wlview)
           (is_admin : bool) (recipient : option addr) (is_public : bool)
  : result (ostate * list omsg) :=
  if (match o_mintable s with Some 0 => true | _ => false end) then Err else
  let recipient_addr := match recipient with Some r => r | None => e_sender e end in
  do pr <- o_mint_price s fp wv is_admin;
  let '(amount, dn) := pr in
  do payment <- may_pay (e_funds e) dn;
  if negb (payment =? amount) then Err else
  let bps := if is_admin then ofp_airdrop_fee_bps fp else ofp_mint_fee_bps fp in
  let network_fee := mul_floor amount (dec_bps bps) in
  if U128_MAX <? network_fee then Err else
  do fmsgs <- (if network_fee =? 0 then Ok []
               else match ofp_dev fp with
                    | None => Err
                    | Some dv => distribute_mint_fees dn network_fee false (Some dv)
                    end);
  do tid <- inc64 (o_token_index s);
  do s1 <- o_bump_counts s e wv is_public;
  do total' <- inc32 (o_total s);
  do airdrops' <- (if is_admin then inc32 (o_airdrops s) else Ok (o_airdrops s));
  let mintable' := match o_mintable s with Some m => Some (m - 1) | None => None end in
  let s2 := o_set_supply s1 mintable' tid total' airdrops' (tid :: o_minted s) (o_burned s) in
  do amt <- sub128 amount network_fee;
  let smsgs := if amt =? 0 then []
               else [Send (match o_payment s with Some p => p | None => o_admin s end) dn amt] in
  Ok (s2, map OBank fmsgs ++ [OMintNft tid recipient_addr] ++ map OBank smsgs).

Definition o_is_admin (s : ostate) (e : env) : bool := e_sender e =? o_admin s.

Definition o_ended (s : ostate) (now : N) : bool :=     (* now >= end_time *)
  match o_end s with Some en => en <=? now | None => false end.
Definition o_not_after_end (s : ostate) (now : N) : bool :=   (* now <= end_time *)
  match o_end s with Some en => now <=? en | None => false end.

Definition ostep (vr : ovariant) (s : ostate) (e : env) (fp : ofparams) (wv : option wlview) (o : eop)
  : result (ostate * list omsg) :=
  match o with
  | EMint stage proof alloc =>
      do isp <- o_is_public_mint vr s wv (e_sender e) proof alloc;
      if isp && (e_now e <? o_start s) then Err
      else if o_ended s (e_now e) then Err
      else if isp && (o_pal s <=? get (o_public s) (e_sender e)) then Err
      else o_execute_mint vr s e fp wv false None isp
  | EMintTo rok r =>
      if negb rok then Err
      else if negb (o_is_admin s e) then Err
      else if o_ended s (e_now e) then Err
      else o_execute_mint vr s e fp wv true (Some r) true
  | EPurge =>
      do _ <- nonpayable (e_funds e);
      let unsold := match o_mintable s with Some m => negb (m =? 0) | None => false end in
      if ov_flex vr then
        if unsold then Err
        else if o_not_after_end s (e_now e) then Err
        else Ok (o_set_counts s [] [] (o_fs s) (o_ss s) (o_ts s) (o_fs_count s) (o_ss_count s) (o_ts_count s), [])
      else
        if o_not_after_end s (e_now e) then Err
        else if unsold && (match o_end s with None => true | Some _ => false end) then Err
        else Ok (o_set_counts s [] (o_wl s) (o_fs s) (o_ss s) (o_ts s) (o_fs_count s) (o_ss_count s) (o_ts_count s), [])
  | EBurnRemaining =>
      do _ <- nonpayable (e_funds e);
      if negb (o_is_admin s e) then Err
      else if o_not_after_end s (e_now e) then Err
      else match o_mintable s with
           | Some m =>
               if m =? 0 then Err
               else Ok (o_set_supply s (Some 0) (o_token_index s) (o_total s) (o_airdrops s) (o_minted s)
                                     (o_burned s + m), [])
           | None => Err                       (* unwrap on None: panic *)
           end
  | EUpdateMintPrice p =>
      do _ <- nonpayable (e_funds e);
      if negb (o_is_admin s e) then Err
      else if o_ended s (e_now e) then Err
      else if (o_start s <=? e_now e) && (o_price s <=? p) then Err
      else if p <? ofp_min_price fp then Err
      else if (match o_num_tokens s with None => true | Some _ => false end) && (p =? 0) then Err
      else Ok (o_set_config s (o_pal s) (o_whitelist s) (o_start s) (o_end s) p, [])
  | EUpdateStartTime t =>
      do _ <- nonpayable (e_funds e);
      if negb (o_is_admin s e) then Err
      else if o_start s <=? e_now e then Err
      else if t <? e_now e then Err
      else if (match o_end s with Some en => en <? t | None => false end) then Err
      else Ok (o_set_config s (o_pal s) (o_whitelist s) t (o_end s) (o_price s), [])
  | EUpdateEndTime t =>
      do _ <- nonpayable (e_funds e);
      if negb (o_is_admin s e) then Err
      else match o_end s with
           | None => Err
           | Some en =>
               if en <=? e_now e then Err
               else if t <? e_now e then Err
               else if t <? o_start s then Err
               else Ok (o_set_config s (o_pal s) (o_whitelist s) (o_start s) (Some t) (o_price s), [])
           end
  | EUpdateStartTradingTime t =>
      do _ <- nonpayable (e_funds e);
      if negb (o_is_admin s e) then Err
      else
        do bound <- plus_seconds (o_start s) (ofp_offset_secs fp);
        match t with
        | Some tr =>
            if tr <? e_now e then Err
            else if bound <? tr then Err
            else Ok (o_set_trading s (Some tr), [OTrading (Some tr)])
        | None => Ok (o_set_trading s None, [OTrading None])
        end
  | EUpdatePerAddressLimit l =>
      do _ <- nonpayable (e_funds e);
      if negb (o_is_admin s e) then Err
      else if (l =? 0) || (ofp_max_per_address fp <? l) then Err
      else Ok (o_set_config s l (o_whitelist s) (o_start s) (o_end s) (o_price s), [])
  | ESetWhitelist wok w newview =>
      do _ <- nonpayable (e_funds e);
      if negb (o_is_admin s e) then Err
      else if negb (e_now e <? o_start s) then Err
      else
        do _ <- (match o_whitelist s with
                 | None => Ok tt
                 | Some _ => match wv with None => Err | Some v => guard (negb (wv_active v)) end
                 end);
        if negb wok then Err else
        match newview with
        | None => Err
        | Some nv =>
            if wv_active nv then Err
            else if negb (wv_denom nv =? o_denom s) then Err
            else if wv_price nv <? ofp_min_price fp then Err
            else if negb (ofp_min_denom fp =? wv_denom nv) then Err
            else Ok (o_set_config s (o_pal s) (Some w) (o_start s) (o_end s) (o_price s), [])
        end
  end.

(* ---- queries ---- *)
(* MintCount: (count, whitelist_count); whitelist_count exists on wl-flex only *)
Definition oq_mint_count (vr : ovariant) (s : ostate) (a : addr) : N * N :=
  let pub := get (o_public s) a in
  let wl := get (o_wl s) a + (get (o_fs s) a + get (o_ss s) a + get (o_ts s) a) in
  if ov_flex vr then (pub, wl) else (pub + wl, 0).

(* MintPrice: current_price = mint_price(false); airdrop_price carries the CONFIG denom;
   whitelist_price = the whitelist's configured price when one is attached.  The query
   fails when the whitelist's Config query fails. *)
Record oprice_view := mkOPV {
  opv_current : N * denom; opv_public : N * denom; opv_airdrop : N * denom; opv_whitelist : option (N * denom) }.
Definition oq_mint_price (s : ostate) (fp : ofparams) (wv : option wlview) : result oprice_view :=
  do cur <- o_mint_price s fp wv false;
  do wlp <- (match o_whitelist s with
             | None => Ok None
             | Some _ => match wv with None => Err | Some v => Ok (Some (wv_price v, wv_denom v)) end
             end);
  Ok (mkOPV cur (o_price s, o_denom s) (ofp_airdrop_price fp, o_denom s) wlp).

(* the state open-edition `instantiate` stores (everything else empty / zero) *)
Definition o_init (vr : ovariant) (admin : addr) (payment : option addr) (num_tokens : option N) (pal : N)
           (wl : option addr) (start : N) (end_ : option N) (price : N) (dn : denom)
           (factory_max : N) (trading : option N) : ostate :=
  mkOS admin payment num_tokens pal wl start end_ price dn
       (match num_tokens with Some n => Some n | None => if ov_flex vr then None else Some factory_max end)
       0 0 0 [] [] [] [] [] 0 0 0 [] 0 trading.

(* ================= base minter ================= *)
Record bstate := mkBS {
  b_price : N;               (* Config.mint_price.amount = the factory's min_mint_price at creation *)
  b_token_index : N;
  b_minted : list N;         (* ghost *)
  b_trading : option N       (* ghost *)
}.

Inductive bop :=
| BMint (uri_ok : bool)
| BUpdateStartTradingTime (t : option N).

Definition bstep (s : bstate) (e : env) (creator : option addr) (fee_bps : N) (o : bop)
  : result (bstate * list omsg) :=
  match o with
  | BMint uri_ok =>
      match creator with
      | None => Err
      | Some c =>
          if negb (c =? e_sender e) then Err
          else if negb uri_ok then Err
          else
            do sent <- must_pay (e_funds e) NATIVE;
            let fee := mul_floor (b_price s) (dec_bps fee_bps) in
            if U128_MAX <? fee then Err
            else if negb (fee =? sent) then Err
            else
              do fmsgs <- checked_fair_burn (e_contract e) (e_funds e) fee None;
              do tid <- inc64 (b_token_index s);
              Ok (mkBS (b_price s) tid (tid :: b_minted s) (b_trading s),
                  map OBank fmsgs ++ [OMintNft tid (e_sender e)])
      end
  | BUpdateStartTradingTime t =>
      do _ <- nonpayable (e_funds e);
      match creator with
      | None => Err
      | Some c =>
          if negb (e_sender e =? c) then Err
          else match t with
               | Some tr =>
                   if tr <? e_now e then Err
                   else Ok (mkBS (b_price s) (b_token_index s) (b_minted s) (Some tr), [OTrading (Some tr)])
               | None => Ok (mkBS (b_price s) (b_token_index s) (b_minted s) None, [OTrading None])
               end
      end
  end.

(* ================= NFT metadata mode of an open edition =================
   Config.nft_data is fixed at creation and read by the handlers in exactly one place:
   `_execute_mint` copies either the configured token_uri (OffChainMetadata, collection
   code sg721-base) or the configured extension (OnChainMetadata, collection code
   sg721-metadata-onchain) into the collection's Mint message.  It is therefore kept OUT
   of `ostate` / `ostep` (whose users need not care) and layered on top:
     nft_cfg   mkNft  onchain uri ext      (ids of the configured token_uri / extension text)
     omint     mkOMint id owner uri ext    (what the collection is asked to store)
     ostep_nft c vr s e fp wv op : result (ostate * list omsg * list omint)
   The harness owns the bijection id <-> text (uri string, canonical JSON of the extension). *)
Record nft_cfg := mkNft { nft_onchain : bool; nft_uri : option N; nft_ext : option N }.

Record omint := mkOMint { om_id : N; om_owner : addr; om_uri : option N; om_ext : option N }.

(* open-edition-factory NftData::validate: exactly one of token_uri / extension, matching the mode *)
Definition o_nft_valid (c : nft_cfg) : bool :=
  match nft_uri c, nft_ext c with
  | Some _, None => negb (nft_onchain c)
  | None, Some _ => nft_onchain c
  | _, _ => false
  end.

(* (token_uri, extension) of the Mint message *)
Definition o_nft_payload (c : nft_cfg) : option N * option N :=
  if nft_onchain c then (None, nft_ext c) else (nft_uri c, None).

Definition o_nfts (ms : list omsg) : list (N * addr) :=
  flat_map (fun m => match m with OMintNft t o => [(t, o)] | _ => [] end) ms.

Definition o_mints_of (c : nft_cfg) (ms : list omsg) : list omint :=
  map (fun p => mkOMint (fst p) (snd p) (fst (o_nft_payload c)) (snd (o_nft_payload c))) (o_nfts ms).

Definition ostep_nft (c : nft_cfg) (vr : ovariant) (s : ostate) (e : env) (fp : ofparams) (wv : option wlview)
           (o : eop) : result (ostate * list omsg * list omint) :=
  do r <- ostep vr s e fp wv o;
  let '(s', ms) := r in
  Ok (s', ms, o_mints_of c ms).
