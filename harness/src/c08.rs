//! C08 — factory creation within governance bounds.  One chain with the four factories
//! (the vending factory once per vending minter code, the open-edition factory once per
//! open-edition minter code); CreateMinter probes put each request parameter at
//! bound-1 / bound / bound+1 against the parameters in force (also after sudo updates and
//! freeze/unfreeze), with none / short / exact / over / wrong-denom / two-coin payments.
//! Every call is recorded for the Coq model (corr/C08Corr.v) together with the chain's
//! contract registry and balances afterwards; monitors evaluate the property text.
use crate::chain::{self, App};
use crate::util::*;
use crate::Args;
use cosmwasm_std::{coin, Addr, Coin};
use cw_multi_test::Executor;
use serde::{Deserialize, Serialize};
use serde_json::{json, Value};
use std::collections::{BTreeMap, BTreeSet};

const IBC: &str = "ibc/C4CFF46FD6DE35CA4CF4CE031E643C8FDC9BA4B99AE598E9B0ED98FE3A2319F9";
const S: u64 = 1_000_000_000;
const CREATOR: &str = "creator";
const PAYER: &str = "payer";

#[derive(Clone, Copy, Debug, PartialEq, Eq, Serialize, Deserialize)]
pub enum Kind {
    Base,
    Vending,
    Open,
    TokenMerge,
}

/// minter codes a factory kind can be configured with
const VENDING_CODES: [&str; 6] = [
    "vending-minter",
    "vending-minter-featured",
    "vending-minter-wl-flex",
    "vending-minter-wl-flex-featured",
    "vending-minter-merkle-wl",
    "vending-minter-merkle-wl-featured",
];
const OPEN_CODES: [&str; 3] = ["open-edition-minter", "open-edition-minter-wl-flex", "open-edition-minter-merkle-wl"];

#[derive(Clone, Debug, Serialize, Deserialize)]
pub struct Params {
    pub frozen: bool,
    pub fee: u128,
    pub fee_ibc: bool,
    pub min_price: u128,
    pub min_ibc: bool,
    pub offset: u64,
    pub max_tokens: u32,
    pub max_pal: u32,
    pub airdrop_price: u128,
}
impl Default for Params {
    fn default() -> Self {
        Params { frozen: false, fee: 5000, fee_ibc: false, min_price: 50, min_ibc: false, offset: 604800, max_tokens: 1000, max_pal: 50, airdrop_price: 0 }
    }
}

#[derive(Clone, Debug, Serialize, Deserialize)]
pub struct Req {
    pub coll_code_allowed: bool,
    pub num_tokens: Option<u32>,
    pub pal: u32,
    pub price: u128,
    pub price_ibc: bool,
    /// start relative to now, in nanoseconds (may be negative)
    pub start_in: i64,
    pub end_in: Option<i64>,
    pub trading_in: Option<i64>,
    pub nft_ok: bool,
    pub uri_ok: bool,
    /// None: no whitelist; Some(active)
    pub wl: Option<bool>,
    pub coll_ok: bool,
    pub funds: Vec<(String, u128)>,
    /// open edition: NFT metadata mode (true = OnChainMetadata, collection code sg721-metadata-onchain;
    /// `uri_ok` then speaks about the image URL of the extension, `nft_ok` about the extension being there)
    #[serde(default)]
    pub onchain: bool,
    /// open edition: both a token_uri and an extension are given (never valid)
    #[serde(default)]
    pub nft_both: bool,
    /// open edition, on-chain mode: the extension has no image at all (valid)
    #[serde(default)]
    pub image_none: bool,
}

#[derive(Clone, Debug, Serialize, Deserialize)]
pub struct Case {
    pub kind: Kind,
    pub code: usize,
    pub params: Params,
    /// sudo updates applied before the call (each a full Params replacing the previous)
    pub updates: Vec<Params>,
    pub req: Req,
    /// chain clock at the call = genesis mint time minus this many nanoseconds (0: the default clock, one second after genesis)
    #[serde(default)]
    pub before_genesis: u64,
    /// governance allow-list proposals applied after `updates`: (labels to add, labels to remove); labels B = sg721-base
    /// (on the list from the start), U = sg721-updatable, N = sg721-nt
    #[serde(default)]
    pub code_ops: Vec<(Vec<String>, Vec<String>)>,
    /// per update of `updates` (same index): names of the fields the proposal OMITS (sent as null): "frozen", "fee",
    /// "offset", "min_price", "max_tokens", "max_pal", "airdrop_price"; an omitted field keeps its value
    #[serde(default)]
    pub omit: Vec<Vec<String>>,
    /// label of the collection code the request names (None: sg721-base when `coll_code_allowed`, else sg721-nt)
    #[serde(default)]
    pub req_code: Option<String>,
}

fn r_code_label(c: &Case) -> String {
    match &c.req_code {
        Some(l) => l.clone(),
        None => if c.req.coll_code_allowed { "B".into() } else { "N".into() },
    }
}

fn code_of(w: &World, label: &str) -> u64 {
    match label {
        "B" => w.codes["sg721-base"],
        "U" => w.codes["sg721-updatable"],
        "O" => w.codes["sg721-metadata-onchain"],
        _ => w.codes["sg721-nt"],
    }
}

/// what governance asked for, computed from the proposals alone (never read back from the factory):
/// each UpdateParams replaces exactly the fields it supplies; a non-native minimum cannot be supplied
fn intended(kind: Kind, p: &Params, updates: &[Params], omit: &[Vec<String>]) -> Params {
    let mut e = p.clone();
    for (i, u) in updates.iter().enumerate() {
        let om = |f: &str| omit.get(i).map(|o| o.iter().any(|x| x == f)).unwrap_or(false);
        if !om("frozen") {
            e.frozen = u.frozen;
        }
        if !om("fee") {
            e.fee = u.fee;
            e.fee_ibc = u.fee_ibc;
        }
        if !om("offset") {
            e.offset = u.offset;
        }
        if kind != Kind::TokenMerge && !u.min_ibc && !om("min_price") {
            e.min_price = u.min_price;
            e.min_ibc = false;
        }
        if kind != Kind::Base {
            if !om("max_tokens") {
                e.max_tokens = u.max_tokens;
            }
            if !om("max_pal") {
                e.max_pal = u.max_pal;
            }
            if !(kind == Kind::Open && u.min_ibc) && !om("airdrop_price") {
                e.airdrop_price = u.airdrop_price;
            }
        }
    }
    e
}

/// the sudo message for update `u` with the fields of `omit` sent as null
fn update_json_omitting(kind: Kind, u: &Params, omit: &[String]) -> Value {
    let mut j = World::update_json(kind, u);
    for f in omit {
        let top = match f.as_str() {
            "frozen" => Some("frozen"),
            "fee" => Some("creation_fee"),
            "offset" => Some("max_trading_offset_secs"),
            "min_price" => Some("min_mint_price"),
            _ => None,
        };
        if let Some(t) = top {
            j["update_params"][t] = Value::Null;
        }
        let ext = match f.as_str() {
            "max_tokens" => Some("max_token_limit"),
            "max_pal" => Some("max_per_address_limit"),
            "airdrop_price" => Some("airdrop_mint_price"),
            _ => None,
        };
        if let Some(x) = ext {
            if j["update_params"]["extension"].is_object() {
                j["update_params"]["extension"][x] = Value::Null;
            }
        }
    }
    j
}

struct World {
    app: App,
    addrs: Ids,
    denoms: Ids,
    codes: BTreeMap<String, u64>,
    n_contracts: u64,
    source_collection: Option<Addr>,
}

fn coinv(a: u128, d: &str) -> Value {
    json!({"amount": a.to_string(), "denom": d})
}
fn dn(ibc: bool) -> &'static str {
    if ibc {
        IBC
    } else {
        NATIVE
    }
}

impl World {
    fn new() -> World {
        let mut app = chain::new_app();
        let mut codes = BTreeMap::new();
        let mut put = |app: &mut App, name: &str, c: Box<dyn cw_multi_test::Contract<cosmwasm_std::Empty>>| {
            let id = app.store_code(c);
            codes.insert(name.to_string(), id);
        };
        put(&mut app, "vending-minter", chain::vending_minter());
        put(&mut app, "vending-minter-featured", chain::vending_minter_featured());
        put(&mut app, "vending-minter-wl-flex", chain::vending_minter_wl_flex());
        put(&mut app, "vending-minter-wl-flex-featured", chain::vending_minter_wl_flex_featured());
        put(&mut app, "vending-minter-merkle-wl", chain::vending_minter_merkle_wl());
        put(&mut app, "vending-minter-merkle-wl-featured", chain::vending_minter_merkle_wl_featured());
        put(&mut app, "open-edition-minter", chain::open_edition_minter());
        put(&mut app, "open-edition-minter-wl-flex", chain::open_edition_minter_wl_flex());
        put(&mut app, "open-edition-minter-merkle-wl", chain::open_edition_minter_merkle_wl());
        put(&mut app, "token-merge-minter", chain::token_merge_minter());
        put(&mut app, "base-minter", chain::base_minter());
        put(&mut app, "vending-factory", chain::vending_factory());
        put(&mut app, "open-edition-factory", chain::open_edition_factory());
        put(&mut app, "token-merge-factory", chain::token_merge_factory());
        put(&mut app, "base-factory", chain::base_factory());
        put(&mut app, "sg721-base", chain::sg721_base());
        put(&mut app, "sg721-nt", chain::sg721_nt());
        put(&mut app, "sg721-metadata-onchain", chain::sg721_metadata_onchain());
        put(&mut app, "whitelist", chain::whitelist());
        put(&mut app, "whitelist-flex", chain::whitelist_flex());
        put(&mut app, "sg721-updatable", chain::sg721_updatable());
        for a in [CREATOR, PAYER] {
            chain::mint_coins(&mut app, a, 1_000_000_000_000, NATIVE);
            chain::mint_coins(&mut app, a, 1_000_000_000_000, IBC);
        }
        let mut addrs = Ids::with_fixed(
            &[(FOUNDATION, 1), (LAUNCHPAD_DAO, 2), (LIQUIDITY_DAO, 3), (chain::FAIRBURN_POOL, 4), ("#burned", 5)],
            10,
        );
        addrs.id(CREATOR);
        addrs.id(PAYER);
        let mut denoms = denom_ids();
        denoms.id(IBC);
        World { app, addrs, denoms, codes, n_contracts: 0, source_collection: None }
    }

    fn minter_code_name(kind: Kind, code: usize) -> &'static str {
        match kind {
            Kind::Base => "base-minter",
            Kind::Vending => VENDING_CODES[code % 6],
            Kind::Open => OPEN_CODES[code % 3],
            Kind::TokenMerge => "token-merge-minter",
        }
    }

    fn params_json(&self, kind: Kind, code: usize, p: &Params) -> Value {
        let minter = self.codes[Self::minter_code_name(kind, code)];
        let allowed = vec![self.codes["sg721-base"], self.codes["sg721-metadata-onchain"]];
        match kind {
            Kind::Base => json!({"params": {"code_id": minter, "allowed_sg721_code_ids": allowed, "frozen": p.frozen,
                "creation_fee": coinv(p.fee, dn(p.fee_ibc)), "min_mint_price": coinv(p.min_price, dn(p.min_ibc)),
                "mint_fee_bps": 1000, "max_trading_offset_secs": p.offset, "extension": null}}),
            Kind::Vending => json!({"params": {"code_id": minter, "allowed_sg721_code_ids": allowed, "frozen": p.frozen,
                "creation_fee": coinv(p.fee, dn(p.fee_ibc)), "min_mint_price": coinv(p.min_price, dn(p.min_ibc)),
                "mint_fee_bps": 1000, "max_trading_offset_secs": p.offset,
                "extension": {"max_token_limit": p.max_tokens, "max_per_address_limit": p.max_pal,
                    "airdrop_mint_price": coinv(p.airdrop_price, NATIVE), "airdrop_mint_fee_bps": 10000,
                    "shuffle_fee": coinv(500, NATIVE)}}}),
            Kind::Open => json!({"params": {"code_id": minter, "allowed_sg721_code_ids": allowed, "frozen": p.frozen,
                "creation_fee": coinv(p.fee, dn(p.fee_ibc)), "min_mint_price": coinv(p.min_price, dn(p.min_ibc)),
                "mint_fee_bps": 1000, "max_trading_offset_secs": p.offset,
                "extension": {"max_token_limit": p.max_tokens, "max_per_address_limit": p.max_pal,
                    "airdrop_mint_price": coinv(p.airdrop_price, dn(p.min_ibc)), "airdrop_mint_fee_bps": 100,
                    "dev_fee_address": "devaddress"}}}),
            Kind::TokenMerge => json!({"params": {"code_id": minter, "allowed_sg721_code_ids": allowed, "frozen": p.frozen,
                "creation_fee": coinv(p.fee, dn(p.fee_ibc)), "max_trading_offset_secs": p.offset,
                "max_token_limit": p.max_tokens, "max_per_address_limit": p.max_pal,
                "airdrop_mint_price": coinv(p.airdrop_price, NATIVE), "airdrop_mint_fee_bps": 10000,
                "shuffle_fee": coinv(500, NATIVE)}}),
        }
    }

    fn update_json(kind: Kind, p: &Params) -> Value {
        let common = json!({"code_id": null, "add_sg721_code_ids": null, "rm_sg721_code_ids": null,
            "frozen": p.frozen, "creation_fee": coinv(p.fee, dn(p.fee_ibc)), "max_trading_offset_secs": p.offset});
        let mut m = common.as_object().unwrap().clone();
        match kind {
            Kind::Base => {
                m.insert("min_mint_price".into(), if p.min_ibc { Value::Null } else { coinv(p.min_price, NATIVE) });
                m.insert("mint_fee_bps".into(), Value::Null);
                m.insert("extension".into(), Value::Null);
            }
            Kind::Vending => {
                m.insert("min_mint_price".into(), if p.min_ibc { Value::Null } else { coinv(p.min_price, NATIVE) });
                m.insert("mint_fee_bps".into(), Value::Null);
                m.insert(
                    "extension".into(),
                    json!({"max_token_limit": p.max_tokens, "max_per_address_limit": p.max_pal,
                        "airdrop_mint_price": coinv(p.airdrop_price, NATIVE), "airdrop_mint_fee_bps": null, "shuffle_fee": null}),
                );
            }
            Kind::Open => {
                m.insert("min_mint_price".into(), if p.min_ibc { Value::Null } else { coinv(p.min_price, NATIVE) });
                m.insert("mint_fee_bps".into(), Value::Null);
                m.insert(
                    "extension".into(),
                    json!({"max_token_limit": p.max_tokens, "max_per_address_limit": p.max_pal, "min_mint_price": null,
                        "airdrop_mint_fee_bps": null,
                        "airdrop_mint_price": if p.min_ibc { Value::Null } else { coinv(p.airdrop_price, NATIVE) },
                        "dev_fee_address": null}),
                );
            }
            Kind::TokenMerge => {
                m.insert(
                    "extension".into(),
                    json!({"max_token_limit": p.max_tokens, "max_per_address_limit": p.max_pal,
                        "airdrop_mint_price": coinv(p.airdrop_price, NATIVE), "airdrop_mint_fee_bps": null, "shuffle_fee": null}),
                );
            }
        }
        json!({"update_params": Value::Object(m)})
    }

    fn instantiate(&mut self, code: &str, msg: &Value, funds: &[Coin]) -> Result<Addr, String> {
        let id = self.codes[code];
        let r = crate::util::catch(|| self.app.instantiate_contract(id, Addr::unchecked(CREATOR), msg, funds, code, None));
        match r {
            Ok(Ok(a)) => {
                self.n_contracts += 1;
                self.addrs.id(a.as_str());
                Ok(a)
            }
            Ok(Err(e)) => Err(format!("{:#}", e)),
            Err(p) => Err(p),
        }
    }
}

const GOOD_IMAGE: &str = "https://example.com/editions/one.png";
/// the nft_data of an open-edition request
fn oe_nft_data(r: &Req, uri: &str) -> Value {
    let image: Value = if r.image_none {
        Value::Null
    } else if r.uri_ok {
        json!(format!(" {} ", GOOD_IMAGE))
    } else {
        json!("not a url")
    };
    let ext = json!({"image": image, "image_data": null, "external_url": null, "description": "on-chain edition",
        "name": "Edition", "attributes": null, "background_color": null, "animation_url": null, "youtube_url": null});
    if r.onchain {
        json!({"nft_data_type": "on_chain_metadata",
               "extension": if r.nft_ok || r.nft_both { ext } else { Value::Null },
               "token_uri": if r.nft_both { Some(uri) } else { None }})
    } else {
        json!({"nft_data_type": "off_chain_metadata",
               "extension": if r.nft_both { ext } else { Value::Null },
               "token_uri": if r.nft_ok || r.nft_both { Some(uri) } else { None }})
    }
}

fn gparams_coq(w: &mut World, kind: Kind, factory: &Addr) -> (String, Value) {
    let p = w.app.wrap().query_wasm_smart::<Value>(factory.clone(), &json!({"params": {}})).unwrap()["params"].clone();
    let s = |v: &Value| v.as_str().unwrap().to_string();
    let allowed: Vec<String> = p["allowed_sg721_code_ids"].as_array().unwrap().iter().map(|x| x.to_string()).collect();
    let fee_d = w.denoms.id(&s(&p["creation_fee"]["denom"]));
    let (minp, mind) = match kind {
        Kind::TokenMerge => ("0".to_string(), 0),
        _ => (s(&p["min_mint_price"]["amount"]), w.denoms.id(&s(&p["min_mint_price"]["denom"]))),
    };
    let ext = match kind {
        Kind::TokenMerge => p.clone(),
        _ => p["extension"].clone(),
    };
    let (maxt, maxp, air) = match kind {
        Kind::Base => ("0".to_string(), "0".to_string(), "0".to_string()),
        _ => (ext["max_token_limit"].to_string(), ext["max_per_address_limit"].to_string(), s(&ext["airdrop_mint_price"]["amount"])),
    };
    (
        format!(
            "(mkGP {} {} {} {} {} {} {} {} {} {} {})",
            p["code_id"],
            coq_list(&allowed),
            coq_bool(p["frozen"].as_bool().unwrap()),
            s(&p["creation_fee"]["amount"]),
            fee_d,
            minp,
            mind,
            p["max_trading_offset_secs"],
            maxt,
            maxp,
            air
        ),
        p,
    )
}

pub struct Outcome {
    pub coq: Vec<String>,
    pub ok: bool,
    pub violations: Vec<(String, String)>,
    pub hist_key: String,
}

fn tracked(w: &World, factory: &Addr) -> Vec<String> {
    vec![CREATOR.into(), PAYER.into(), factory.to_string(), FOUNDATION.into(), LAUNCHPAD_DAO.into(), LIQUIDITY_DAO.into(), chain::FAIRBURN_POOL.into()]
}
fn balances(w: &mut World, factory: &Addr, supply0: &BTreeMap<String, u128>) -> (String, BTreeMap<(String, String), u128>) {
    let mut items = vec![];
    let mut raw = BTreeMap::new();
    for a in tracked(w, factory) {
        for d in [NATIVE, IBC] {
            let b = chain::balance(&w.app, &a, d);
            items.push(format!("({}, {}, {})", w.addrs.id(&a), w.denoms.id(d), b));
            raw.insert((a.clone(), d.to_string()), b);
        }
    }
    for d in [NATIVE, IBC] {
        let burned = supply0[d] - chain::supply(&w.app, d);
        items.push(format!("(5, {}, {})", w.denoms.id(d), burned));
        raw.insert(("#burned".into(), d.to_string()), burned);
    }
    (coq_list(&items), raw)
}

pub fn run_case(c: &Case) -> Outcome {
    let mut w = World::new();
    if c.before_genesis > 0 {
        chain::set_time(&mut w.app, chain::GENESIS_NS - c.before_genesis);
    }
    let kind = c.kind;
    let fname = match kind {
        Kind::Base => "base-factory",
        Kind::Vending => "vending-factory",
        Kind::Open => "open-edition-factory",
        Kind::TokenMerge => "token-merge-factory",
    };
    let hist_key = format!("{}/{}", fname, World::minter_code_name(kind, c.code));
    let mut viol = vec![];
    // a source collection for token-merge requirements and a whitelist for the request
    let pj = w.params_json(kind, c.code, &c.params);
    let factory = w.instantiate(fname, &pj, &[]).expect("factory instantiate");
    for (i, u) in c.updates.iter().enumerate() {
        let none: Vec<String> = vec![];
        let _ = chain::sudo(&mut w.app, &factory, &update_json_omitting(kind, u, c.omit.get(i).unwrap_or(&none)));
    }
    let want = intended(kind, &c.params, &c.updates, &c.omit);
    // allow-list proposals: only the add / remove lists are supplied, every other field keeps its value
    let mut want_codes: Vec<String> = vec!["B".into(), "O".into()];
    for (add, rm) in &c.code_ops {
        let mut j = World::update_json(kind, &want);
        j["update_params"]["add_sg721_code_ids"] = json!(add.iter().map(|l| code_of(&w, l)).collect::<Vec<u64>>());
        j["update_params"]["rm_sg721_code_ids"] = json!(rm.iter().map(|l| code_of(&w, l)).collect::<Vec<u64>>());
        if want.min_ibc {
            j["update_params"]["min_mint_price"] = Value::Null;
        }
        let _ = chain::sudo(&mut w.app, &factory, &j);
        for a in add {
            if !want_codes.contains(a) {
                want_codes.push(a.clone());
            }
        }
        want_codes.retain(|x| !rm.contains(x));
    }
    let now = chain::now(&w.app);
    let wl_addr: Option<Addr> = match c.req.wl {
        None => None,
        Some(active) => {
            // an active whitelist started a moment ago; an inactive one starts later
            let (code, members) = if kind == Kind::Vending && (c.code % 6 == 2 || c.code % 6 == 3) || kind == Kind::Open && c.code % 3 == 1 {
                ("whitelist-flex", json!([{"address": CREATOR, "mint_count": 1}]))
            } else {
                ("whitelist", json!([CREATOR]))
            };
            let start = now + 10 * S;
            let mut msg = json!({"members": members, "start_time": start.to_string(), "end_time": (now + 100_000 * S).to_string(),
                "mint_price": coinv(c.params.min_price.max(1), dn(c.params.min_ibc)), "member_limit": 10, "admins": [CREATOR], "admins_mutable": true});
            if code == "whitelist" {
                msg["per_address_limit"] = json!(1);
            } else {
                msg["whale_cap"] = Value::Null;
            }
            let a = w.instantiate(code, &msg, &[coin(100_000_000, NATIVE)]).expect("whitelist");
            if active {
                chain::set_time(&mut w.app, start + 1);
            }
            Some(a)
        }
    };
    let now = chain::now(&w.app);
    let (gp, praw) = gparams_coq(&mut w, kind, &factory);
    let supply0: BTreeMap<String, u128> = [NATIVE, IBC].iter().map(|d| (d.to_string(), chain::supply(&w.app, d))).collect();
    let r = &c.req;
    let start = (now as i128 + r.start_in as i128) as u64;
    let end = r.end_in.map(|e| (now as i128 + e as i128) as u64);
    let trading = r.trading_in.map(|e| (now as i128 + e as i128) as u64);
    let onchain = kind == Kind::Open && r.onchain;
    // label of the requested collection code for the governance ledger: O = sg721-metadata-onchain (on the list from the start)
    let req_label: String = if c.req_code.is_none() && r.coll_code_allowed && onchain { "O".into() } else { r_code_label(c) };
    let coll_code = code_of(&w, &req_label);
    let coll = json!({"code_id": coll_code, "name": "Collection", "symbol": "COL",
        "info": {"creator": CREATOR, "description": "d", "image": "https://example.com/image.png",
                 "external_link": "https://example.com/external.html", "explicit_content": false,
                 "start_trading_time": trading.map(|t| t.to_string()),
                 "royalty_info": {"payment_address": CREATOR, "share": if r.coll_ok { "0.1" } else { "1.5" }}}});
    let uri = if r.uri_ok { "ipfs://bafybeigi3bwpvyvsmnbj46ra4hyffcxdeaj6ntfk5jpic5mx27x6ih2qvq/images" } else { "not a url" };
    let init = match kind {
        Kind::Base => Value::Null,
        Kind::Vending => json!({"base_token_uri": uri, "payment_address": null, "start_time": start.to_string(),
            "num_tokens": r.num_tokens.unwrap_or(0), "mint_price": coinv(r.price, dn(r.price_ibc)),
            "per_address_limit": r.pal, "whitelist": wl_addr.as_ref().map(|a| a.to_string())}),
        Kind::Open => json!({"nft_data": oe_nft_data(r, uri),
            "start_time": start.to_string(), "end_time": end.map(|e| e.to_string()),
            "mint_price": coinv(r.price, dn(r.price_ibc)), "per_address_limit": r.pal, "num_tokens": r.num_tokens,
            "payment_address": null, "whitelist": wl_addr.as_ref().map(|a| a.to_string())}),
        Kind::TokenMerge => json!({"base_token_uri": uri, "start_time": start.to_string(),
            "num_tokens": r.num_tokens.unwrap_or(0), "mint_tokens": [{"collection": "contract0", "amount": 1}],
            "per_address_limit": r.pal}),
    };
    let msg = json!({"create_minter": {"init_msg": init, "collection_params": coll}});
    let funds: Vec<Coin> = r.funds.iter().map(|(d, a)| coin(*a, d.clone())).collect();
    let (bal0, raw0) = balances(&mut w, &factory, &supply0);
    let digest0 = chain::storage_digest(&w.app, &factory);
    let n_before = w.n_contracts;
    let new_minter = format!("contract{}", n_before);
    let new_coll = format!("contract{}", n_before + 1);
    let res = chain::exec(&mut w.app, PAYER, &factory, &msg, &funds);
    let ok = res.is_ok();
    let minter_exists = w.app.contract_data(&Addr::unchecked(&new_minter)).is_ok();
    let coll_exists = w.app.contract_data(&Addr::unchecked(&new_coll)).is_ok();
    let third_exists = w.app.contract_data(&Addr::unchecked(format!("contract{}", n_before + 2))).is_ok();
    let mut wiring: Vec<u64> = vec![];
    let fee: u128 = praw["creation_fee"]["amount"].as_str().unwrap().parse().unwrap();
    let fee_denom = praw["creation_fee"]["denom"].as_str().unwrap().to_string();
    let (bal1, raw1) = balances(&mut w, &factory, &supply0);
    if ok {
        // ---- monitors: what must be true of the chain after a successful creation ----
        if !(minter_exists && coll_exists) || third_exists {
            viol.push(("C08:not-exactly-two-contracts".into(), format!("{}: creation ok but new contracts minter={} collection={} extra={}", hist_key, minter_exists, coll_exists, third_exists)));
        }
        if minter_exists && coll_exists {
            let ma = Addr::unchecked(&new_minter);
            let ca = Addr::unchecked(&new_coll);
            w.addrs.id(&new_minter);
            w.addrs.id(&new_coll);
            let cfg = w.app.wrap().query_wasm_smart::<Value>(ma.clone(), &json!({"config": {}})).unwrap();
            let (m_factory, m_admin, m_coll) = if kind == Kind::Base {
                (cfg["config"]["factory"].as_str().unwrap().to_string(), None, cfg["collection_address"].as_str().unwrap().to_string())
            } else {
                (cfg["factory"].as_str().unwrap().to_string(), cfg["admin"].as_str().map(|s| s.to_string()), cfg["sg721_address"].as_str().unwrap().to_string())
            };
            let m_wasm_admin = w.app.contract_data(&ma).unwrap().admin.map(|a| a.to_string());
            let c_wasm_admin = w.app.contract_data(&ca).unwrap().admin.map(|a| a.to_string());
            let c_minter = w.app.wrap().query_wasm_smart::<Value>(ca.clone(), &json!({"minter": {}})).unwrap()["minter"].as_str().map(|s| s.to_string());
            let info = w.app.wrap().query_wasm_smart::<Value>(ca.clone(), &json!({"collection_info": {}})).unwrap();
            let c_creator = info["creator"].as_str().unwrap().to_string();
            let c_trading: u64 = info["start_trading_time"].as_str().map(|s| s.parse().unwrap()).unwrap_or(0);
            let idof = |w: &mut World, s: &Option<String>| s.as_ref().map(|x| w.addrs.id(x)).unwrap_or(0);
            // base minter has no admin field: the creator mints (checked against the collection); use the creator
            let admin_for_model = if kind == Kind::Base { Some(CREATOR.to_string()) } else { m_admin.clone() };
            wiring = vec![
                w.addrs.id(&m_factory),
                idof(&mut w, &admin_for_model),
                idof(&mut w, &m_wasm_admin),
                idof(&mut w, &c_minter),
                w.addrs.id(&c_creator),
                idof(&mut w, &c_wasm_admin),
                c_trading,
            ];
            if m_factory != factory.as_str() {
                viol.push(("C08:minter-not-wired-to-factory".into(), format!("{}: minter.factory = {}", hist_key, m_factory)));
            }
            if m_coll != new_coll || c_minter.as_deref() != Some(new_minter.as_str()) {
                viol.push(("C08:minter-collection-not-wired".into(), format!("{}: minter.collection = {}, collection.minter = {:?}", hist_key, m_coll, c_minter)));
            }
            if kind != Kind::Base && m_admin.as_deref() != Some(CREATOR) || c_creator != CREATOR {
                viol.push(("C08:not-administered-by-creator".into(), format!("{}: minter admin {:?}, collection creator {}", hist_key, m_admin, c_creator)));
            }
            // chain-level administration: the collection's wasm admin is the creator named in the request
            // (the minter's wasm admin is whoever sent CreateMinter: compared with the model, not judged here)
            if c_wasm_admin.as_deref() != Some(CREATOR) {
                viol.push(("C08:collection-wasm-admin-not-creator".into(), format!("{}: the new collection's contract admin is {:?}, the request names {} as creator", hist_key, c_wasm_admin, CREATOR)));
            }
        }
        // the request was within bounds (documented rules, parameters in force)
        let e = if kind == Kind::TokenMerge { praw.clone() } else { praw["extension"].clone() };
        if praw["frozen"].as_bool().unwrap() || want.frozen {
            viol.push(("C08:created-while-frozen".into(), format!("{}: creation succeeded on a frozen factory", hist_key)));
        }
        if !want_codes.contains(&req_label) {
            viol.push(("C08:code-id-not-allowed".into(), format!("{}: creation succeeded with collection code {} although governance's allow-list is {:?} (proposals {:?})", hist_key, req_label, want_codes, c.code_ops)));
        }
        // the bounds in force are the ones governance last set (ledger kept by the harness, not read back)
        {
            let mut diffs = vec![];
            let coin_of = |v: &Value| (v["amount"].as_str().unwrap_or("?").to_string(), v["denom"].as_str().unwrap_or("?").to_string());
            if coin_of(&praw["creation_fee"]) != (want.fee.to_string(), dn(want.fee_ibc).to_string()) {
                diffs.push(format!("creation_fee {} vs {} {}", praw["creation_fee"], want.fee, dn(want.fee_ibc)));
            }
            if kind != Kind::TokenMerge && coin_of(&praw["min_mint_price"]) != (want.min_price.to_string(), dn(want.min_ibc).to_string()) {
                diffs.push(format!("min_mint_price {} vs {} {}", praw["min_mint_price"], want.min_price, dn(want.min_ibc)));
            }
            if praw["max_trading_offset_secs"].as_u64() != Some(want.offset) {
                diffs.push(format!("max_trading_offset_secs {} vs {}", praw["max_trading_offset_secs"], want.offset));
            }
            if kind != Kind::Base {
                if e["max_token_limit"].as_u64() != Some(want.max_tokens as u64) {
                    diffs.push(format!("max_token_limit {} vs {}", e["max_token_limit"], want.max_tokens));
                }
                if e["max_per_address_limit"].as_u64() != Some(want.max_pal as u64) {
                    diffs.push(format!("max_per_address_limit {} vs {}", e["max_per_address_limit"], want.max_pal));
                }
            }
            if !diffs.is_empty() {
                viol.push(("C08:bounds-in-force-differ-from-governance".into(), format!("{}: after proposals {:?} the factory reports {}", hist_key, c.updates, diffs.join("; "))));
            }
        }
        let paid_ok = r.funds.len() == 1 && r.funds[0].0 == fee_denom && r.funds[0].1 >= fee && (kind != Kind::Open || r.funds[0].1 == fee);
        if !paid_ok {
            viol.push(("C08:fee-not-attached".into(), format!("{}: creation succeeded with funds {:?}, fee {} {}", hist_key, r.funds, fee, fee_denom)));
        }
        if kind != Kind::Base {
            let maxt = e["max_token_limit"].as_u64().unwrap() as u32;
            let maxp = e["max_per_address_limit"].as_u64().unwrap() as u32;
            if let Some(n) = r.num_tokens {
                if n < 1 || n > maxt {
                    viol.push(("C08:num-tokens-out-of-bounds".into(), format!("{}: num_tokens {} accepted, max {}", hist_key, n, maxt)));
                }
            } else if kind != Kind::Open {
                viol.push(("C08:num-tokens-out-of-bounds".into(), format!("{}: missing num_tokens accepted", hist_key)));
            }
            if r.pal < 1 || r.pal > maxp {
                viol.push(("C08:per-address-limit-out-of-bounds".into(), format!("{}: per_address_limit {} accepted, max {}", hist_key, r.pal, maxp)));
            }
            let three_pct_applies = kind == Kind::TokenMerge || kind == Kind::Vending && !(c.code % 6 == 2 || c.code % 6 == 3);
            if three_pct_applies {
                let n = r.num_tokens.unwrap_or(0) as u64;
                let cap = if n < 100 { 3 } else { (n * 3 + 99) / 100 };
                if r.pal as u64 > cap {
                    viol.push(("C08:three-percent-rule".into(), format!("{}: per_address_limit {} accepted for {} tokens (cap {})", hist_key, r.pal, n, cap)));
                }
            }
        }
        if kind == Kind::Vending || kind == Kind::Open {
            let minp: u128 = praw["min_mint_price"]["amount"].as_str().unwrap().parse().unwrap();
            if r.price < minp || dn(r.price_ibc) != praw["min_mint_price"]["denom"].as_str().unwrap() {
                viol.push(("C08:price-below-min-or-wrong-denom".into(), format!("{}: price {} {} accepted, min {}", hist_key, r.price, dn(r.price_ibc), praw["min_mint_price"])));
            }
        }
        if kind == Kind::Open {
            // the edition was created with well-formed nft data of the requested mode, stored as configured
            if !r.nft_ok || r.nft_both {
                viol.push(("C08:oe-malformed-nft-data-accepted".into(), format!("{}: nft data accepted with onchain={} nft_ok={} both={}", hist_key, r.onchain, r.nft_ok, r.nft_both)));
            }
            if !r.uri_ok && !(r.onchain && r.image_none) {
                viol.push(("C08:oe-bad-url-accepted".into(), format!("{}: creation succeeded with a {} that is not a URL", hist_key, if r.onchain { "extension image" } else { "token_uri" })));
            }
            if minter_exists {
                let cfg = w.app.wrap().query_wasm_smart::<Value>(Addr::unchecked(&new_minter), &json!({"config": {}})).unwrap();
                let nd = &cfg["nft_data"];
                let want_type = if r.onchain { "on_chain_metadata" } else { "off_chain_metadata" };
                let stored_ok = if r.onchain {
                    nd["token_uri"].is_null() && (if r.image_none { nd["extension"]["image"].is_null() } else { nd["extension"]["image"].as_str() == Some(GOOD_IMAGE) })
                } else {
                    nd["extension"].is_null() && nd["token_uri"].as_str() == Some(uri)
                };
                if nd["nft_data_type"].as_str() != Some(want_type) || !stored_ok {
                    viol.push(("C08:oe-nft-data-not-stored".into(), format!("{}: minter stores nft_data {} for a request with onchain={}", hist_key, nd, r.onchain)));
                }
                let code = w.app.contract_data(&Addr::unchecked(&new_coll)).map(|d| d.code_id).unwrap_or(0);
                if code != coll_code {
                    viol.push(("C08:oe-collection-code".into(), format!("{}: collection runs code {}, requested {}", hist_key, code, coll_code)));
                }
            }
            if r.start_in <= 0 {
                viol.push(("C08:oe-start-not-future".into(), format!("{}: start {} ns from now accepted", hist_key, r.start_in)));
            }
            if let Some(e) = r.end_in {
                if e <= r.start_in {
                    viol.push(("C08:oe-end-not-after-start".into(), format!("{}: end {} <= start {}", hist_key, e, r.start_in)));
                }
            }
            if r.end_in.is_none() && r.num_tokens.is_none() {
                viol.push(("C08:oe-unbounded".into(), format!("{}: neither end time nor token cap", hist_key)));
            }
            if r.price == 0 && r.num_tokens.is_none() {
                viol.push(("C08:oe-zero-price-without-cap".into(), format!("{}: zero price without a cap", hist_key)));
            }
        }
        // fee disposal: never less than the fee, never more than was paid; payer pays exactly what it attached
        let paid: u128 = r.funds.iter().map(|f| f.1).sum();
        let d = |who: &str, den: &str| raw1[&(who.to_string(), den.to_string())] as i128 - raw0[&(who.to_string(), den.to_string())] as i128;
        let out = if fee_denom == NATIVE { d("#burned", NATIVE) + d(chain::FAIRBURN_POOL, NATIVE) } else { d(LAUNCHPAD_DAO, &fee_denom) };
        if out < fee as i128 || out > paid as i128 {
            viol.push(("C08:fee-disposal-out-of-range".into(), format!("{}: fee {} paid {} disposed {}", hist_key, fee, paid, out)));
        }
        if fee_denom == NATIVE && (d("#burned", NATIVE) != (fee / 2) as i128 || d(chain::FAIRBURN_POOL, NATIVE) != (fee - fee / 2) as i128) {
            viol.push(("C08:fee-split".into(), format!("{}: fee {} burned {} pool {}", hist_key, fee, d("#burned", NATIVE), d(chain::FAIRBURN_POOL, NATIVE))));
        }
        if d(PAYER, &fee_denom) != -(paid as i128) {
            viol.push(("C08:payer-delta".into(), format!("{}: payer delta {} for payment {}", hist_key, d(PAYER, &fee_denom), paid)));
        }
    } else {
        // rejection: nothing created, no funds moved, factory storage untouched
        if minter_exists || coll_exists {
            viol.push(("C08:contracts-left-after-rejection".into(), format!("{}: rejected but minter={} collection={}", hist_key, minter_exists, coll_exists)));
        }
        if raw0 != raw1 || chain::storage_digest(&w.app, &factory) != digest0 {
            viol.push(("C08:rejection-moved-funds-or-state".into(), format!("{}: rejected creation changed balances or factory state", hist_key)));
        }
    }
    // the factory's own answers about the collection code: the list is the governance list, the
    // single-code answer agrees with it, and nothing was created with a code the factory calls not allowed
    {
        let q1 = w.app.wrap().query_wasm_smart::<Value>(factory.clone(), &json!({"allowed_collection_code_id": coll_code})).ok();
        let q2 = w.app.wrap().query_wasm_smart::<Value>(factory.clone(), &json!({"allowed_collection_code_ids": {}})).ok();
        match (q1, q2) {
            (Some(a), Some(l)) => {
                let allowed = a["allowed"].as_bool();
                let ids: Vec<u64> = l["code_ids"].as_array().map(|x| x.iter().filter_map(|y| y.as_u64()).collect()).unwrap_or_default();
                let gov: Vec<u64> = praw["allowed_sg721_code_ids"].as_array().map(|x| x.iter().filter_map(|y| y.as_u64()).collect()).unwrap_or_default();
                if ids != gov || allowed != Some(ids.contains(&coll_code)) || (ok && allowed != Some(true)) {
                    viol.push(("C08:code-id-queries-disagree".into(), format!("{}: AllowedCollectionCodeId({}) = {:?}, AllowedCollectionCodeIds = {:?}, params list {:?}, created = {}", hist_key, coll_code, allowed, ids, gov, ok)));
                }
            }
            _ => viol.push(("C08:code-id-queries-fail".into(), format!("{}: the factory does not answer the allowed-collection-code queries", hist_key))),
        }
    }
    let kind_coq = match kind {
        Kind::Base => "FBase",
        Kind::Vending => "FVending",
        Kind::Open => "FOpen",
        Kind::TokenMerge => "FTokenMerge",
    };
    let flex = kind == Kind::Vending && (c.code % 6 == 2 || c.code % 6 == 3);
    let req_coq = format!(
        "(mkReq {} {} {} {} {} {} {} {} {} {} {} {} {} {})",
        coll_code,
        w.addrs.id(CREATOR),
        coq_opt_n(r.num_tokens.map(|x| x as u64)),
        r.pal,
        r.price,
        w.denoms.id(dn(r.price_ibc)),
        start,
        coq_opt_n(end),
        coq_opt_n(trading),
        coq_bool(r.nft_ok && !r.nft_both),
        // the URL the minter validates: the token_uri, or the image of the extension (none = nothing to validate)
        coq_bool(if onchain && (r.image_none || !(r.nft_ok || r.nft_both)) { true } else { r.uri_ok }),
        match r.wl {
            None => "None".to_string(),
            Some(b) => format!("(Some {})", coq_bool(b)),
        },
        coq_bool(flex),
        coq_bool(r.coll_ok)
    );
    let funds_coq = coq_list(&r.funds.iter().map(|(d, a)| format!("mkCoin {} {}", w.denoms.id(d), a)).collect::<Vec<_>>());
    let fid = w.addrs.id(factory.as_str());
    let pid = w.addrs.id(PAYER);
    let nm = w.addrs.id(&new_minter);
    let coq = format!(
        "(mkC08 {} {} {} {} {} {} {} {} {} {} {} {})",
        kind_coq,
        fid,
        gp,
        now,
        pid,
        funds_coq,
        req_coq,
        nm,
        bal0,
        coq_bool(ok),
        coq_list(&wiring.iter().map(|x| x.to_string()).collect::<Vec<_>>()),
        bal1
    );
    let mut coqs = vec![format!("(CCreate {})", coq)];
    // ---- a later UpdatePerAddressLimit on the created minter is held to the same bounds ----
    if ok && kind != Kind::Base && minter_exists {
        let ma = Addr::unchecked(&new_minter);
        let e = if kind == Kind::TokenMerge { praw.clone() } else { praw["extension"].clone() };
        let maxp = e["max_per_address_limit"].as_u64().unwrap();
        let n = r.num_tokens.unwrap_or(0) as u64;
        let cap = if n < 100 { 3 } else { (n * 3 + 99) / 100 };
        let three_pct_applies = kind == Kind::TokenMerge || kind == Kind::Vending && !flex;
        let q_pal = |w: &World| -> u64 {
            w.app.wrap().query_wasm_smart::<Value>(ma.clone(), &json!({"config": {}})).unwrap()["per_address_limit"].as_u64().unwrap()
        };
        let mut probes: Vec<(&str, u64, bool)> = vec![(PAYER, 1, false), (CREATOR, 1, true)];
        for l in [0u64, 1, 2, 3, 4, cap.saturating_sub(1), cap, cap + 1, maxp.saturating_sub(1), maxp, maxp + 1] {
            probes.push((CREATOR, l, false));
        }
        for (who, l, with_funds) in probes {
            let before = q_pal(&w);
            let funds = if with_funds { vec![coin(1, NATIVE)] } else { vec![] };
            let res = chain::exec(&mut w.app, who, &ma, &json!({"update_per_address_limit": {"per_address_limit": l}}), &funds);
            let after = q_pal(&w);
            let pok = res.is_ok();
            if pok {
                if who != CREATOR {
                    viol.push(("C08:update-limit-by-non-admin".into(), format!("{}: UpdatePerAddressLimit({}) by {} succeeded", hist_key, l, who)));
                }
                if l < 1 || l > maxp {
                    viol.push(("C08:update-limit-out-of-bounds".into(), format!("{}: UpdatePerAddressLimit({}) accepted, max {}", hist_key, l, maxp)));
                }
                if three_pct_applies && l > cap {
                    viol.push(("C08:update-limit-three-percent-rule".into(), format!("{}: UpdatePerAddressLimit({}) accepted for {} tokens (cap {})", hist_key, l, n, cap)));
                }
                if after != l {
                    viol.push(("C08:update-limit-not-applied".into(), format!("{}: UpdatePerAddressLimit({}) ok but limit is {}", hist_key, l, after)));
                }
            } else if after != before {
                viol.push(("C08:rejected-update-changed-limit".into(), format!("{}: rejected UpdatePerAddressLimit({}) changed the limit {} -> {}", hist_key, l, before, after)));
            }
            coqs.push(format!(
                "(CUpdatePal {} {} {} {} {} {} {} {} {} {})",
                kind_coq, coq_bool(flex), coq_bool(who == CREATOR), coq_bool(!with_funds), l, n, maxp, coq_bool(pok), after, before
            ));
        }
    }
    // ---- ... also after governance has LOWERED the maximum below the limit the minter already holds ----
    if ok && kind != Kind::Base && minter_exists && c.code_ops.is_empty() && c.before_genesis == 0 {
        let ma = Addr::unchecked(&new_minter);
        let n = r.num_tokens.unwrap_or(0) as u64;
        let cap = if n < 100 { 3 } else { (n * 3 + 99) / 100 };
        let three_pct_applies = kind == Kind::TokenMerge || kind == Kind::Vending && !flex;
        let q_pal = |w: &World| -> u64 {
            w.app.wrap().query_wasm_smart::<Value>(ma.clone(), &json!({"config": {}})).unwrap()["per_address_limit"].as_u64().unwrap()
        };
        // raise the minter's own limit as far as the bounds in force allow
        let hi = if three_pct_applies { cap.min(want.max_pal as u64) } else { want.max_pal as u64 };
        let _ = chain::exec(&mut w.app, CREATOR, &ma, &json!({"update_per_address_limit": {"per_address_limit": hi}}), &[]);
        let held = q_pal(&w);
        if held >= 3 {
            // the proposal supplies only the new maximum (1); every other field keeps its value
            let lowered = Params { max_pal: 1, ..want.clone() };
            let mut j = World::update_json(kind, &lowered);
            if want.min_ibc {
                j["update_params"]["min_mint_price"] = Value::Null;
            }
            let sres = chain::sudo(&mut w.app, &factory, &j);
            if sres.is_ok() {
                let newmax = 1u64;
                // descending, the only legal value last: a handler that exempts LOWERING the limit from the bound must meet
                // a value below the held limit and above the new maximum while the limit is still high
                for l in [held + 1, held, held - 1, 2, 0, 1] {
                    let before = q_pal(&w);
                    let res = chain::exec(&mut w.app, CREATOR, &ma, &json!({"update_per_address_limit": {"per_address_limit": l}}), &[]);
                    let after = q_pal(&w);
                    let pok = res.is_ok();
                    if pok {
                        if l < 1 || l > newmax {
                            viol.push(("C08:update-limit-out-of-bounds".into(), format!("{}: governance lowered max_per_address_limit to {} while the minter held {}; UpdatePerAddressLimit({}) was then accepted", hist_key, newmax, held, l)));
                        }
                        if after != l {
                            viol.push(("C08:update-limit-not-applied".into(), format!("{}: UpdatePerAddressLimit({}) ok but limit is {}", hist_key, l, after)));
                        }
                    } else if after != before {
                        viol.push(("C08:rejected-update-changed-limit".into(), format!("{}: rejected UpdatePerAddressLimit({}) changed the limit {} -> {}", hist_key, l, before, after)));
                    }
                    coqs.push(format!(
                        "(CUpdatePal {} {} {} {} {} {} {} {} {} {})",
                        kind_coq, coq_bool(flex), coq_bool(true), coq_bool(true), l, n, newmax, coq_bool(pok), after, before
                    ));
                }
            }
        }
    }
    Outcome { coq: coqs, ok, violations: viol, hist_key: format!("{}:{}", hist_key, if ok { "ok" } else { "err" }) }
}

fn good_req(kind: Kind, p: &Params) -> Req {
    let fee_d = dn(p.fee_ibc).to_string();
    Req {
        coll_code_allowed: true,
        num_tokens: match kind {
            Kind::Base => None,
            _ => Some(100),
        },
        pal: 3,
        price: p.min_price + 10,
        price_ibc: p.min_ibc,
        start_in: 1000 * S as i64,
        end_in: if kind == Kind::Open { Some(5000 * S as i64) } else { None },
        trading_in: None,
        nft_ok: true,
        uri_ok: true,
        wl: None,
        coll_ok: true,
        funds: vec![(fee_d, p.fee)],
        onchain: false,
        nft_both: false,
        image_none: false,
    }
}

/// every request parameter at bound-1 / bound / bound+1 for one (kind, minter code, params)
fn probes(kind: Kind, code: usize, p: &Params, updates: &[Params]) -> Vec<Case> {
    let eff = updates.last().unwrap_or(p).clone();
    let base = good_req(kind, &eff);
    let mut v: Vec<Req> = vec![base.clone()];
    let fd = dn(eff.fee_ibc).to_string();
    let other = dn(!eff.fee_ibc).to_string();
    // payments
    for f in [
        vec![],
        vec![(fd.clone(), eff.fee.saturating_sub(1))],
        vec![(fd.clone(), eff.fee + 1)],
        vec![(other.clone(), eff.fee)],
        vec![(fd.clone(), eff.fee), (other.clone(), 5)],
    ] {
        v.push(Req { funds: f, ..base.clone() });
    }
    v.push(Req { coll_code_allowed: false, ..base.clone() });
    v.push(Req { coll_ok: false, ..base.clone() });
    if kind != Kind::Base {
        for n in [0, 1, eff.max_tokens - 1, eff.max_tokens, eff.max_tokens + 1, 99, 100, 101, 134] {
            for pal in [1u32, 3, 4, 5] {
                v.push(Req { num_tokens: Some(n), pal, ..base.clone() });
            }
        }
        for pal in [0, 1, 2, eff.max_pal.saturating_sub(1), eff.max_pal, eff.max_pal + 1] {
            v.push(Req { pal, num_tokens: Some(eff.max_tokens.min(1000)), ..base.clone() });
        }
        v.push(Req { uri_ok: false, ..base.clone() });
    }
    if kind == Kind::Vending || kind == Kind::Open {
        for pr in [eff.min_price.saturating_sub(1), eff.min_price, eff.min_price + 1, 0] {
            v.push(Req { price: pr, ..base.clone() });
        }
        v.push(Req { price_ibc: !eff.min_ibc, ..base.clone() });
        v.push(Req { wl: Some(false), ..base.clone() });
        v.push(Req { wl: Some(true), ..base.clone() });
    }
    if kind != Kind::Base {
        // start time around now / genesis is earlier than the chain clock, so only "now" matters
        for st in [-1i64, 0, 1] {
            v.push(Req { start_in: st, end_in: base.end_in.map(|_| 5000 * S as i64), ..base.clone() });
        }
        // trading time around the bound start + offset
        let bound = base.start_in + (eff.offset as i64).saturating_mul(S as i64);
        for t in [bound - 1, bound, bound + 1, 0, -1] {
            v.push(Req { trading_in: Some(t), ..base.clone() });
        }
    } else {
        for t in [0i64, -1, 1, 1_000_000] {
            v.push(Req { trading_in: Some(t), ..base.clone() });
        }
    }
    if kind == Kind::Open {
        for e in [base.start_in - 1, base.start_in, base.start_in + 1] {
            v.push(Req { end_in: Some(e), ..base.clone() });
        }
        v.push(Req { end_in: None, num_tokens: None, ..base.clone() });
        v.push(Req { end_in: None, num_tokens: Some(10), ..base.clone() });
        v.push(Req { end_in: Some(5000 * S as i64), num_tokens: None, ..base.clone() });
        v.push(Req { end_in: Some(5000 * S as i64), num_tokens: None, price: 0, ..base.clone() });
        v.push(Req { nft_ok: false, ..base.clone() });
        // NFT metadata mode: on-chain metadata with a good / padded image, a bad image URL, no image,
        // no extension; both token_uri and extension in either mode
        v.push(Req { onchain: true, ..base.clone() });
        v.push(Req { onchain: true, uri_ok: false, ..base.clone() });
        v.push(Req { onchain: true, image_none: true, uri_ok: false, ..base.clone() });
        v.push(Req { onchain: true, nft_ok: false, ..base.clone() });
        v.push(Req { onchain: true, nft_both: true, ..base.clone() });
        v.push(Req { nft_both: true, ..base.clone() });
        v.push(Req { onchain: true, coll_code_allowed: false, ..base.clone() });
    }
    let mut out: Vec<Case> = v.into_iter().map(|req| Case { kind, code, params: p.clone(), updates: updates.to_vec(), req, before_genesis: 0, code_ops: vec![], req_code: None, omit: vec![] }).collect();
    if updates.is_empty() {
        // governance allow-list proposals before the request: added, removed, re-listed (also twice, also with another id
        // in between), removed again; the request names each label in turn
        let l = |x: &[&str]| x.iter().map(|s| s.to_string()).collect::<Vec<String>>();
        let seqs: Vec<Vec<(Vec<String>, Vec<String>)>> = vec![
            vec![(l(&["U"]), l(&[]))],
            vec![(l(&["U"]), l(&[])), (l(&[]), l(&["U"]))],
            vec![(l(&["U"]), l(&[])), (l(&["N", "U"]), l(&[])), (l(&[]), l(&["U"]))],
            vec![(l(&["U", "U"]), l(&[])), (l(&[]), l(&["U"]))],
            vec![(l(&["U", "N", "U"]), l(&["U"]))],
            vec![(l(&["N"]), l(&["B"])), (l(&["B", "U", "B"]), l(&[])), (l(&[]), l(&["B"]))],
            vec![(l(&["U"]), l(&["U"]))],
            vec![(l(&[]), l(&["B"]))],
        ];
        for ops in seqs {
            for lab in ["B", "U", "N"] {
                out.push(Case { kind, code, params: p.clone(), updates: vec![], req: base.clone(), before_genesis: 0, code_ops: ops.clone(), req_code: Some(lab.to_string()), omit: vec![] });
            }
        }
    }
    if updates.is_empty() {
        // proposals that OMIT fields: the first sets everything (frozen, moved bounds), the second changes one field and omits
        // the others, which must keep the values of the first; then the request that the kept value decides
        let first = Params { frozen: true, fee: 6001, offset: 3600, min_price: 77, max_tokens: 120, max_pal: 4, ..p.clone() };
        let second = Params { frozen: false, fee: 7001, offset: 7200, min_price: 99, max_tokens: 500, max_pal: 9, airdrop_price: p.airdrop_price, ..p.clone() };
        let all: [&str; 7] = ["frozen", "fee", "offset", "min_price", "max_tokens", "max_pal", "airdrop_price"];
        for keep in all {
            // the second proposal supplies only `keep`
            let om: Vec<String> = all.iter().filter(|f| **f != keep).map(|f| f.to_string()).collect();
            let eff2 = intended(kind, p, &[first.clone(), second.clone()], &[vec![], om.clone()]);
            let b2 = good_req(kind, &eff2);
            let mut reqs = vec![b2.clone()];
            if kind != Kind::Base {
                reqs.push(Req { num_tokens: Some(eff2.max_tokens), pal: 1, ..b2.clone() });
                reqs.push(Req { num_tokens: Some(eff2.max_tokens + 1), pal: 1, ..b2.clone() });
                reqs.push(Req { pal: eff2.max_pal, num_tokens: Some(eff2.max_tokens.min(1000)), ..b2.clone() });
                reqs.push(Req { pal: eff2.max_pal + 1, num_tokens: Some(eff2.max_tokens.min(1000)), ..b2.clone() });
            }
            if kind == Kind::Vending || kind == Kind::Open {
                reqs.push(Req { price: eff2.min_price.saturating_sub(1), ..b2.clone() });
                reqs.push(Req { price: eff2.min_price, ..b2.clone() });
            }
            for req in reqs {
                out.push(Case { kind, code, params: p.clone(), updates: vec![first.clone(), second.clone()], req, before_genesis: 0, code_ops: vec![], req_code: None, omit: vec![vec![], om.clone()] });
            }
        }
        // and a proposal that omits only `frozen` after a freeze (everything else supplied)
        let b3 = good_req(kind, &second);
        out.push(Case { kind, code, params: p.clone(), updates: vec![first.clone(), second.clone()], req: b3, before_genesis: 0, code_ops: vec![], req_code: None, omit: vec![vec![], vec!["frozen".to_string()]] });
    }
    if kind != Kind::Base && updates.is_empty() {
        // the chain clock 1000 s before the genesis mint time: a start in the future of the clock but
        // before / at / after genesis (only a pre-genesis clock can tell the genesis rule from the "not in the past" rule)
        let back = 1000 * S;
        for st in [back as i64 - 1, back as i64, back as i64 + 1, 1] {
            let req = Req { start_in: st, end_in: base.end_in.map(|_| st + 5000 * S as i64), trading_in: None, ..base.clone() };
            out.push(Case { kind, code, params: p.clone(), updates: vec![], req, before_genesis: back, code_ops: vec![], req_code: None, omit: vec![] });
        }
    }
    out
}

fn gen_cases(a: &Args) -> Vec<Case> {
    let mut rng = Rng::new(a.seed);
    let mut v = vec![];
    let kinds: Vec<(Kind, usize)> = {
        let mut k = vec![(Kind::Base, 0), (Kind::TokenMerge, 0)];
        for i in 0..6 {
            k.push((Kind::Vending, i));
        }
        for i in 0..3 {
            k.push((Kind::Open, i));
        }
        k
    };
    let d = Params::default();
    for (kind, code) in &kinds {
        // default parameters: the full probe set
        v.extend(probes(*kind, *code, &d, &[]));
        // after governance updates (bounds moved), frozen / unfrozen, non-native fee and price denoms
        let moved = Params { max_tokens: 120, max_pal: 4, min_price: 77, fee: 6001, offset: 3600, ..d.clone() };
        let mut sub = probes(*kind, *code, &d, &[moved.clone()]);
        let frozen = Params { frozen: true, ..d.clone() };
        sub.extend(probes(*kind, *code, &d, &[frozen.clone()]).into_iter().take(3));
        sub.extend(probes(*kind, *code, &d, &[frozen, d.clone()]).into_iter().take(3));
        let ibcfee = Params { fee_ibc: true, ..d.clone() };
        sub.extend(probes(*kind, *code, &ibcfee, &[]).into_iter().take(8));
        if *kind == Kind::Vending || *kind == Kind::Open {
            let ibcmin = Params { min_ibc: true, airdrop_price: 10, ..d.clone() };
            sub.extend(probes(*kind, *code, &ibcmin, &[]).into_iter().take(8));
            let zero_airdrop = Params { airdrop_price: 0, ..d.clone() };
            let pos_airdrop = Params { airdrop_price: 10, ..d.clone() };
            sub.extend(probes(*kind, *code, &pos_airdrop, &[]).into_iter().rev().take(8));
            sub.extend(probes(*kind, *code, &zero_airdrop, &[]).into_iter().rev().take(8));
        }
        // degenerate governance settings: zero minimum price (free editions), limits of 1, zero offset
        let free = Params { min_price: 0, airdrop_price: 10, ..d.clone() };
        v.extend(probes(*kind, *code, &free, &[]));
        let tiny = Params { min_price: 0, max_tokens: 1, max_pal: 1, offset: 0, airdrop_price: 0, ..d.clone() };
        sub.extend(probes(*kind, *code, &tiny, &[]));
        sub.extend(probes(*kind, *code, &d, &[free.clone()]).into_iter().rev().take(12));
        if a.thorough() {
            v.extend(sub);
        } else {
            // quick tier: a seeded half of the secondary probes
            for c in sub {
                if rng.chance(1, 2) {
                    v.push(c);
                }
            }
        }
    }
    // random requests
    let nrand = if a.thorough() { 1500 } else { 150 };
    for _ in 0..nrand {
        let (kind, code) = *rng.pick(&kinds);
        let p = Params {
            frozen: rng.chance(1, 12),
            fee: *rng.pick(&[1u128, 2, 3, 5000, 5001, 1 << 70]),
            fee_ibc: rng.chance(1, 5),
            min_price: *rng.pick(&[0u128, 1, 50, 1 << 90]),
            min_ibc: rng.chance(1, 5),
            offset: *rng.pick(&[0u64, 1, 604800, 18446744073, 18446744074]),
            max_tokens: *rng.pick(&[1u32, 99, 100, 1000]),
            max_pal: *rng.pick(&[1u32, 3, 4, 50]),
            airdrop_price: *rng.pick(&[0u128, 7]),
        };
        let mut req = good_req(kind, &p);
        req.num_tokens = if kind == Kind::Base { None } else if rng.chance(1, 8) { None } else { Some(rng.range(0, p.max_tokens as u64 + 1) as u32) };
        req.pal = rng.range(0, p.max_pal as u64 + 1) as u32;
        req.price = match rng.below(4) {
            0 => p.min_price.saturating_sub(1),
            1 => p.min_price,
            _ => p.min_price.saturating_add(rng.below(1000) as u128),
        };
        if rng.chance(1, 10) {
            req.price_ibc = !req.price_ibc;
        }
        if rng.chance(1, 6) {
            req.funds = vec![(dn(p.fee_ibc).to_string(), p.fee.saturating_add(rng.below(3) as u128).saturating_sub(1))];
        }
        if rng.chance(1, 6) {
            req.trading_in = Some(rng.below(2_000_000) as i64 * S as i64);
        }
        if kind == Kind::Open && rng.chance(1, 3) {
            req.end_in = if rng.chance(1, 2) { None } else { Some(req.start_in + rng.below(3) as i64 - 1) };
        }
        if kind == Kind::Open && rng.chance(1, 2) {
            req.onchain = true;
            req.uri_ok = !rng.chance(1, 5);
            req.image_none = rng.chance(1, 6);
            req.nft_ok = !rng.chance(1, 8);
            req.nft_both = rng.chance(1, 10);
        }
        v.push(Case { kind, code, params: p, updates: vec![], req, before_genesis: 0, code_ops: vec![], req_code: None, omit: vec![] });
    }
    v
}

pub fn run(a: &Args) {
    let out = OutDir::new(&a.out);
    let mut rep = Report { property: "C08".into(), tier: a.tier.clone(), seed: a.seed, ..Default::default() };
    let cases: Vec<Case> = if let Some(p) = &a.replay {
        #[derive(Deserialize)]
        struct ReplayFile {
            case: Case,
        }
        let rf: ReplayFile = serde_json::from_str(&std::fs::read_to_string(p).expect("replay file")).expect("replay json");
        vec![rf.case]
    } else {
        gen_cases(a)
    };
    let mut coq_cases = vec![];
    let mut nviol = 0;
    let mut distinct = BTreeSet::new();
    for (i, c) in cases.iter().enumerate() {
        let o = run_case(c);
        rep.evaluations += 1;
        rep.bump(&o.hist_key);
        if o.ok {
            distinct.insert(serde_json::to_string(c).unwrap());
        }
        for (key, what) in o.violations.iter().take(2) {
            nviol += 1;
            if nviol <= 20 {
                let body = format!(
                    "{{\n \"property\": \"C08\",\n \"case\": {},\n \"violation\": {}\n}}\n",
                    serde_json::to_string(c).unwrap(),
                    serde_json::to_string(what).unwrap()
                );
                let path = out.write_replay(&format!("C08-{}.json", nviol), &body);
                rep.violations.push(Violation { key: key.clone(), what: what.clone(), replay: path });
            }
        }
        if rep.samples.len() < 3 && i % 211 == 3 {
            rep.samples.push(serde_json::json!({"case": serde_json::to_value(c).unwrap_or(Value::Null), "ok": o.ok}));
        }
        rep.evaluations += o.coq.len() as u64 - 1;
        coq_cases.extend(o.coq);
    }
    rep.distinct_nontrivial = distinct.len() as u64;
    rep.rule = "CreateMinter on base / vending (x6 minter codes) / open-edition (x3) / token-merge factories: every request parameter at bound-1/bound/bound+1 against default parameters and after sudo updates, freeze/unfreeze, non-native fee and price denoms; payments none/short/exact/over/wrong denom/two coins; plus seeded random requests. Non-trivial = distinct request that created a minter.".into();
    out.write_cases("C08", "From LP Require Import Num Pay Sg1 Bank MinterVending Factory C08Corr.", "c08_any", "c08_any_check", &coq_cases, 6, &mut rep);
    out.finish(&rep);
    println!("C08 harness: {} cases, {} monitor violations", rep.evaluations, nviol);
}
