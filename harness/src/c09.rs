//! C09 — collection tokens: minted only by the minter, ids unique, freezes are final.
//! Histories of mint / transfer / send / approve / revoke / approve_all / revoke_all /
//! burn / update-collection-info / start-trading-time / freeze / ownership transfer /
//! token-metadata update, freeze and enable, from arbitrary callers, on every collection
//! variant (sg721-base, sg721-updatable fresh and migrated, sg721-metadata-onchain,
//! sg721-nt), instantiated through the puppet.  After every call CollectionInfo,
//! NumTokens, AllTokens, OwnerOf, NftInfo, Minter/Ownership, AllOperators and the
//! updatable flags are read back; the monitors below evaluate the property text on them.
use crate::chain;
use crate::util::*;
use crate::w_collection::*;
use crate::Args;
use serde::Deserialize;
use std::collections::BTreeSet;
use std::hash::{Hash, Hasher};

const T0: u64 = chain::GENESIS_NS + 1_000_000_000;
const SEC: u64 = 1_000_000_000;
const URIS: [&str; 3] = ["ipfs://meta/1.json", "ipfs://meta/2.json", "https://example.com/m/3"];

fn st(at: u64, sender: &str, op: Op) -> Step {
    Step { at, sender: sender.into(), op, funds: vec![] }
}
fn stf(at: u64, sender: &str, op: Op, funds: Vec<(&str, u128)>) -> Step {
    Step { at, sender: sender.into(), op, funds: funds.into_iter().map(|(d, a)| (d.to_string(), a)).collect() }
}
fn mint(id: u64, owner: &str) -> Op {
    Op::Mint { id, owner: owner.into(), uri: Some(URIS[0].into()) }
}
fn upd(f: impl FnOnce(&mut UpdSpec)) -> Op {
    let mut u = UpdSpec { explicit_content: Some(false), ..Default::default() };
    f(&mut u);
    Op::UpdateInfo(u)
}

/// every mutating message once, from the given sender (used after freezes and on sg721-nt)
fn every_message(t: &mut u64, sender: &str, id: u64) -> Vec<Step> {
    let mut v = vec![];
    let mut push = |op: Op| {
        *t += SEC;
        v.push(st(*t, sender, op));
    };
    push(upd(|u| u.description = Some("changed".into())));
    push(upd(|u| u.image = Some(VALID_URLS[1].into())));
    push(upd(|u| u.external_link = Some(VALID_URLS[3].into())));
    push(upd(|u| u.explicit_content = Some(true)));
    push(upd(|u| u.explicit_content = None));
    push(upd(|u| u.creator = Some("creator2".into())));
    push(upd(|u| u.royalty = Some(Roy { addr: "carol".into(), share: 4 * PCT })));
    push(Op::StartTrading(Some(T0 + 77)));
    push(Op::FreezeInfo);
    push(Op::Mint { id: id + 50, owner: "bob".into(), uri: None });
    push(Op::Approve { spender: "carol".into(), id, exp: None });
    push(Op::ApproveAll { operator: "carol".into(), exp: None });
    push(Op::Transfer { to: "bob".into(), id });
    push(Op::Send { to: PUPPET.into(), id });
    push(Op::Revoke { spender: "carol".into(), id });
    push(Op::RevokeAll { operator: "carol".into() });
    push(Op::UpdateTokenMd { id, uri: Some(URIS[2].into()) });
    push(Op::UpdateTokenMd { id: id + 50, uri: None });
    push(Op::FreezeTokenMd);
    push(Op::EnableUpdatable);
    push(Op::OwnTransfer { new_owner: "minter2".into(), exp: None });
    push(Op::OwnAccept);
    push(Op::Burn { id });
    push(Op::OwnRenounce);
    push(Op::MigrateSelf);
    push(Op::Migrate);
    push(Op::MigrateSelf);
    v
}

fn scripted(v: Variant) -> Vec<Hist> {
    let mut out = vec![];
    let base = default_setup(v);
    // S1: life cycle, duplicate ids, foreign minters, burn and re-mint
    out.push(Hist {
        setup: base.clone(),
        steps: vec![
            st(T0 + 1, PUPPET, mint(1, "alice")),
            st(T0 + 2, PUPPET, mint(1, "bob")),
            st(T0 + 3, "creator", mint(2, "creator")),
            st(T0 + 4, "alice", mint(2, "alice")),
            st(T0 + 5, PUPPET, Op::Mint { id: 0, owner: "bob".into(), uri: None }),
            st(T0 + 6, PUPPET, mint(2, PUPPET)),
            st(T0 + 7, "alice", Op::Transfer { to: "bob".into(), id: 1 }),
            st(T0 + 8, "alice", Op::Transfer { to: "alice".into(), id: 1 }),
            st(T0 + 9, "bob", Op::Approve { spender: "carol".into(), id: 1, exp: None }),
            st(T0 + 10, "carol", Op::Transfer { to: "carol".into(), id: 1 }),
            st(T0 + 11, "bob", Op::Burn { id: 1 }),
            st(T0 + 12, "carol", Op::Burn { id: 1 }),
            st(T0 + 13, "carol", Op::Burn { id: 1 }),
            st(T0 + 14, PUPPET, Op::Mint { id: 1, owner: "bob".into(), uri: Some(URIS[1].into()) }),
            st(T0 + 15, PUPPET, Op::Burn { id: 2 }),
            st(T0 + 16, PUPPET, Op::Burn { id: 0 }),
            st(T0 + 17, "bob", Op::Burn { id: 0 }),
            st(T0 + 18, "bob", Op::Burn { id: 7 }),
        ],
    });
    // S2: ownership hand-over, then mint by old / new owner; expiry at t-1 / t / t+1
    for (exp, accept_at) in [(None, T0 + 20), (Some(Exp::Never), T0 + 20), (Some(Exp::At(T0 + 20)), T0 + 19), (Some(Exp::At(T0 + 20)), T0 + 20), (Some(Exp::At(T0 + 20)), T0 + 21)] {
        out.push(Hist {
            setup: base.clone(),
            steps: vec![
                st(T0 + 1, "minter2", Op::OwnTransfer { new_owner: "minter2".into(), exp: None }),
                st(T0 + 2, PUPPET, Op::OwnTransfer { new_owner: "minter2".into(), exp: exp.clone() }),
                st(T0 + 3, "minter2", mint(1, "alice")),
                st(T0 + 4, PUPPET, mint(1, "alice")),
                st(T0 + 5, "alice", Op::OwnAccept),
                st(accept_at, "minter2", Op::OwnAccept),
                st(accept_at + 1, PUPPET, mint(2, "alice")),
                st(accept_at + 2, "minter2", mint(2, "bob")),
                st(accept_at + 3, "minter2", mint(1, "bob")),
                st(accept_at + 3, "minter2", mint(2, "bob")),
                st(accept_at + 4, "minter2", Op::StartTrading(Some(T0 + 500))),
                st(accept_at + 4, PUPPET, Op::StartTrading(Some(T0 + 600))),
                st(accept_at + 5, PUPPET, Op::OwnRenounce),
                st(accept_at + 6, "minter2", Op::OwnRenounce),
                st(accept_at + 7, "minter2", mint(3, "bob")),
                st(accept_at + 8, PUPPET, mint(3, "bob")),
                st(accept_at + 9, "minter2", Op::OwnTransfer { new_owner: "alice".into(), exp: None }),
                st(accept_at + 10, "minter2", Op::OwnAccept),
            ],
        });
    }
    // a plain account as the minter from the start; pending transfer overwritten
    out.push(Hist {
        setup: Setup { minter: "minter2".into(), ..base.clone() },
        steps: vec![
            st(T0 + 1, PUPPET, mint(1, "alice")),
            st(T0 + 2, "minter2", mint(1, "alice")),
            st(T0 + 3, "minter2", Op::OwnTransfer { new_owner: "alice".into(), exp: None }),
            st(T0 + 4, "minter2", Op::OwnTransfer { new_owner: "bob".into(), exp: None }),
            st(T0 + 5, "alice", Op::OwnAccept),
            st(T0 + 6, "bob", Op::OwnAccept),
            st(T0 + 7, "bob", mint(2, "bob")),
            st(T0 + 8, "minter2", mint(3, "bob")),
        ],
    });
    // S3: freeze, then every mutating message from creator, minter, token owner, stranger
    for freezer in ["alice", PUPPET, "creator"] {
        let mut steps = vec![st(T0 + 1, PUPPET, mint(1, "alice")), st(T0 + 2, freezer, Op::FreezeInfo)];
        let mut t = T0 + 10;
        for who in ["creator", PUPPET, "alice", "carol"] {
            steps.extend(every_message(&mut t, who, 1));
        }
        out.push(Hist { setup: base.clone(), steps });
    }
    // the new creator freezes after a hand-over of the creator role
    out.push(Hist {
        setup: base.clone(),
        steps: vec![
            st(T0 + 1, "creator", upd(|u| u.creator = Some("creator2".into()))),
            st(T0 + 2, "creator", Op::FreezeInfo),
            st(T0 + 3, "creator", upd(|u| u.description = Some("x".into()))),
            st(T0 + 4, "creator2", upd(|u| u.description = Some("y".into()))),
            st(T0 + 5, "creator2", Op::FreezeInfo),
            st(T0 + 6, "creator2", upd(|u| u.description = Some("z".into()))),
            st(T0 + 7, "creator2", upd(|u| u.creator = Some("creator".into()))),
            st(T0 + 8, PUPPET, Op::StartTrading(None)),
            st(T0 + 9, PUPPET, Op::StartTrading(Some(T0 + 99))),
            st(T0 + 10, "creator2", Op::FreezeInfo),
        ],
    });
    // S4: token metadata on updatable collections (every other variant rejects all of it)
    out.push(Hist {
        setup: base.clone(),
        steps: vec![
            st(T0 + 1, PUPPET, mint(1, "alice")),
            st(T0 + 2, PUPPET, Op::Mint { id: 2, owner: "bob".into(), uri: None }),
            st(T0 + 3, "creator", Op::UpdateTokenMd { id: 1, uri: Some(URIS[1].into()) }),
            stf(T0 + 4, "creator", Op::EnableUpdatable, vec![(NATIVE, ENABLE_FEE - 1)]),
            stf(T0 + 5, "alice", Op::EnableUpdatable, vec![(NATIVE, ENABLE_FEE)]),
            stf(T0 + 6, "creator", Op::EnableUpdatable, vec![("uother", ENABLE_FEE)]),
            stf(T0 + 7, "creator", Op::EnableUpdatable, vec![(NATIVE, ENABLE_FEE), ("uother", 1)]),
            st(T0 + 8, "creator", Op::EnableUpdatable),
            stf(T0 + 9, "creator", Op::EnableUpdatable, vec![(NATIVE, ENABLE_FEE + 1)]),
            stf(T0 + 10, "creator", Op::EnableUpdatable, vec![(NATIVE, ENABLE_FEE)]),
            st(T0 + 11, "alice", Op::UpdateTokenMd { id: 1, uri: Some(URIS[1].into()) }),
            st(T0 + 12, PUPPET, Op::UpdateTokenMd { id: 1, uri: Some(URIS[1].into()) }),
            st(T0 + 13, "creator", Op::UpdateTokenMd { id: 3, uri: Some(URIS[1].into()) }),
            stf(T0 + 14, "creator", Op::UpdateTokenMd { id: 1, uri: Some(URIS[1].into()) }, vec![(NATIVE, 1)]),
            st(T0 + 15, "creator", Op::UpdateTokenMd { id: 1, uri: Some(URIS[1].into()) }),
            st(T0 + 16, "creator", Op::UpdateTokenMd { id: 2, uri: Some(URIS[2].into()) }),
            st(T0 + 17, "creator", Op::UpdateTokenMd { id: 1, uri: None }),
            st(T0 + 18, "alice", Op::FreezeTokenMd),
            st(T0 + 19, PUPPET, Op::FreezeTokenMd),
            stf(T0 + 20, "creator", Op::FreezeTokenMd, vec![(NATIVE, 1)]),
            st(T0 + 21, "creator", Op::FreezeTokenMd),
            st(T0 + 22, "creator", Op::UpdateTokenMd { id: 1, uri: Some(URIS[0].into()) }),
            st(T0 + 23, "creator", Op::UpdateTokenMd { id: 2, uri: None }),
            st(T0 + 24, PUPPET, Op::UpdateTokenMd { id: 2, uri: None }),
            st(T0 + 25, "creator", Op::FreezeTokenMd),
            stf(T0 + 26, "creator", Op::EnableUpdatable, vec![(NATIVE, ENABLE_FEE)]),
            st(T0 + 27, "creator", Op::UpdateTokenMd { id: 1, uri: Some(URIS[0].into()) }),
            st(T0 + 28, "bob", Op::Burn { id: 2 }),
            st(T0 + 29, PUPPET, Op::Mint { id: 2, owner: "bob".into(), uri: Some(URIS[2].into()) }),
        ],
    });
    // metadata freeze before enabling (migrated collections), creator hand-over
    out.push(Hist {
        setup: base.clone(),
        steps: vec![
            st(T0 + 1, PUPPET, mint(1, "alice")),
            st(T0 + 2, "creator", upd(|u| u.creator = Some("creator2".into()))),
            st(T0 + 3, "creator", Op::UpdateTokenMd { id: 1, uri: None }),
            st(T0 + 4, "creator2", Op::UpdateTokenMd { id: 1, uri: None }),
            st(T0 + 5, "creator", Op::FreezeTokenMd),
            st(T0 + 6, "creator2", Op::FreezeTokenMd),
            stf(T0 + 7, "creator2", Op::EnableUpdatable, vec![(NATIVE, ENABLE_FEE)]),
            st(T0 + 8, "creator2", Op::UpdateTokenMd { id: 1, uri: Some(URIS[1].into()) }),
        ],
    });
    // S5: approvals, operators, expirations at t-1 / t / t+1, send to contract / account
    for at in [T0 + 29, T0 + 30, T0 + 31] {
        out.push(Hist {
            setup: base.clone(),
            steps: vec![
                st(T0 + 1, PUPPET, mint(1, "alice")),
                st(T0 + 2, PUPPET, mint(2, "alice")),
                st(T0 + 3, PUPPET, mint(3, "alice")),
                st(T0 + 4, "alice", Op::Approve { spender: "bob".into(), id: 1, exp: Some(Exp::At(T0 + 30)) }),
                st(T0 + 5, "alice", Op::Approve { spender: "carol".into(), id: 1, exp: Some(Exp::At(T0 + 5)) }),
                st(T0 + 5, "alice", Op::Approve { spender: "carol".into(), id: 1, exp: Some(Exp::At(T0 + 6)) }),
                st(T0 + 6, "alice", Op::ApproveAll { operator: "carol".into(), exp: Some(Exp::At(T0 + 30)) }),
                st(T0 + 7, "alice", Op::ApproveAll { operator: "bob".into(), exp: Some(Exp::At(T0 + 7)) }),
                st(T0 + 8, "bob", Op::Approve { spender: "bob".into(), id: 2, exp: None }),
                st(T0 + 9, "carol", Op::Approve { spender: "bob".into(), id: 2, exp: None }),
                st(T0 + 10, "carol", Op::Approve { spender: "bob".into(), id: 1, exp: Some(Exp::Never) }),
                st(T0 + 11, "bob", Op::Revoke { spender: "carol".into(), id: 1 }),
                st(T0 + 12, "carol", Op::Revoke { spender: "bob".into(), id: 2 }),
                st(at, "bob", Op::Transfer { to: "bob".into(), id: 1 }),
                st(at, "carol", Op::Transfer { to: "carol".into(), id: 2 }),
                st(at, "carol", Op::Approve { spender: "bob".into(), id: 3, exp: None }),
                st(at + 1, "alice", Op::RevokeAll { operator: "carol".into() }),
                st(at + 1, "alice", Op::RevokeAll { operator: "creator".into() }),
                st(at + 2, "alice", Op::Send { to: "bob".into(), id: 3 }),
                st(at + 2, "alice", Op::Send { to: "contract1".into(), id: 3 }),
                st(at + 3, "alice", Op::Send { to: PUPPET.into(), id: 3 }),
                st(at + 4, "alice", Op::Transfer { to: "alice".into(), id: 3 }),
                st(at + 5, PUPPET, Op::Transfer { to: "alice".into(), id: 3 }),
                st(at + 6, "carol", Op::Burn { id: 3 }),
                st(at + 7, "alice", Op::ApproveAll { operator: "alice".into(), exp: None }),
            ],
        });
    }
    // S6: every message from the token owner / minter / stranger on a fresh collection
    // (on sg721-nt: nothing but mint, burn, update info, freeze exists)
    {
        let mut steps = vec![st(T0 + 1, PUPPET, mint(1, "alice"))];
        let mut t = T0 + 10;
        for who in ["carol", "alice"] {
            steps.extend(every_message(&mut t, who, 1));
        }
        steps.push(st(t + 1, PUPPET, mint(1, "alice")));
        for who in [PUPPET, "creator"] {
            steps.extend(every_message(&mut t, who, 1));
        }
        out.push(Hist { setup: base.clone(), steps });
    }
    // S7: instantiation guards
    let mut bad = vec![];
    bad.push(Setup { by_contract: false, ..base.clone() });
    bad.push(Setup { funds0: 1, ..base.clone() });
    for d in [0usize, 1, 511, 512, 513] {
        let mut s = base.clone();
        s.info.description = "d".repeat(d);
        bad.push(s);
    }
    for l in harvest_literals(&["contracts/collections/sg721-base/src/contract.rs"]) {
        if l > 1 && l < 5000 && l != 512 {
            for d in [l - 1, l, l + 1] {
                let mut s = base.clone();
                s.info.description = "d".repeat(d as usize);
                bad.push(s);
            }
        }
    }
    for d in [256usize, 257] {
        let mut s = base.clone();
        s.info.description = "\u{e9}".repeat(d); // two bytes each: 512 / 514 bytes
        bad.push(s);
    }
    for u in INVALID_URLS.iter().chain(VALID_URLS.iter()) {
        let mut s = base.clone();
        s.info.image = u.to_string();
        bad.push(s);
        let mut s = base.clone();
        s.info.external_link = Some(u.to_string());
        bad.push(s);
    }
    {
        let mut s = base.clone();
        s.info.external_link = None;
        s.info.explicit_content = None;
        s.info.start_trading_time = Some(T0 + 1000);
        s.info.royalty = None;
        bad.push(s);
    }
    for s in bad {
        out.push(Hist { setup: s, steps: vec![st(T0 + 1, PUPPET, mint(1, "alice")), st(T0 + 2, "creator", upd(|u| u.description = Some("k".into())))] });
    }
    // creator / explicit_content / start_trading_time given vs omitted at instantiation: what
    // was given is what is stored, and the given creator is the one who can update and freeze
    for cr in ["creator", "creator2"] {
        for ex in [None, Some(true), Some(false)] {
            for stt in [None, Some(T0 + 1000)] {
                let mut s = base.clone();
                s.info.creator = cr.to_string();
                s.info.explicit_content = ex;
                s.info.start_trading_time = stt;
                let other = if cr == "creator" { "creator2" } else { "creator" };
                out.push(Hist {
                    setup: s,
                    steps: vec![
                        st(T0 + 1, other, upd(|u| u.description = Some("by the other".into()))),
                        st(T0 + 2, other, Op::FreezeInfo),
                        st(T0 + 3, cr, upd(|u| u.description = Some("by the creator".into()))),
                        st(T0 + 4, PUPPET, Op::StartTrading(Some(T0 + 2000))),
                        st(T0 + 5, cr, Op::FreezeInfo),
                        st(T0 + 6, cr, upd(|u| u.explicit_content = Some(true))),
                        st(T0 + 7, other, Op::FreezeTokenMd),
                        st(T0 + 8, cr, Op::FreezeTokenMd),
                    ],
                });
            }
        }
    }
    // S9: migration to the sg721-updatable code by the wasm admin (= creator), placed between
    // freeze / enable / update operations; the cw2 record says which deployment it is
    {
        // (a) whatever the variant: tokens, approvals, freezes, then migrate attempts by a
        // stranger, the minter and the admin, then every message again
        let mut steps = vec![
            st(T0 + 1, PUPPET, mint(1, "alice")),
            st(T0 + 2, PUPPET, Op::Mint { id: 2, owner: "bob".into(), uri: None }),
            st(T0 + 3, "alice", Op::Approve { spender: "carol".into(), id: 1, exp: None }),
            st(T0 + 4, "bob", Op::ApproveAll { operator: "carol".into(), exp: None }),
            st(T0 + 5, PUPPET, Op::OwnTransfer { new_owner: "minter2".into(), exp: None }),
            st(T0 + 6, "creator", Op::UpdateTokenMd { id: 1, uri: Some(URIS[1].into()) }),
            st(T0 + 7, "creator", Op::FreezeTokenMd),
            st(T0 + 8, "creator", Op::FreezeInfo),
            st(T0 + 9, "alice", Op::Migrate),
            st(T0 + 10, PUPPET, Op::Migrate),
            st(T0 + 11, "creator", Op::Migrate),
            st(T0 + 12, "creator", Op::Migrate),
            stf(T0 + 13, "creator", Op::EnableUpdatable, vec![(NATIVE, ENABLE_FEE)]),
            st(T0 + 14, "creator", Op::UpdateTokenMd { id: 1, uri: Some(URIS[2].into()) }),
            st(T0 + 15, "minter2", Op::OwnAccept),
        ];
        let mut t = T0 + 20;
        for who in ["creator", PUPPET] {
            steps.extend(every_message(&mut t, who, 1));
        }
        out.push(Hist { setup: base.clone(), steps });
    }
    if matches!(v, Variant::Base | Variant::Updatable) {
        let names: Vec<&str> = if v == Variant::Base { vec![NAME_BASE, NAME_BASE_LEGACY] } else { vec![NAME_UPD, NAME_UPD_LEGACY] };
        let mut pairs: Vec<(String, String)> = vec![];
        for n in &names {
            for ver in version_grid() {
                pairs.push((n.to_string(), ver));
            }
        }
        // names the contract does not accept (an sg721-base record on updatable code is not a
        // reachable deployment: its migration would legitimately initialise the flags)
        pairs.push(("crates.io:sg721-nt".into(), "3.2.1".into()));
        pairs.push(("sg721-updatables".into(), "3.2.1".into()));
        for (i, (n, ver)) in pairs.into_iter().enumerate() {
            let setup = Setup { cw2: Some((n, ver)), ..base.clone() };
            // (b) freeze -> migrate -> enable -> update: a frozen URI must never change
            out.push(Hist {
                setup: setup.clone(),
                steps: vec![
                    st(T0 + 1, PUPPET, mint(1, "alice")),
                    st(T0 + 2, PUPPET, Op::Mint { id: 2, owner: "bob".into(), uri: None }),
                    st(T0 + 3, "creator", Op::UpdateTokenMd { id: 1, uri: Some(URIS[1].into()) }),
                    st(T0 + 4, "creator", Op::FreezeTokenMd),
                    st(T0 + 5, "bob", Op::Migrate),
                    st(T0 + 6, "creator", Op::Migrate),
                    stf(T0 + 7, "creator", Op::EnableUpdatable, vec![(NATIVE, ENABLE_FEE)]),
                    st(T0 + 8, "creator", Op::UpdateTokenMd { id: 1, uri: Some(URIS[2].into()) }),
                    st(T0 + 9, "creator", Op::UpdateTokenMd { id: 2, uri: Some(URIS[2].into()) }),
                    st(T0 + 10, "creator", Op::FreezeTokenMd),
                    st(T0 + 11, "creator", Op::Migrate),
                    st(T0 + 12, "creator", Op::UpdateTokenMd { id: 1, uri: None }),
                    st(T0 + 13, "bob", Op::Burn { id: 2 }),
                    st(T0 + 14, PUPPET, mint(3, "carol")),
                ],
            });
            // (c) no freeze: enabled stays enabled unless the record is an sg721-base one;
            // collection-info freeze and pending ownership survive the code swap
            if i % 2 == 0 {
                out.push(Hist {
                    setup,
                    steps: vec![
                        st(T0 + 1, PUPPET, mint(1, "alice")),
                        st(T0 + 2, "creator", Op::FreezeInfo),
                        st(T0 + 3, PUPPET, Op::OwnTransfer { new_owner: "minter2".into(), exp: Some(Exp::At(T0 + 50)) }),
                        st(T0 + 4, "creator", Op::Migrate),
                        st(T0 + 5, "creator", Op::UpdateTokenMd { id: 1, uri: Some(URIS[2].into()) }),
                        st(T0 + 6, "creator", upd(|u| u.description = Some("after migrate".into()))),
                        stf(T0 + 7, "creator", Op::EnableUpdatable, vec![(NATIVE, ENABLE_FEE)]),
                        st(T0 + 8, "creator", Op::UpdateTokenMd { id: 1, uri: None }),
                        st(T0 + 9, "minter2", Op::OwnAccept),
                        st(T0 + 10, PUPPET, mint(2, "alice")),
                        st(T0 + 11, "alice", Op::Transfer { to: "bob".into(), id: 1 }),
                    ],
                });
            }
        }
    }
    // S10: each variant's OWN migrate entry point (same code id): once, twice in a row, between
    // freezes / metadata updates / mints, from the record as it is and from rewritten records
    {
        let mut cw2s: Vec<Option<(String, String)>> = vec![None];
        if v != Variant::UpdatableMigrated {
            for ver in version_grid_self() {
                cw2s.push(Some((own_name(v).to_string(), ver)));
            }
        }
        for cw2 in cw2s {
            out.push(Hist {
                setup: Setup { cw2, ..base.clone() },
                steps: vec![
                    st(T0 + 1, PUPPET, mint(1, "alice")),
                    st(T0 + 2, PUPPET, Op::Mint { id: 2, owner: "bob".into(), uri: None }),
                    st(T0 + 3, "alice", Op::Approve { spender: "carol".into(), id: 1, exp: None }),
                    st(T0 + 4, "creator", Op::UpdateTokenMd { id: 1, uri: Some(URIS[1].into()) }),
                    st(T0 + 5, "creator", Op::FreezeTokenMd),
                    st(T0 + 6, "creator", Op::FreezeInfo),
                    st(T0 + 7, "alice", Op::MigrateSelf),
                    st(T0 + 8, "creator", Op::MigrateSelf),
                    st(T0 + 9, "creator", Op::MigrateSelf),
                    stf(T0 + 10, "creator", Op::EnableUpdatable, vec![(NATIVE, ENABLE_FEE)]),
                    st(T0 + 11, "creator", Op::UpdateTokenMd { id: 1, uri: Some(URIS[2].into()) }),
                    st(T0 + 12, "creator", upd(|u| u.description = Some("after migrate".into()))),
                    st(T0 + 13, "creator", Op::MigrateSelf),
                    st(T0 + 14, PUPPET, mint(3, "carol")),
                    st(T0 + 15, "bob", Op::Burn { id: 2 }),
                    st(T0 + 16, "carol", Op::Transfer { to: "bob".into(), id: 1 }),
                    st(T0 + 17, "creator", Op::MigrateSelf),
                ],
            });
        }
    }
    // S8: update_collection_info field semantics and guards
    {
        let mut steps = vec![];
        let mut t = T0;
        let mut push = |who: &str, op: Op| {
            t += SEC;
            steps.push(st(t, who, op));
        };
        for d in [512usize, 513] {
            push("creator", upd(|u| u.description = Some("e".repeat(d))));
            push("creator", upd(|u| u.description = Some("\u{e9}".repeat(d / 2 + d % 2))));
        }
        for u_ in INVALID_URLS.iter().chain(VALID_URLS.iter()) {
            push("creator", upd(|u| u.image = Some(u_.to_string())));
            push("creator", upd(|u| u.external_link = Some(u_.to_string())));
        }
        push("creator", upd(|u| u.explicit_content = Some(true)));
        push("creator", Op::UpdateInfo(UpdSpec::default()));
        push("alice", upd(|u| u.description = Some("by alice".into())));
        push(PUPPET, upd(|u| u.description = Some("by minter".into())));
        push("creator", upd(|u| u.creator = Some("creator2".into())));
        push("creator", upd(|u| u.description = Some("old creator".into())));
        push("creator2", upd(|u| {
            u.description = Some("new creator".into());
            u.image = Some(VALID_URLS[3].into());
            u.external_link = Some(VALID_URLS[0].into());
            u.explicit_content = Some(true);
        }));
        push("creator2", Op::StartTrading(Some(T0 + 5)));
        push("alice", Op::StartTrading(Some(T0 + 5)));
        push(PUPPET, Op::StartTrading(Some(T0 + 5)));
        push(PUPPET, Op::StartTrading(None));
        out.push(Hist { setup: base.clone(), steps });
    }
    out
}

fn random_hist(v: Variant, rng: &mut Rng, len: usize) -> Runner {
    let mut setup = default_setup(v);
    if rng.chance(1, 3) {
        setup.minter = "minter2".into();
    }
    if rng.chance(1, 4) {
        setup.info.royalty = None;
    }
    if rng.chance(1, 3) && matches!(v, Variant::Base | Variant::Updatable) {
        let n = if v == Variant::Base { *rng.pick(&[NAME_BASE, NAME_BASE_LEGACY]) } else { *rng.pick(&[NAME_UPD, NAME_UPD_LEGACY]) };
        setup.cw2 = Some((n.to_string(), rng.pick(&version_grid()).clone()));
    }
    if setup.cw2.is_none() && rng.chance(1, 4) && v != Variant::UpdatableMigrated {
        setup.cw2 = Some((own_name(v).to_string(), rng.pick(&version_grid_self()).clone()));
    }
    let mut r = Runner::new(&setup);
    if !r.alive() {
        return r;
    }
    let mut t = T0 + 1;
    let mut instants: Vec<u64> = vec![];
    let users = ["alice", "bob", "carol", "creator", "creator2", "minter2", PUPPET];
    for _ in 0..len {
        // clock: small steps, or onto / around an expiry that exists
        t = if !instants.is_empty() && rng.chance(1, 4) {
            let x = *rng.pick(&instants);
            let c = match rng.below(3) {
                0 => x.saturating_sub(1),
                1 => x,
                _ => x + 1,
            };
            c.max(t)
        } else {
            t + rng.range(0, 3) * SEC
        };
        let o = r.obs().clone();
        let creator = o.info.creator.clone();
        let minter = o.minter.clone();
        let valid = rng.chance(3, 4);
        let any = |rng: &mut Rng| rng.pick(&users).to_string();
        let existing: Vec<u64> = o.tokens.iter().map(|x| x.id[1..].parse::<u64>().unwrap()).collect();
        let pick_tok = |rng: &mut Rng| -> u64 {
            if !existing.is_empty() && rng.chance(5, 6) {
                *rng.pick(&existing)
            } else {
                rng.below(6)
            }
        };
        let owner_of = |id: u64| o.token(&token_name(id)).map(|x| x.owner.clone());
        let exp = |rng: &mut Rng, t: u64, instants: &mut Vec<u64>| -> Option<Exp> {
            match rng.below(6) {
                0 => None,
                1 => Some(Exp::Never),
                2 => Some(Exp::At(t)),
                3 => Some(Exp::At(t.saturating_sub(5))),
                _ => {
                    let x = t + rng.range(1, 6) * SEC;
                    instants.push(x);
                    Some(Exp::At(x))
                }
            }
        };
        let mut funds: Vec<(String, u128)> = vec![];
        let (sender, op) = match rng.below(100) {
            0..=17 => {
                let id = if valid { (0..8).find(|i| !existing.contains(i)).unwrap_or(9) } else { pick_tok(rng) };
                let s = if valid { minter.clone().unwrap_or_else(|| any(rng)) } else { any(rng) };
                let uri = if rng.chance(1, 3) { None } else { Some(rng.pick(&URIS).to_string()) };
                (s, Op::Mint { id, owner: any(rng), uri })
            }
            18..=29 => {
                let id = pick_tok(rng);
                let s = if valid { owner_of(id).unwrap_or_else(|| any(rng)) } else { any(rng) };
                (s, Op::Transfer { to: any(rng), id })
            }
            30..=34 => {
                let id = pick_tok(rng);
                let s = if valid { owner_of(id).unwrap_or_else(|| any(rng)) } else { any(rng) };
                let to = if rng.chance(2, 3) { PUPPET.to_string() } else { rng.pick(&["bob", "contract1"]).to_string() };
                (s, Op::Send { to, id })
            }
            35..=43 => {
                let id = pick_tok(rng);
                let s = if valid { owner_of(id).unwrap_or_else(|| any(rng)) } else { any(rng) };
                (s, Op::Approve { spender: any(rng), id, exp: exp(rng, t, &mut instants) })
            }
            44..=47 => {
                let id = pick_tok(rng);
                let s = if valid { owner_of(id).unwrap_or_else(|| any(rng)) } else { any(rng) };
                (s, Op::Revoke { spender: any(rng), id })
            }
            48..=54 => (any(rng), Op::ApproveAll { operator: any(rng), exp: exp(rng, t, &mut instants) }),
            55..=57 => (any(rng), Op::RevokeAll { operator: any(rng) }),
            58..=65 => {
                let id = pick_tok(rng);
                let s = if valid { owner_of(id).unwrap_or_else(|| any(rng)) } else { any(rng) };
                (s, Op::Burn { id })
            }
            66..=74 => {
                let s = if valid { creator.clone() } else { any(rng) };
                let mut u = UpdSpec { explicit_content: o.info.explicit_content, ..Default::default() };
                match rng.below(7) {
                    0 => u.description = Some(if rng.chance(1, 5) { "q".repeat(513) } else { format!("desc {}", rng.below(3)) }),
                    1 => u.image = Some(if rng.chance(1, 4) { rng.pick(&INVALID_URLS).to_string() } else { rng.pick(&VALID_URLS).to_string() }),
                    2 => u.external_link = Some(if rng.chance(1, 4) { rng.pick(&INVALID_URLS).to_string() } else { rng.pick(&VALID_URLS).to_string() }),
                    3 => u.explicit_content = *rng.pick(&[None, Some(true), Some(false)]),
                    4 => u.creator = Some(rng.pick(&["creator", "creator2", "alice"]).to_string()),
                    5 => u.royalty = Some(Roy { addr: "royalty".into(), share: rng.below(8) as u128 * PCT }),
                    _ => {}
                }
                (s, Op::UpdateInfo(u))
            }
            75..=77 => {
                let s = if valid { minter.clone().unwrap_or_else(|| any(rng)) } else { any(rng) };
                (s, Op::StartTrading(if rng.chance(1, 4) { None } else { Some(t + rng.below(1000)) }))
            }
            78..=80 => ((if rng.chance(1, 2) { creator.clone() } else { any(rng) }), Op::FreezeInfo),
            81..=84 => {
                let s = if valid { minter.clone().unwrap_or_else(|| any(rng)) } else { any(rng) };
                (s, Op::OwnTransfer { new_owner: any(rng), exp: exp(rng, t, &mut instants) })
            }
            85..=87 => ((if valid { o.pending.clone().unwrap_or_else(|| any(rng)) } else { any(rng) }), Op::OwnAccept),
            88 => ((if rng.chance(1, 3) { minter.clone().unwrap_or_else(|| any(rng)) } else { any(rng) }), Op::OwnRenounce),
            89..=94 => {
                let s = if valid { creator.clone() } else { any(rng) };
                if rng.chance(1, 10) {
                    funds.push((NATIVE.to_string(), 1));
                }
                let uri = if rng.chance(1, 4) { None } else { Some(rng.pick(&URIS).to_string()) };
                (s, Op::UpdateTokenMd { id: pick_tok(rng), uri })
            }
            95 => ((if rng.chance(1, 2) { creator.clone() } else { any(rng) }), Op::FreezeTokenMd),
            96 => ((if rng.chance(2, 3) { "creator".to_string() } else { any(rng) }), if rng.chance(1, 2) { Op::Migrate } else { Op::MigrateSelf }),
            _ => {
                let s = if valid { creator.clone() } else { any(rng) };
                let amt = *rng.pick(&[ENABLE_FEE - 1, ENABLE_FEE, ENABLE_FEE, ENABLE_FEE + 1]);
                funds.push((NATIVE.to_string(), amt));
                (s, Op::EnableUpdatable)
            }
        };
        // now and then attach stray funds to a message that does not look at them
        if funds.is_empty() && rng.chance(1, 40) && sender != PUPPET {
            funds.push(("uother".to_string(), 3));
        }
        r.step(&Step { at: t, sender, op, funds });
    }
    r
}

/// The property text evaluated on one recorded history.
pub fn monitor(r: &Runner) -> Option<(String, String)> {
    let v = r.setup.variant;
    let init = r.init_obs.as_ref()?;
    if init.num_tokens != 0 || !init.tokens.is_empty() {
        return Some(("count-mismatch".into(), "a fresh collection reports tokens".into()));
    }
    // LEDGER RULE: who the creator is, as the instantiate message and the accepted
    // update_collection_info messages (creator: Some) say - never a value read back
    let mut creator: String = r.setup.info.creator.clone();
    // the collection info as the instantiate message gave it must be what the queries report
    {
        let g = &r.setup.info;
        let given = (g.creator.clone(), g.description.clone(), g.image.clone(), g.external_link.clone(), g.explicit_content, g.royalty.clone());
        if init.info.creator_fields() != given || init.info.start_trading_time != g.start_trading_time {
            return Some(("instantiate-info-differs".into(), format!("instantiated with {:?} / start_trading_time {:?}, CollectionInfo reports {:?} / {:?}", given, g.start_trading_time, init.info.creator_fields(), init.info.start_trading_time)));
        }
    }
    let mut info_frozen: Option<(usize, InfoObs)> = None;
    let mut md_frozen: Option<usize> = None;
    // the code it runs: a successful migration makes any collection an updatable one
    let mut updatable = v.updatable();
    for (i, rec) in r.recs.iter().enumerate() {
        let (b, a) = (&rec.before, &rec.after);
        let sender = &rec.step.sender;
        // the token count always equals the number of existing tokens; ids are unique
        if a.num_tokens as usize != a.tokens.len() {
            return Some(("count-mismatch".into(), format!("step {} {:?}: NumTokens {} but AllTokens lists {}", i, rec.step.op, a.num_tokens, a.tokens.len())));
        }
        let ids: BTreeSet<&String> = a.tokens.iter().map(|t| &t.id).collect();
        if ids.len() != a.tokens.len() {
            return Some(("duplicate-id-listed".into(), format!("step {}: AllTokens lists an id twice", i)));
        }
        if a.minter_mismatch {
            return Some(("minter-ownership-disagree".into(), format!("step {}: Minter and Ownership.owner differ", i)));
        }
        // a token can be created only by the minter, never with an existing id
        if rec.ok {
            if let Op::Mint { id, .. } = &rec.step.op {
                if b.token(&token_name(*id)).is_some() {
                    return Some(("duplicate-id-minted".into(), format!("step {}: mint of existing id {} by {} accepted", i, token_name(*id), sender)));
                }
                if b.minter.as_deref() != Some(sender.as_str()) {
                    return Some(("mint-by-non-minter".into(), format!("step {}: mint by {} accepted, minter is {:?}", i, sender, b.minter)));
                }
            }
        }
        for t in &a.tokens {
            if b.token(&t.id).is_none() {
                let by_mint = rec.ok && matches!(&rec.step.op, Op::Mint { id, .. } if token_name(*id) == t.id) && b.minter.as_deref() == Some(sender.as_str());
                if !by_mint {
                    return Some(("token-created-without-minter".into(), format!("step {}: token {} appeared after {:?} from {}", i, t.id, rec.step.op, sender)));
                }
            }
        }
        // the minter changes only by the pending owner's accept or the minter's renounce
        if a.minter != b.minter {
            let legit = rec.ok
                && match rec.step.op {
                    Op::OwnAccept => b.pending.as_deref() == Some(sender.as_str()) && a.minter.as_deref() == Some(sender.as_str()),
                    Op::OwnRenounce => b.minter.as_deref() == Some(sender.as_str()) && a.minter.is_none(),
                    _ => false,
                };
            if !legit {
                return Some(("minter-changed-without-handover".into(), format!("step {}: minter {:?} -> {:?} after {:?} from {}", i, b.minter, a.minter, rec.step.op, sender)));
            }
        }
        // tokens leave only through a burn of that id (a migration keeps ids and count)
        for t in &b.tokens {
            if a.token(&t.id).is_none() {
                let by_burn = rec.ok && matches!(&rec.step.op, Op::Burn { id } if token_name(*id) == t.id);
                if !by_burn {
                    return Some(("token-removed-without-burn".into(), format!("step {}: token {} vanished after {:?} from {}", i, t.id, rec.step.op, sender)));
                }
            }
        }
        // creator-editable fields: only the creator's update changes them; never after a freeze
        if a.info.creator_fields() != b.info.creator_fields() {
            let by_creator = rec.ok && matches!(rec.step.op, Op::UpdateInfo(_)) && *sender == creator;
            if !by_creator {
                return Some(("creator-field-changed-by-other".into(), format!("step {}: {:?} from {} changed collection info", i, rec.step.op, sender)));
            }
        }
        if let Some((at, f)) = &info_frozen {
            if a.info.creator_fields() != f.creator_fields() {
                return Some(("frozen-info-changed".into(), format!("step {}: {:?} from {} changed collection info frozen at step {}", i, rec.step.op, sender, at)));
            }
        }
        if rec.ok && matches!(rec.step.op, Op::FreezeInfo) {
            if *sender != creator {
                return Some(("freeze-by-non-creator".into(), format!("step {}: freeze by {} accepted, creator is {}", i, sender, creator)));
            }
            if info_frozen.is_none() {
                info_frozen = Some((i, a.info.clone()));
            }
        }
        // token metadata
        if rec.ok {
            if let Op::UpdateTokenMd { id, .. } = &rec.step.op {
                if !updatable || *sender != creator || b.token(&token_name(*id)).is_none() {
                    return Some(("metadata-update-unauthorized".into(), format!("step {}: update_token_metadata({}) from {} accepted (creator {}, token exists: {})", i, token_name(*id), sender, creator, b.token(&token_name(*id)).is_some())));
                }
            }
        }
        for t in &a.tokens {
            if let Some(bt) = b.token(&t.id) {
                if bt.uri != t.uri {
                    if let Some(at) = md_frozen {
                        return Some(("frozen-metadata-changed".into(), format!("step {}: token {} uri {:?} -> {:?} after the metadata freeze of step {}", i, t.id, bt.uri, t.uri, at)));
                    }
                    let legit = rec.ok && updatable && *sender == creator && matches!(&rec.step.op, Op::UpdateTokenMd { id, .. } if token_name(*id) == t.id);
                    if !legit {
                        return Some(("uri-changed-unauthorized".into(), format!("step {}: token {} uri changed by {:?} from {}", i, t.id, rec.step.op, sender)));
                    }
                }
                // the non-transferable collection: owner constant between mint and burn
                if v == Variant::Nt && bt.owner != t.owner {
                    return Some(("nt-owner-changed".into(), format!("step {}: token {} owner {} -> {} by {:?}", i, t.id, bt.owner, t.owner, rec.step.op)));
                }
            }
        }
        if rec.ok && matches!(rec.step.op, Op::FreezeTokenMd) && md_frozen.is_none() {
            md_frozen = Some(i);
        }
        if rec.ok && matches!(rec.step.op, Op::Migrate) {
            updatable = true;
        }
        if let (true, Op::UpdateInfo(u)) = (rec.ok, &rec.step.op) {
            if let Some(c) = &u.creator {
                creator = c.clone();
            }
        }
    }
    None
}

#[derive(Deserialize)]
struct ReplayFile {
    history: Hist,
}

fn fingerprint(v: Variant, rec: &StepRec) -> u64 {
    let mut h = std::collections::hash_map::DefaultHasher::new();
    v.hash(&mut h);
    rec.step.op.hash(&mut h);
    rec.step.sender.hash(&mut h);
    rec.step.funds.hash(&mut h);
    rec.ok.hash(&mut h);
    rec.before.hash(&mut h);
    h.finish()
}

pub fn run(a: &Args) {
    let out = OutDir::new(&a.out);
    let mut rep = Report { property: "C09".into(), tier: a.tier.clone(), seed: a.seed, ..Default::default() };
    let mut rng = Rng::new(a.seed);
    let mut coq_cases: Vec<String> = vec![];
    let mut distinct = BTreeSet::new();
    let mut nviol = 0usize;
    let mut handle = |r: Runner, rep: &mut Report, coq_cases: &mut Vec<String>, nviol: &mut usize, distinct: &mut BTreeSet<u64>| {
        let v = r.setup.variant;
        rep.evaluations += 1 + r.recs.len() as u64;
        rep.bump(&format!("{}:instantiate:{}", v.name(), if r.alive() { "ok" } else { "err" }));
        for rec in &r.recs {
            rep.bump(&format!("{}:{}:{}", v.name(), rec.step.op.kind(), if rec.ok { "ok" } else { "err" }));
            if !crate::c10::trivial_rejection(rec) {
                distinct.insert(fingerprint(v, rec));
            }
        }
        if let Some((k, what)) = monitor(&r) {
            *nviol += 1;
            if *nviol <= 20 {
                let key = format!("C09:{}:{}", v.name(), k);
                let kk = k.clone();
                let small = shrink(&r.hist(), &|x: &Runner| matches!(monitor(x), Some((k2, _)) if k2 == kk));
                let what2 = monitor(&run_hist(&small)).map(|x| x.1).unwrap_or(what);
                let path = out.write_replay(&format!("C09-{}.json", *nviol), &replay_body("C09", &small, &what2, &key));
                rep.violations.push(Violation { key, what: format!("{} ({} steps after shrinking): {}", v.name(), small.steps.len(), what2), replay: path });
            }
        }
        if rep.samples.len() < 3 && r.recs.len() > 3 {
            let rec = &r.recs[2];
            rep.samples.push(serde_json::json!({"variant": v.name(), "step": format!("{:?}", rec.step), "ok": rec.ok, "num_tokens_after": rec.after.num_tokens}));
        }
        coq_cases.push(format!("CHist {}", r.coq_history()));
    };
    if let Some(p) = &a.replay {
        let txt = std::fs::read_to_string(p).expect("replay file");
        let rf: ReplayFile = serde_json::from_str(&txt).expect("replay json");
        handle(run_hist(&rf.history), &mut rep, &mut coq_cases, &mut nviol, &mut distinct);
    } else {
        for v in Variant::ALL {
            for h in scripted(v) {
                handle(run_hist(&h), &mut rep, &mut coq_cases, &mut nviol, &mut distinct);
            }
        }
        let per = if a.thorough() { 400 } else { 24 };
        for v in Variant::ALL {
            for _ in 0..per {
                let len = rng.range(20, 45) as usize;
                let r = random_hist(v, &mut rng, len);
                handle(r, &mut rep, &mut coq_cases, &mut nviol, &mut distinct);
            }
        }
    }
    rep.distinct_nontrivial = distinct.len() as u64;
    rep.rule = "evaluations = instantiations + executed calls, each followed by the full set of queries. Per variant (sg721-base, sg721-updatable fresh and migrated-from-base, sg721-metadata-onchain, sg721-nt): scripted histories for duplicate ids / foreign minters / burn and re-mint, two-step ownership hand-over with expiry at t-1,t,t+1 and renounce, every mutating message from creator/minter/token owner/stranger after a collection-info freeze and on a fresh collection, token-metadata update/freeze/enable with fee-1,fee,fee+1 and wrong coins, approvals and operators with expirations at t-1,t,t+1, send to contract/account, instantiation guards (non-contract sender, funds, description 512/513 bytes incl. multi-byte, URL pool), update_collection_info field semantics, admin migrations to the sg721-updatable code (by stranger/minter/admin) between freeze / enable / update operations over a cw2 grid (current and legacy names x versions 0.15.9, 0.16.0, 2.9.9, 3.0.0, 3.0.9, 3.1.0, 3.1.1, 3.2.1, current-1, current, current+1, next major); each variant's own migrate entry point (same code id) once / twice in a row between freezes, metadata updates, mints and burns over the own-name x version grid; then random histories of 20-45 calls, ~75% from the role the call needs. Non-trivial = call (distinct by variant, message, sender, funds, outcome and prior observation) that was not rejected merely because the variant's ExecuteMsg lacks the message.".into();
    out.write_cases("C09", "From LP Require Import Collection C09Corr.", "c09_case", "c09_check", &coq_cases, 6, &mut rep);
    out.finish(&rep);
    println!("C09 harness: {} evaluations in {} histories, {} monitor violations", rep.evaluations, coq_cases.len(), nviol);
}
