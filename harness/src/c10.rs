//! C10 — royalty shares stay bounded and can only creep up slowly.
//! (a) CollectionInfoResponse::royalty_payout called directly on swept inputs;
//! (b) royalty-update histories on the real collections (all variants) through the
//!     collection world, with clocks around the 24 h boundary and shares at the
//!     2 % / 10 % / 100 % bounds +- 1 atomic unit.
//! Monitors evaluate the property text on what the implementation answered.
use crate::chain;
use crate::util::*;
use crate::w_collection::*;
use crate::Args;
use cosmwasm_std::{Addr, BankMsg, CosmosMsg, Decimal, Response, Uint128, Uint256};
use serde::{Deserialize, Serialize};
use std::collections::BTreeSet;
use std::hash::{Hash, Hasher};

// ------------------------------------------------------------------ payout sweep
#[derive(Clone, Debug, Serialize, Deserialize, PartialEq, Eq, PartialOrd, Ord)]
pub struct Payout {
    /// None: the collection has no royalties
    pub share: Option<u128>,
    pub payment: u128,
    pub fee: u128,
    pub finders: Option<u128>,
}
const ROYALTY_ADDR: &str = "royalty";

struct PayoutOut {
    out: Result<(u128, Vec<BMsg>), String>,
    coq: String,
}

fn run_payout(c: &Payout) -> PayoutOut {
    let mut addrs = addr_ids();
    let mut denoms = denom_ids();
    let rid = addrs.id(ROYALTY_ADDR);
    let resp = sg721_base::msg::CollectionInfoResponse {
        creator: "creator".into(),
        description: "d".into(),
        image: "https://example.com/image.png".into(),
        external_link: None,
        explicit_content: None,
        start_trading_time: None,
        royalty_info: c.share.map(|s| sg721::RoyaltyInfoResponse {
            payment_address: ROYALTY_ADDR.into(),
            share: Decimal::new(Uint128::new(s)),
        }),
    };
    let r = catch(|| {
        let mut res = Response::new();
        resp.royalty_payout(
            Addr::unchecked("collection"),
            Uint128::new(c.payment),
            Uint128::new(c.fee),
            c.finders.map(Uint128::new),
            &mut res,
        )
        .map(|amt| (amt.u128(), res))
    });
    let out = match r {
        Ok(Ok((amt, res))) => Ok((amt, classify_msgs(&res.messages, &mut addrs, &mut denoms))),
        Ok(Err(e)) => Err(e.to_string()),
        Err(p) => Err(p),
    };
    let roy = match c.share {
        Some(s) => format!("(Some (mkRoy {} {}))", rid, s),
        None => "None".into(),
    };
    let fnd = match c.finders {
        Some(f) => format!("(Some {})", f),
        None => "None".into(),
    };
    let o = match &out {
        Ok((amt, ms)) => format!("(Ok ({}, {}))", amt, coq_list(&ms.iter().map(|m| m.coq()).collect::<Vec<_>>())),
        Err(_) => "Err".into(),
    };
    PayoutOut { out, coq: format!("RPayout {} {} {} {} {}", roy, c.payment, c.fee, fnd, o) }
}

/// property text: pays floor(payment x share) to the royalty address, nothing for a zero
/// share or absent royalties, refuses when fees plus royalty exceed the payment
fn payout_monitor(c: &Payout, out: &Result<(u128, Vec<BMsg>), String>) -> Option<(String, String)> {
    let mut addrs = addr_ids();
    let rid = addrs.id(ROYALTY_ADDR);
    match c.share {
        None | Some(0) => match out {
            Ok((0, ms)) if ms.is_empty() => None,
            other => Some(("payout-not-zero".into(), format!("no royalties / zero share must pay nothing, got {:?}", other))),
        },
        Some(s) => {
            let royalty = Uint256::from(c.payment) * Uint256::from(s) / Uint256::from(ONE);
            let due = Uint256::from(c.fee) + Uint256::from(c.finders.unwrap_or(0)) + royalty;
            if due > Uint256::from(c.payment) {
                return match out {
                    Ok(x) => Some(("payout-not-refused".into(), format!("fees plus royalty {} exceed the payment {} but got {:?}", due, c.payment, x))),
                    Err(_) => None,
                };
            }
            // due <= payment <= u128::MAX, so the royalty fits
            let r: u128 = Uint128::try_from(royalty).unwrap().u128();
            let want = vec![BMsg::Send { to: rid, denom: 0, amt: r }];
            match out {
                Ok((amt, ms)) if *amt == r && *ms == want => None,
                other => Some(("payout-wrong".into(), format!("expected {} ustars to the royalty address, got {:?}", r, other))),
            }
        }
    }
}

fn payout_cases(a: &Args, rng: &mut Rng) -> Vec<Payout> {
    let mut shares: Vec<Option<u128>> = vec![None];
    for b in [0u128, 1, 2, PCT, 2 * PCT, 5 * PCT, 10 * PCT, 50 * PCT, 99 * PCT, ONE, ONE / 3, 2 * ONE, u128::MAX] {
        for d in [b.saturating_sub(1), b, b.saturating_add(1)] {
            shares.push(Some(d));
        }
    }
    let mut pays: Vec<u128> = vec![];
    for b in [0u128, 1, 2, 3, 10, 99, 100, 101, 1000, 1_000_000, 10_000_000_000, ONE, u128::MAX / 2, u128::MAX] {
        for d in [b.saturating_sub(1), b, b.saturating_add(1)] {
            pays.push(d);
        }
    }
    for l in harvest_literals(&["contracts/collections/sg721-base/src/msg.rs"]) {
        pays.push(l);
        pays.push(l.saturating_add(1));
    }
    pays.sort();
    pays.dedup();
    let mut v = vec![];
    // corpus: the values of the repo's own test (payment 1000, 10 % -> 100)
    v.push(Payout { share: Some(10 * PCT), payment: 1000, fee: 0, finders: None });
    v.push(Payout { share: Some(10 * PCT), payment: 1000, fee: 900, finders: None });
    v.push(Payout { share: Some(10 * PCT), payment: 1000, fee: 901, finders: None });
    v.push(Payout { share: Some(10 * PCT), payment: 1000, fee: 500, finders: Some(401) });
    for s in &shares {
        for &p in &pays {
            // royalty this share implies (when it fits), to put the fee on the boundary
            let roy = s.map(|x| Uint256::from(p) * Uint256::from(x) / Uint256::from(ONE)).unwrap_or_default();
            let slack = Uint256::from(p).checked_sub(roy).ok().and_then(|x| Uint128::try_from(x).ok()).map(|x| x.u128());
            let mut fees = vec![0u128, 1];
            if let Some(sl) = slack {
                fees.extend([sl.saturating_sub(1), sl, sl.saturating_add(1)]);
            }
            fees.push(p);
            fees.sort();
            fees.dedup();
            for f in fees {
                let k = rng.below(4);
                let finders = match k {
                    0 => None,
                    1 => Some(0),
                    2 => Some(1),
                    _ => Some(rng.u128_any_size() % (p / 2 + 1)),
                };
                v.push(Payout { share: *s, payment: p, fee: f, finders });
                if finders == Some(1) && f > 0 {
                    // move one unit from the fee to the finder: same total
                    v.push(Payout { share: *s, payment: p, fee: f - 1, finders });
                }
            }
        }
    }
    let nrand = if a.thorough() { 40_000 } else { 1_500 };
    for _ in 0..nrand {
        let share = match rng.below(10) {
            0 => None,
            1 => Some(0),
            2 => Some(rng.u128_any_size()),
            _ => Some(rng.next_u128() % (ONE + 1)),
        };
        let payment = rng.u128_any_size();
        let fee = match rng.below(3) {
            0 => rng.u128_any_size() % (payment / 2 + 1),
            1 => rng.u128_any_size() % (payment.saturating_add(1).max(1)),
            _ => rng.u128_any_size(),
        };
        let finders = if rng.chance(1, 2) { Some(rng.u128_any_size() % (payment / 4 + 1)) } else { None };
        v.push(Payout { share, payment, fee, finders });
    }
    if !a.thorough() && v.len() > 9000 {
        // keep the corpus and a deterministic thinning of the grid
        let head: Vec<Payout> = v[..4].to_vec();
        let mut rest: Vec<Payout> = v[4..].to_vec();
        let keep = 6000usize;
        let stride = rest.len() as f64 / keep as f64;
        let mut out = head;
        let mut x = 0f64;
        while (x as usize) < rest.len() && out.len() < keep + 4 {
            out.push(rest[x as usize].clone());
            x += stride;
        }
        rest.clear();
        return out;
    }
    v
}

// ------------------------------------------------------------------ royalty histories
fn upd_roy(share: u128) -> Op {
    Op::UpdateInfo(UpdSpec { royalty: Some(Roy { addr: "royalty".into(), share }), ..Default::default() })
}
fn st(at: u64, sender: &str, op: Op) -> Step {
    Step { at, sender: sender.into(), op, funds: vec![] }
}
fn setup_with(v: Variant, royalty: Option<u128>) -> Setup {
    let mut s = default_setup(v);
    s.info.royalty = royalty.map(|share| Roy { addr: "royalty".into(), share });
    s
}

/// Curated + boundary histories (complete step lists).
fn scripted(v: Variant) -> Vec<Hist> {
    let t0 = chain::GENESIS_NS + 1_000_000_000;
    let mut out = vec![];
    // instantiate with shares around 100 %, zero and none
    for sh in [Some(0u128), Some(1), Some(ONE - 1), Some(ONE), Some(ONE + 1), Some(2 * ONE), None] {
        out.push(Hist { setup: setup_with(v, sh), steps: vec![st(t0 + DAY_NS, "creator", upd_roy(PCT))] });
    }
    // first update of a collection's life: initial entry {none, 0 %, 1 unit, 2 %, 10 %, 100 %}
    // x clock {24 h - 1 ns, 24 h, 24 h + 1 ns} x new share {+1 unit, +2 points, +2 points
    // + 1 unit, 5 %, 100 %} (an entry of 0 % is an entry: at most 0 % -> 2 %)
    for init in [None, Some(0u128), Some(1), Some(2 * PCT), Some(10 * PCT), Some(ONE)] {
        let b = init.unwrap_or(0);
        for at in [t0 + DAY_NS - 1, t0 + DAY_NS, t0 + DAY_NS + 1] {
            for new in [b + 1, b + 2 * PCT, b + 2 * PCT + 1, 5 * PCT, ONE] {
                let mut steps = vec![st(at, "creator", upd_roy(new))];
                if at == t0 + DAY_NS {
                    // and one more day later, the follow-up raise from whatever was accepted
                    steps.push(st(at + DAY_NS, "creator", upd_roy(new.min(ONE - 2 * PCT) + 2 * PCT)));
                    steps.push(st(at + 2 * DAY_NS, "creator", upd_roy(5 * PCT)));
                }
                out.push(Hist { setup: setup_with(v, init), steps });
            }
        }
    }
    // lowered to 0 % the entry is still an entry: the way back up is +2 points per day
    out.push(Hist {
        setup: setup_with(v, Some(5 * PCT)),
        steps: vec![
            st(t0 + DAY_NS, "creator", upd_roy(0)),
            st(t0 + 2 * DAY_NS, "creator", upd_roy(5 * PCT)),
            st(t0 + 2 * DAY_NS, "creator", upd_roy(2 * PCT + 1)),
            st(t0 + 2 * DAY_NS, "creator", upd_roy(2 * PCT)),
            st(t0 + 3 * DAY_NS, "creator", upd_roy(ONE)),
        ],
    });
    // a 0 % (and a 1-unit) entry across a migration to the sg721-updatable code, then the
    // first raise of the collection's life
    for init in [Some(0u128), Some(1), None] {
        for cw2 in [None, Some((if v == Variant::Base { NAME_BASE_LEGACY } else { NAME_UPD_LEGACY }.to_string(), "3.2.1".to_string()))] {
            if cw2.is_some() && !matches!(v, Variant::Base | Variant::Updatable) {
                continue;
            }
            for new in [init.unwrap_or(0) + 2 * PCT, init.unwrap_or(0) + 2 * PCT + 1, 5 * PCT, ONE] {
                out.push(Hist {
                    setup: Setup { cw2: cw2.clone(), ..setup_with(v, init) },
                    steps: vec![st(t0 + 10, "creator", Op::Migrate), st(t0 + DAY_NS, "creator", upd_roy(new)), st(t0 + 2 * DAY_NS, "creator", upd_roy(4 * PCT))],
                });
            }
        }
    }
    // cadence measured from instantiation and from the previous accepted change
    for d0 in [DAY_NS - 1, DAY_NS, DAY_NS + 1] {
        for d1 in [DAY_NS - 1, DAY_NS, DAY_NS + 1] {
            let a = t0 + d0;
            out.push(Hist {
                setup: setup_with(v, Some(5 * PCT)),
                steps: vec![
                    st(a, "creator", upd_roy(6 * PCT)),
                    st(a + d1, "creator", upd_roy(4 * PCT)),
                    st(a + d1 + d1, "creator", upd_roy(3 * PCT)),
                    st(a + 3 * DAY_NS, "creator", upd_roy(2 * PCT)),
                ],
            });
        }
    }
    // the same value re-submitted also counts as a change for the cadence
    out.push(Hist {
        setup: setup_with(v, Some(5 * PCT)),
        steps: vec![
            st(t0 + DAY_NS, "creator", upd_roy(5 * PCT)),
            st(t0 + DAY_NS + 1, "creator", upd_roy(4 * PCT)),
            st(t0 + 2 * DAY_NS, "creator", upd_roy(4 * PCT)),
        ],
    });
    // raises: delta 2 % +- 1 atomic from several bases; cap 10 % +- 1 atomic
    for base in [0u128, 1, 3 * PCT, 5 * PCT, 8 * PCT - 1, 8 * PCT, 8 * PCT + 1, 9 * PCT, 10 * PCT - 1, 10 * PCT, 10 * PCT + 1, 50 * PCT] {
        for new in [
            base + 2 * PCT - 1,
            base + 2 * PCT,
            base + 2 * PCT + 1,
            10 * PCT - 1,
            10 * PCT,
            10 * PCT + 1,
            base + 1,
            base,
            base.saturating_sub(1),
            0,
        ] {
            out.push(Hist { setup: setup_with(v, Some(base)), steps: vec![st(t0 + DAY_NS, "creator", upd_roy(new))] });
        }
    }
    // every integer literal of the contract source read as a percentage: a raise of exactly
    // two points onto it, +- 1 atomic (a change that special-cases a value has to name it)
    for l in harvest_literals(&["contracts/collections/sg721-base/src/contract.rs"]) {
        if (1..=100).contains(&l) {
            let base = l.saturating_sub(2) * PCT;
            for new in [l * PCT - 1, l * PCT, l * PCT + 1] {
                out.push(Hist { setup: setup_with(v, Some(base)), steps: vec![st(t0 + DAY_NS, "creator", upd_roy(new))] });
            }
        }
    }
    // first royalty on a collection created without one: only bounded by 100 %
    for new in [0u128, 10 * PCT + 1, 50 * PCT, ONE - 1, ONE, ONE + 1] {
        out.push(Hist {
            setup: setup_with(v, None),
            steps: vec![st(t0 + DAY_NS, "creator", upd_roy(new)), st(t0 + 2 * DAY_NS, "creator", upd_roy(new / 2 + 2 * PCT))],
        });
    }
    // updates above 100 % on a collection with royalties, lowering from a high share
    for new in [ONE, ONE + 1, 49 * PCT, 50 * PCT, 50 * PCT + 1, 52 * PCT] {
        out.push(Hist { setup: setup_with(v, Some(50 * PCT)), steps: vec![st(t0 + DAY_NS, "creator", upd_roy(new))] });
    }
    // multi-step climb: 0 -> 2 -> 4 -> 6 -> 8 -> 10 -> (12 refused) -> 10 % + 1 refused
    let mut steps = vec![];
    for k in 1..=6u128 {
        steps.push(st(t0 + (k as u64) * DAY_NS, "creator", upd_roy(2 * k * PCT)));
    }
    steps.push(st(t0 + 7 * DAY_NS, "creator", upd_roy(10 * PCT + 1)));
    steps.push(st(t0 + 8 * DAY_NS, "creator", upd_roy(9 * PCT)));
    steps.push(st(t0 + 9 * DAY_NS, "creator", upd_roy(10 * PCT)));
    out.push(Hist { setup: setup_with(v, Some(0)), steps });
    // creeping by one atomic above the cap after reaching it from below
    out.push(Hist {
        setup: setup_with(v, Some(8 * PCT + 1)),
        steps: vec![
            st(t0 + DAY_NS, "creator", upd_roy(10 * PCT + 1)),
            st(t0 + DAY_NS, "creator", upd_roy(10 * PCT)),
            st(t0 + 2 * DAY_NS, "creator", upd_roy(10 * PCT + 1)),
        ],
    });
    // senders: only the creator; a new creator takes over; frozen collection
    for who in ["alice", "royalty", PUPPET, "creator2"] {
        out.push(Hist {
            setup: setup_with(v, Some(5 * PCT)),
            steps: vec![st(t0 + DAY_NS, who, upd_roy(4 * PCT)), st(t0 + DAY_NS, "creator", upd_roy(4 * PCT))],
        });
    }
    out.push(Hist {
        setup: setup_with(v, Some(5 * PCT)),
        steps: vec![
            st(t0 + 5, "creator", Op::UpdateInfo(UpdSpec { creator: Some("creator2".into()), explicit_content: Some(true), ..Default::default() })),
            st(t0 + DAY_NS, "creator", upd_roy(4 * PCT)),
            st(t0 + DAY_NS, "creator2", upd_roy(7 * PCT)),
            st(t0 + 2 * DAY_NS, "creator2", Op::FreezeInfo),
            st(t0 + 3 * DAY_NS, "creator2", upd_roy(1 * PCT)),
        ],
    });
    // a royalty update riding on an otherwise invalid message must not move the anchor
    out.push(Hist {
        setup: setup_with(v, Some(5 * PCT)),
        steps: vec![
            st(
                t0 + DAY_NS,
                "creator",
                Op::UpdateInfo(UpdSpec {
                    image: Some(INVALID_URLS[0].into()),
                    royalty: Some(Roy { addr: "royalty".into(), share: 6 * PCT }),
                    ..Default::default()
                }),
            ),
            st(t0 + DAY_NS + 1, "creator", upd_roy(7 * PCT)),
            st(t0 + DAY_NS + 2, "creator", upd_roy(7 * PCT)),
        ],
    });
    // migration to the sg721-updatable code between royalty updates: the 24 h anchor must
    // survive it (it is re-initialised only for records older than 3.1.0, which predate it)
    if matches!(v, Variant::Base | Variant::Updatable | Variant::UpdatableMigrated) {
        let names: Vec<&str> = if v == Variant::UpdatableMigrated { vec![] } else if v == Variant::Base { vec![NAME_BASE, NAME_BASE_LEGACY] } else { vec![NAME_UPD, NAME_UPD_LEGACY] };
        let mut cw2s: Vec<Option<(String, String)>> = vec![None];
        for n in &names {
            for ver in version_grid() {
                cw2s.push(Some((n.to_string(), ver)));
            }
        }
        for (i, cw2) in cw2s.into_iter().enumerate() {
            let a = t0 + DAY_NS;
            for (gap_mig, gap_upd) in [(1u64, 3_600_000_000_000u64), (DAY_NS - 2, DAY_NS - 1), (DAY_NS - 1, DAY_NS), (3_600_000_000_000, DAY_NS + 1)] {
                if i % 3 != 0 && gap_mig != 1 {
                    continue;
                }
                out.push(Hist {
                    setup: Setup { cw2: cw2.clone(), ..setup_with(v, Some(5 * PCT)) },
                    steps: vec![
                        st(a, "creator", upd_roy(7 * PCT)),
                        st(a + gap_mig, "alice", Op::Migrate),
                        st(a + gap_mig, "creator", Op::Migrate),
                        st(a + gap_upd, "creator", upd_roy(9 * PCT)),
                        st(a + gap_upd + 1, "creator", Op::Migrate),
                        st(a + DAY_NS, "creator", upd_roy(9 * PCT)),
                        st(a + DAY_NS + DAY_NS - 1, "creator", upd_roy(10 * PCT)),
                        st(a + 3 * DAY_NS, "creator", upd_roy(10 * PCT)),
                    ],
                });
            }
            // migrate first, then the first update of the collection's life at 24 h -1 / +0
            out.push(Hist {
                setup: Setup { cw2, ..setup_with(v, Some(5 * PCT)) },
                steps: vec![
                    st(t0 + 10, "creator", Op::Migrate),
                    st(t0 + 11, "creator", upd_roy(6 * PCT)),
                    st(t0 + DAY_NS - 1, "creator", upd_roy(6 * PCT)),
                    st(t0 + DAY_NS, "creator", upd_roy(6 * PCT)),
                    st(t0 + DAY_NS + 5, "creator", Op::Migrate),
                    st(t0 + DAY_NS + 6, "creator", upd_roy(8 * PCT)),
                ],
            });
        }
    }
    // each variant's OWN migrate entry point (same code id, by the wasm admin): once, twice in
    // a row, alternating with royalty updates, from the record as it is and from rewritten
    // records around every version literal (what a migrate records afterwards matters:
    // metadata-onchain records 3.0.0)
    {
        let mut cw2s: Vec<Option<(String, String)>> = vec![None];
        if v != Variant::UpdatableMigrated {
            for ver in version_grid_self() {
                cw2s.push(Some((own_name(v).to_string(), ver)));
            }
            if v == Variant::Updatable {
                cw2s.push(Some((NAME_UPD_LEGACY.to_string(), "3.0.9".into())));
            }
            if v == Variant::Onchain {
                cw2s.push(Some(("crates.io:something-else".to_string(), "3.0.9".into())));
            }
        }
        let hour = 3_600_000_000_000u64;
        for (i, cw2) in cw2s.into_iter().enumerate() {
            let a = t0 + DAY_NS;
            out.push(Hist {
                setup: Setup { cw2: cw2.clone(), ..setup_with(v, Some(5 * PCT)) },
                steps: vec![
                    st(a, "creator", upd_roy(7 * PCT)),
                    st(a + 1, "alice", Op::MigrateSelf),
                    st(a + 1, "creator", Op::MigrateSelf),
                    st(a + hour, "creator", upd_roy(9 * PCT)),
                    st(a + hour + 1, "creator", Op::MigrateSelf),
                    st(a + hour + 1, "creator", Op::MigrateSelf),
                    st(a + hour + 2, "creator", upd_roy(9 * PCT)),
                    st(a + DAY_NS - 1, "creator", upd_roy(9 * PCT)),
                    st(a + DAY_NS, "creator", upd_roy(9 * PCT)),
                    st(a + DAY_NS + 1, "creator", Op::MigrateSelf),
                    st(a + DAY_NS + 2, "creator", upd_roy(10 * PCT)),
                    st(a + 2 * DAY_NS, "creator", upd_roy(10 * PCT)),
                ],
            });
            if i % 2 == 0 {
                out.push(Hist {
                    setup: Setup { cw2, ..setup_with(v, Some(5 * PCT)) },
                    steps: vec![
                        st(t0 + 10, "creator", Op::MigrateSelf),
                        st(t0 + 11, "creator", Op::MigrateSelf),
                        st(t0 + 12, "creator", upd_roy(6 * PCT)),
                        st(t0 + DAY_NS - 1, "creator", upd_roy(6 * PCT)),
                        st(t0 + DAY_NS, "creator", upd_roy(6 * PCT)),
                        st(t0 + DAY_NS + 1, "creator", Op::MigrateSelf),
                        st(t0 + DAY_NS + 1, "creator", Op::Migrate),
                        st(t0 + DAY_NS + 2, "creator", Op::MigrateSelf),
                        st(t0 + DAY_NS + 3, "creator", upd_roy(8 * PCT)),
                    ],
                });
            }
        }
    }
    // u64 clock overflow of anchor + 24 h
    out.push(Hist {
        setup: Setup { time0: u64::MAX - DAY_NS + 1, ..setup_with(v, Some(5 * PCT)) },
        steps: vec![st(u64::MAX, "creator", upd_roy(4 * PCT))],
    });
    out.push(Hist {
        setup: Setup { time0: u64::MAX - DAY_NS, ..setup_with(v, Some(5 * PCT)) },
        steps: vec![st(u64::MAX - 1, "creator", upd_roy(4 * PCT)), st(u64::MAX, "creator", upd_roy(4 * PCT))],
    });
    out
}

fn random_hist(v: Variant, rng: &mut Rng, len: usize) -> Runner {
    let bases = [None, Some(0u128), Some(1), Some(3 * PCT), Some(5 * PCT), Some(8 * PCT), Some(10 * PCT), Some(30 * PCT), Some(ONE)];
    let mut setup = setup_with(v, *rng.pick(&bases));
    if rng.chance(1, 4) {
        setup.minter = "minter2".into();
    }
    if rng.chance(1, 3) && matches!(v, Variant::Base | Variant::Updatable) {
        let n = if v == Variant::Base { *rng.pick(&[NAME_BASE, NAME_BASE_LEGACY]) } else { *rng.pick(&[NAME_UPD, NAME_UPD_LEGACY]) };
        setup.cw2 = Some((n.to_string(), rng.pick(&version_grid()).clone()));
    } else if rng.chance(1, 3) && v != Variant::UpdatableMigrated {
        setup.cw2 = Some((own_name(v).to_string(), rng.pick(&version_grid_self()).clone()));
    }
    let mut r = Runner::new(&setup);
    if !r.alive() {
        return r;
    }
    let mut t = setup.time0;
    let mut last_change = setup.time0;
    for _ in 0..len {
        // clock: mostly land on / around the next allowed instant
        let target = last_change + DAY_NS;
        t = match rng.below(10) {
            0 => t + 1,
            1 => t + DAY_NS / 2,
            2 | 3 => target.max(t + 1) - 1,
            4 | 5 | 6 => target.max(t),
            7 => target.max(t) + 1,
            _ => t + DAY_NS + rng.below(DAY_NS),
        };
        let o = r.obs().clone();
        let cur = o.info.royalty.as_ref().map(|x| x.share);
        let creator = o.info.creator.clone();
        let sender = if rng.chance(9, 10) { creator.clone() } else { rng.pick(&USERS).to_string() };
        let op = match rng.below(20) {
            0 => Op::FreezeInfo,
            1 => Op::UpdateInfo(UpdSpec {
                creator: Some(if creator == "creator" { "creator2".into() } else { "creator".into() }),
                explicit_content: o.info.explicit_content,
                ..Default::default()
            }),
            2 => Op::UpdateInfo(UpdSpec { description: Some("other".into()), ..Default::default() }),
            3 => Op::Mint { id: rng.below(3), owner: "alice".into(), uri: None },
            4 => Op::Migrate,
            5 | 6 => Op::MigrateSelf,
            _ => {
                let c = cur.unwrap_or(0);
                let share = match rng.below(14) {
                    0 => c,
                    1 => c.saturating_sub(1),
                    2 => c / 2,
                    3 => 0,
                    4 => c + 1,
                    5 => c + 2 * PCT - 1,
                    6 | 7 => c + 2 * PCT,
                    8 => c + 2 * PCT + 1,
                    9 => 10 * PCT,
                    10 => 10 * PCT + 1,
                    11 => ONE + rng.below(2) as u128,
                    12 => c + rng.below(2 * PCT as u64) as u128,
                    _ => rng.next_u128() % (12 * PCT),
                };
                let mut u = UpdSpec { royalty: Some(Roy { addr: rng.pick(&["royalty", "carol"]).to_string(), share }), ..Default::default() };
                u.explicit_content = o.info.explicit_content;
                if rng.chance(1, 12) {
                    u.image = Some(rng.pick(&INVALID_URLS).to_string());
                }
                Op::UpdateInfo(u)
            }
        };
        let is_roy = matches!(&op, Op::UpdateInfo(u) if u.royalty.is_some());
        let rec = r.step(&Step { at: t, sender, op, funds: vec![] });
        if rec.ok && is_roy {
            last_change = t;
        }
    }
    r
}

/// The property text evaluated on one recorded history.  Returns (key suffix, description).
pub fn history_monitor(r: &Runner) -> Option<(String, String)> {
    let init = r.init_obs.as_ref()?;
    // LEDGER RULE: the royalty entry as the creator set it - the instantiate message, then
    // every accepted update that carries royalty_info (an omitted / null field leaves it
    // unchanged; the documented semantics have no removal).  The raise monitors judge a new
    // share against the ledger's previous entry, never against a value read back from the
    // contract: an entry of 0 % is an entry (+2 points at most).
    let mut ledger: Option<Roy> = r.setup.info.royalty.clone();
    let mut ledger_creator: String = r.setup.info.creator.clone();
    // ceiling for climbs: max(share of the first entry, 10 %)
    let mut cap: Option<u128> = ledger.as_ref().map(|x| x.share.max(10 * PCT));
    if let Some(x) = &ledger {
        if x.share > ONE {
            return Some(("share-above-100".into(), format!("instantiated with share {}", share_str(x.share))));
        }
    }
    if let Some(x) = &init.info.royalty {
        if x.share > ONE {
            return Some(("share-above-100".into(), format!("CollectionInfo reports share {} after instantiation", share_str(x.share))));
        }
    }
    let mut last_accept: Option<u64> = None;
    let mut anchor = r.setup.time0; // last accepted change, or creation
    // the harness rewrote the cw2 record to a version below 3.1.0: the collection stands for
    // a deployment that predates the cadence anchor.  Its FIRST successful migration may
    // create the anchor (now - 24 h); this excuse is used up by that migration - a record
    // below 3.1.0 that a migrate itself wrote (metadata-onchain records 3.0.0) earns none.
    let mut predates_anchor = matches!(&r.setup.cw2, Some((_, ver)) if parse_triple(ver) < (3, 1, 0));
    let mut frozen = false;
    for (i, rec) in r.recs.iter().enumerate() {
        let since = anchor; // last accepted change before this step (or creation)
        if let Some(n) = rec.after.info.royalty.as_ref().map(|x| x.share) {
            if n > ONE {
                return Some(("share-above-100".into(), format!("step {}: share {} after {:?}", i, share_str(n), rec.step.op)));
            }
        }
        let (roy_msg, creator_msg) = match &rec.step.op {
            Op::UpdateInfo(u) => (u.royalty.clone(), u.creator.clone()),
            _ => (None, None),
        };
        let changed = rec.before.info.royalty != rec.after.info.royalty;
        if changed && !(rec.ok && roy_msg.is_some()) {
            return Some(("royalty-changed-without-update".into(), format!("step {}: {:?} changed royalties to {:?}", i, rec.step.op, rec.after.info.royalty)));
        }
        let old = ledger.as_ref().map(|x| x.share);
        if let (true, Some(m)) = (rec.ok, &roy_msg) {
            let n = m.share;
            if n > ONE {
                return Some(("share-above-100".into(), format!("step {}: update to share {} accepted", i, share_str(n))));
            }
            if let Some(o) = old {
                if n > o && n - o > 2 * PCT {
                    return Some(("raise-above-2pp".into(), format!("step {}: accepted raise {} -> {} (previous entry as the creator set it)", i, share_str(o), share_str(n))));
                }
                if n > o && n > 10 * PCT {
                    return Some(("raise-above-10pct".into(), format!("step {}: accepted raise {} -> {} (previous entry as the creator set it)", i, share_str(o), share_str(n))));
                }
            }
            match cap {
                Some(c) if n > c => {
                    return Some(("climb".into(), format!("step {}: share {} above max(first entry, 10%) = {}", i, share_str(n), share_str(c))));
                }
                None => cap = Some(n.max(10 * PCT)),
                _ => {}
            }
            if let Some(prev) = last_accept {
                if rec.step.at < prev || rec.step.at - prev < DAY_NS {
                    return Some(("cadence".into(), format!("step {}: royalty change accepted {} ns after the previous accepted one", i, rec.step.at.wrapping_sub(prev))));
                }
            }
            last_accept = Some(rec.step.at);
            anchor = rec.step.at;
            ledger = Some(m.clone());
        }
        // lowering is always allowed within the cadence: creator, not frozen, a message
        // that changes nothing else, share not above the current entry, >= 24 h since the
        // last accepted change (or creation)
        if let (Some(m), Some(o)) = (&roy_msg, old) {
            let plain = matches!(&rec.step.op, Op::UpdateInfo(u) if u.description.is_none() && u.image.is_none() && u.external_link.is_none() && u.creator.is_none());
            let waited = rec.step.at >= since && rec.step.at - since >= DAY_NS;
            if plain && !frozen && rec.step.sender == ledger_creator && m.share <= o && waited && since.checked_add(DAY_NS).is_some() && !rec.ok {
                return Some(("lowering-rejected".into(), format!("step {}: lowering {} -> {} by the creator {} ns after the last change was rejected: {}", i, share_str(o), share_str(m.share), rec.step.at - since, rec.err)));
            }
        }
        if rec.ok {
            if let Some(c) = creator_msg {
                ledger_creator = c;
            }
        }
        if rec.ok && matches!(rec.step.op, Op::FreezeInfo) {
            frozen = true;
        }
        // a deployment older than 3.1.0 has no cadence anchor at all (the field was added
        // in 3.1.0); its migration creates one at now - 24 h, so the cadence starts there.
        // Any other migration must leave the cadence alone.
        if rec.ok && matches!(rec.step.op, Op::Migrate | Op::MigrateSelf) {
            if predates_anchor && parse_triple(&rec.before.cw2.1) < (3, 1, 0) && rec.before.cw2 != rec.after.cw2 {
                last_accept = None;
                anchor = rec.step.at.saturating_sub(DAY_NS);
            }
            if rec.before.cw2 != rec.after.cw2 {
                predates_anchor = false;
            }
        }
    }
    None
}

#[derive(Deserialize)]
struct ReplayFile {
    history: Option<Hist>,
    payout: Option<Payout>,
}

fn fingerprint(v: Variant, rec: &StepRec) -> u64 {
    let mut h = std::collections::hash_map::DefaultHasher::new();
    v.hash(&mut h);
    rec.step.op.hash(&mut h);
    rec.step.sender.hash(&mut h);
    rec.ok.hash(&mut h);
    rec.before.hash(&mut h);
    h.finish()
}
pub fn trivial_rejection(rec: &StepRec) -> bool {
    !rec.ok && (rec.err.contains("unknown variant") || rec.err.contains("Error parsing") || rec.err.contains("missing field"))
}

pub fn run(a: &Args) {
    let out = OutDir::new(&a.out);
    let mut rep = Report { property: "C10".into(), tier: a.tier.clone(), seed: a.seed, ..Default::default() };
    let mut rng = Rng::new(a.seed);
    let mut coq_cases: Vec<String> = vec![];
    let mut distinct = BTreeSet::new();
    let mut nviol = 0usize;

    let (payouts, hists): (Vec<Payout>, Vec<Hist>) = if let Some(p) = &a.replay {
        let txt = std::fs::read_to_string(p).expect("replay file");
        let rf: ReplayFile = serde_json::from_str(&txt).expect("replay json");
        (rf.payout.into_iter().collect(), rf.history.into_iter().collect())
    } else {
        let mut hs = vec![];
        for v in Variant::ALL {
            hs.extend(scripted(v));
        }
        (payout_cases(a, &mut rng), hs)
    };

    // (a) payout helper
    for (i, c) in payouts.iter().enumerate() {
        let o = run_payout(c);
        rep.evaluations += 1;
        rep.bump(&format!("royalty_payout:{}", if o.out.is_ok() { "ok" } else { "err" }));
        if matches!(&o.out, Ok((x, _)) if *x > 0) || o.out.is_err() {
            distinct.insert(format!("{:?}", c));
        }
        if let Some((k, what)) = payout_monitor(c, &o.out) {
            nviol += 1;
            if nviol <= 20 {
                let body = format!(
                    "{{\n \"property\": \"C10\",\n \"payout\": {},\n \"observed\": {},\n \"violation\": {}\n}}\n",
                    serde_json::to_string(c).unwrap(),
                    serde_json::to_string(&format!("{:?}", o.out)).unwrap(),
                    serde_json::to_string(&what).unwrap()
                );
                let path = out.write_replay(&format!("C10-{}.json", nviol), &body);
                rep.violations.push(Violation { key: format!("C10:{}", k), what: format!("royalty_payout on {:?}: {}", c, what), replay: path });
            }
        }
        if rep.samples.len() < 1 && (i == 3 || a.replay.is_some()) {
            rep.samples.push(serde_json::json!({"case": format!("{:?}", c), "impl_output": format!("{:?}", o.out)}));
        }
        coq_cases.push(o.coq);
    }

    // (b) histories
    let mut handle = |r: Runner, rep: &mut Report, coq_cases: &mut Vec<String>, nviol: &mut usize, distinct: &mut BTreeSet<String>| {
        let v = r.setup.variant;
        rep.evaluations += 1 + r.recs.len() as u64;
        rep.bump(&format!("{}:instantiate:{}", v.name(), if r.alive() { "ok" } else { "err" }));
        for rec in &r.recs {
            rep.bump(&format!("{}:{}:{}", v.name(), rec.step.op.kind(), if rec.ok { "ok" } else { "err" }));
            if !trivial_rejection(rec) {
                distinct.insert(format!("{:x}", fingerprint(v, rec)));
            }
        }
        if let Some((k, what)) = history_monitor(&r) {
            *nviol += 1;
            if *nviol <= 20 {
                let key = format!("C10:{}:{}", v.name(), k);
                let kk = k.clone();
                let small = shrink(&r.hist(), &|x: &Runner| matches!(history_monitor(x), Some((k2, _)) if k2 == kk));
                let path = out.write_replay(&format!("C10-{}.json", *nviol), &replay_body("C10", &small, &what, &key));
                rep.violations.push(Violation { key, what: format!("{} ({} steps after shrinking): {}", v.name(), small.steps.len(), what), replay: path });
            }
        }
        if rep.samples.len() < 3 && !r.recs.is_empty() {
            let rec = &r.recs[0];
            rep.samples.push(serde_json::json!({"variant": v.name(), "step": format!("{:?}", rec.step), "ok": rec.ok, "royalty_after": format!("{:?}", rec.after.info.royalty)}));
        }
        coq_cases.push(format!("RHist {}", r.coq_history()));
    };
    for h in &hists {
        let r = run_hist(h);
        handle(r, &mut rep, &mut coq_cases, &mut nviol, &mut distinct);
    }
    if a.replay.is_none() {
        let per = if a.thorough() { 150 } else { 10 };
        for v in Variant::ALL {
            for _ in 0..per {
                let len = rng.range(8, 22) as usize;
                let r = random_hist(v, &mut rng, len);
                handle(r, &mut rep, &mut coq_cases, &mut nviol, &mut distinct);
            }
        }
    }
    rep.distinct_nontrivial = distinct.len() as u64;
    rep.rule = "evaluations = royalty_payout calls + instantiations + executed history steps. Payout: shares {none, 0, 1, 1%, 2%, 5%, 10%, 50%, 99%, 100%, 200%, u128::MAX} +-1 atomic x payments (small, 10^k, 10^18, u128::MAX, +-1) x fees on the `fees + royalty = payment` boundary +-1, with/without finder's fee, plus random u128. Histories: per variant (base, updatable, updatable-migrated, metadata-onchain, nt) initial entry {none, 0%, 1 unit, 2%, 10%, 100%} x first update at 24h-1ns/24h/24h+1ns x {+1 unit, +2pts, +2pts+1 unit, 5%, 100%} (monitors judge raises against the harness's ledger of the entry as the creator set it, never a read-back value), 0%/1-unit entries across a migration, lowering to 0% and back, instantiate shares around 100%, clocks at 24h-1ns/24h/24h+1ns from creation and from the previous accepted change, raises of 2% +-1 atomic from 12 bases, cap 10% +-1 atomic, first royalty on a royalty-less collection, climbs, non-creator senders, frozen collection, u64 clock overflow, admin migrations to the sg721-updatable code between royalty updates at 1 ns / 1 h / 24 h -1 / +0 / +1 over the same cw2 name x version grid as C09, each variant's OWN migrate entry point with the same code id (Sg721Contract::migrate wired for sg721-base, sg721-updatable, metadata-onchain, nt) once / twice in a row / alternating with royalty updates, from the record as it is and from rewritten records (own name x version grid + 3.9.9, 3.10.0, 10.0.0 for the string comparisons), then random royalty histories (with both kinds of migration). Non-trivial = payout that pays or refuses; history step (distinct by variant, call, sender, outcome and prior observation) that is not a message-does-not-exist rejection.".into();
    out.write_cases("C10", "From LP Require Import Collection C10Corr.", "c10_case", "c10_check", &coq_cases, 6, &mut rep);
    out.finish(&rep);
    println!("C10 harness: {} evaluations in {} cases, {} monitor violations", rep.evaluations, coq_cases.len(), nviol);
}
