//! w_factory: the four factories and the eleven minters created THROUGH them, driven
//! with JSON messages (what a governance proposal / a creator actually sends), so one
//! code path serves every variant.  No dependency on the repo's test-suite crate.
#![allow(dead_code, unused_imports)]
use crate::chain::{self, App};
use cosmwasm_std::{
    to_json_vec, Addr, Binary, Coin, ContractResult, CosmosMsg, Empty, Querier, QueryRequest, SystemResult, WasmMsg,
    WasmQuery,
};
use cw_multi_test::{AppResponse, Contract, Executor, SudoMsg, WasmSudo};
use serde::{Deserialize, Serialize};
use serde_json::{json, Value};

use crate::util::NATIVE;
pub const CREATOR: &str = "creator";
pub const GOV: &str = "governance";
pub const DEV_ADDRESS: &str = "stars1abcd4kdla12mh86psg4y4h6hh05g2hmqoap350";

#[derive(Clone, Copy, Debug, PartialEq, Eq, PartialOrd, Ord, Serialize, Deserialize)]
pub enum FactoryKind {
    Base,
    Vending,
    OpenEdition,
    TokenMerge,
}
impl FactoryKind {
    pub const ALL: [FactoryKind; 4] =
        [FactoryKind::Base, FactoryKind::Vending, FactoryKind::OpenEdition, FactoryKind::TokenMerge];
    pub fn name(self) -> &'static str {
        match self {
            FactoryKind::Base => "base-factory",
            FactoryKind::Vending => "vending-factory",
            FactoryKind::OpenEdition => "open-edition-factory",
            FactoryKind::TokenMerge => "token-merge-factory",
        }
    }
    pub fn code(self) -> Box<dyn Contract<Empty>> {
        match self {
            FactoryKind::Base => chain::base_factory(),
            FactoryKind::Vending => chain::vending_factory(),
            FactoryKind::OpenEdition => chain::open_edition_factory(),
            FactoryKind::TokenMerge => chain::token_merge_factory(),
        }
    }
    /// the minter variants this factory can instantiate
    pub fn minters(self) -> Vec<MinterKind> {
        MinterKind::ALL.iter().copied().filter(|m| m.factory() == self).collect()
    }
}

/// Order = index into `all_minter_kinds` of coq/model/Status.v.
#[derive(Clone, Copy, Debug, PartialEq, Eq, PartialOrd, Ord, Serialize, Deserialize)]
pub enum MinterKind {
    Base,
    Vending,
    VendingFeatured,
    VendingWlFlex,
    VendingWlFlexFeatured,
    VendingMerkleWl,
    VendingMerkleWlFeatured,
    OpenEdition,
    OpenEditionWlFlex,
    OpenEditionMerkleWl,
    TokenMerge,
}
impl MinterKind {
    pub const ALL: [MinterKind; 11] = [
        MinterKind::Base,
        MinterKind::Vending,
        MinterKind::VendingFeatured,
        MinterKind::VendingWlFlex,
        MinterKind::VendingWlFlexFeatured,
        MinterKind::VendingMerkleWl,
        MinterKind::VendingMerkleWlFeatured,
        MinterKind::OpenEdition,
        MinterKind::OpenEditionWlFlex,
        MinterKind::OpenEditionMerkleWl,
        MinterKind::TokenMerge,
    ];
    pub fn index(self) -> u64 {
        MinterKind::ALL.iter().position(|m| *m == self).unwrap() as u64
    }
    pub fn name(self) -> &'static str {
        match self {
            MinterKind::Base => "base-minter",
            MinterKind::Vending => "vending-minter",
            MinterKind::VendingFeatured => "vending-minter-featured",
            MinterKind::VendingWlFlex => "vending-minter-wl-flex",
            MinterKind::VendingWlFlexFeatured => "vending-minter-wl-flex-featured",
            MinterKind::VendingMerkleWl => "vending-minter-merkle-wl",
            MinterKind::VendingMerkleWlFeatured => "vending-minter-merkle-wl-featured",
            MinterKind::OpenEdition => "open-edition-minter",
            MinterKind::OpenEditionWlFlex => "open-edition-minter-wl-flex",
            MinterKind::OpenEditionMerkleWl => "open-edition-minter-merkle-wl",
            MinterKind::TokenMerge => "token-merge-minter",
        }
    }
    pub fn factory(self) -> FactoryKind {
        match self {
            MinterKind::Base => FactoryKind::Base,
            MinterKind::Vending
            | MinterKind::VendingFeatured
            | MinterKind::VendingWlFlex
            | MinterKind::VendingWlFlexFeatured
            | MinterKind::VendingMerkleWl
            | MinterKind::VendingMerkleWlFeatured => FactoryKind::Vending,
            MinterKind::OpenEdition | MinterKind::OpenEditionWlFlex | MinterKind::OpenEditionMerkleWl => {
                FactoryKind::OpenEdition
            }
            MinterKind::TokenMerge => FactoryKind::TokenMerge,
        }
    }
    pub fn code(self) -> Box<dyn Contract<Empty>> {
        match self {
            MinterKind::Base => chain::base_minter(),
            MinterKind::Vending => chain::vending_minter(),
            MinterKind::VendingFeatured => chain::vending_minter_featured(),
            MinterKind::VendingWlFlex => chain::vending_minter_wl_flex(),
            MinterKind::VendingWlFlexFeatured => chain::vending_minter_wl_flex_featured(),
            MinterKind::VendingMerkleWl => chain::vending_minter_merkle_wl(),
            MinterKind::VendingMerkleWlFeatured => chain::vending_minter_merkle_wl_featured(),
            MinterKind::OpenEdition => chain::open_edition_minter(),
            MinterKind::OpenEditionWlFlex => chain::open_edition_minter_wl_flex(),
            MinterKind::OpenEditionMerkleWl => chain::open_edition_minter_merkle_wl(),
            MinterKind::TokenMerge => chain::token_merge_minter(),
        }
    }
}

// ---------------------------------------------------------------- raw JSON plumbing

fn bin(v: &Value) -> Binary {
    Binary::from(serde_json::to_vec(v).unwrap())
}
fn flatten(r: Result<anyhow::Result<AppResponse>, String>) -> Result<AppResponse, String> {
    match r {
        Ok(Ok(x)) => Ok(x),
        Ok(Err(e)) => Err(format!("{:#}", e)),
        Err(p) => Err(p),
    }
}

/// sudo with a JSON message (bytes are sent as they are, so undecodable messages can be sent too)
pub fn sudo_json(app: &mut App, contract: &Addr, msg: &Value) -> Result<AppResponse, String> {
    sudo_raw(app, contract, serde_json::to_vec(msg).unwrap())
}
pub fn sudo_raw(app: &mut App, contract: &Addr, bytes: Vec<u8>) -> Result<AppResponse, String> {
    let m = SudoMsg::Wasm(WasmSudo { contract_addr: contract.clone(), message: Binary::from(bytes) });
    flatten(crate::util::catch(|| app.sudo(m)))
}
pub fn exec_json(app: &mut App, sender: &str, contract: &Addr, msg: &Value, funds: &[Coin]) -> Result<AppResponse, String> {
    let m: CosmosMsg = WasmMsg::Execute { contract_addr: contract.to_string(), msg: bin(msg), funds: funds.to_vec() }.into();
    flatten(crate::util::catch(|| app.execute(Addr::unchecked(sender), m)))
}
pub fn instantiate_json(app: &mut App, code_id: u64, sender: &str, msg: &Value, label: &str) -> Result<Addr, String> {
    let m: CosmosMsg =
        WasmMsg::Instantiate { admin: None, code_id, msg: bin(msg), funds: vec![], label: label.to_string() }.into();
    let res = flatten(crate::util::catch(|| app.execute(Addr::unchecked(sender), m)))?;
    instantiated_addrs(&res).first().cloned().ok_or_else(|| "no instantiate event".to_string())
}
/// smart query answered as JSON (the bytes the contract returned, parsed by serde_json)
pub fn query_json(app: &App, contract: &Addr, msg: &Value) -> Result<Value, String> {
    let req: QueryRequest<Empty> = WasmQuery::Smart { contract_addr: contract.to_string(), msg: bin(msg) }.into();
    let raw = to_json_vec(&req).map_err(|e| e.to_string())?;
    match crate::util::catch(|| app.raw_query(&raw)) {
        Ok(SystemResult::Ok(ContractResult::Ok(b))) => serde_json::from_slice(b.as_slice()).map_err(|e| e.to_string()),
        Ok(SystemResult::Ok(ContractResult::Err(e))) => Err(e),
        Ok(SystemResult::Err(e)) => Err(e.to_string()),
        Err(p) => Err(p),
    }
}
/// addresses of the contracts instantiated during a call, in creation order
pub fn instantiated_addrs(res: &AppResponse) -> Vec<Addr> {
    let mut out = vec![];
    for e in res.events.iter().filter(|e| e.ty == "instantiate") {
        for a in e.attributes.iter().filter(|a| a.key == "_contract_address") {
            out.push(Addr::unchecked(a.value.clone()));
        }
    }
    out
}
/// whole raw storage of a contract
pub fn storage_dump(app: &App, addr: &Addr) -> Vec<(Vec<u8>, Vec<u8>)> {
    use cosmwasm_std::Storage;
    let st = app.contract_storage(addr);
    st.range(None, None, cosmwasm_std::Order::Ascending).collect()
}

pub fn jcoin(denom: &str, amount: u128) -> Value {
    json!({ "denom": denom, "amount": amount.to_string() })
}

// ---------------------------------------------------------------- parameters

/// Every governance parameter any factory has.  Each factory uses its own subset
/// (`params_json`); the rest is ignored for that kind.
#[derive(Clone, Debug, PartialEq, Eq, Serialize, Deserialize)]
pub struct FParams {
    pub code_id: u64,
    pub allowed: Vec<u64>,
    pub frozen: bool,
    pub creation_fee: (String, u128),
    pub min_mint_price: (String, u128),
    pub mint_fee_bps: u64,
    pub offset: u64,
    pub max_token_limit: u32,
    pub max_per_address_limit: u32,
    pub airdrop_mint_price: (String, u128),
    pub airdrop_mint_fee_bps: u64,
    pub shuffle_fee: (String, u128),
    pub dev_fee_address: String,
}

/// The defaults of the repo's own test setup (common_setup/setup_minter/*/mock_params.rs).
pub fn default_params(kind: FactoryKind, minter_code_id: u64, allowed: &[u64]) -> FParams {
    let n = |a: u128| (NATIVE.to_string(), a);
    let mut p = FParams {
        code_id: minter_code_id,
        allowed: allowed.to_vec(),
        frozen: false,
        creation_fee: n(5_000_000_000),
        min_mint_price: n(50_000_000),
        mint_fee_bps: 1_000,
        offset: 60 * 60 * 24 * 7,
        max_token_limit: 10_000,
        max_per_address_limit: 50,
        airdrop_mint_price: n(0),
        airdrop_mint_fee_bps: 10_000,
        shuffle_fee: n(500_000_000),
        dev_fee_address: DEV_ADDRESS.to_string(),
    };
    match kind {
        FactoryKind::Base => {
            p.creation_fee = n(1_000_000_000);
            p.mint_fee_bps = 10_000;
        }
        FactoryKind::OpenEdition => {
            p.min_mint_price = n(100_000_000);
            p.max_per_address_limit = 10;
            p.airdrop_mint_fee_bps = 100;
            p.airdrop_mint_price = n(100_000_000);
        }
        _ => {}
    }
    p
}

/// The `params` object of the factory's InstantiateMsg / ParamsResponse.
pub fn params_json(kind: FactoryKind, p: &FParams) -> Value {
    let c = |x: &(String, u128)| jcoin(&x.0, x.1);
    match kind {
        FactoryKind::Base => json!({
            "code_id": p.code_id, "allowed_sg721_code_ids": p.allowed, "frozen": p.frozen,
            "creation_fee": c(&p.creation_fee), "min_mint_price": c(&p.min_mint_price),
            "mint_fee_bps": p.mint_fee_bps, "max_trading_offset_secs": p.offset, "extension": null }),
        FactoryKind::Vending => json!({
            "code_id": p.code_id, "allowed_sg721_code_ids": p.allowed, "frozen": p.frozen,
            "creation_fee": c(&p.creation_fee), "min_mint_price": c(&p.min_mint_price),
            "mint_fee_bps": p.mint_fee_bps, "max_trading_offset_secs": p.offset,
            "extension": { "max_token_limit": p.max_token_limit, "max_per_address_limit": p.max_per_address_limit,
                "airdrop_mint_price": c(&p.airdrop_mint_price), "airdrop_mint_fee_bps": p.airdrop_mint_fee_bps,
                "shuffle_fee": c(&p.shuffle_fee) } }),
        FactoryKind::OpenEdition => json!({
            "code_id": p.code_id, "allowed_sg721_code_ids": p.allowed, "frozen": p.frozen,
            "creation_fee": c(&p.creation_fee), "min_mint_price": c(&p.min_mint_price),
            "mint_fee_bps": p.mint_fee_bps, "max_trading_offset_secs": p.offset,
            "extension": { "max_token_limit": p.max_token_limit, "max_per_address_limit": p.max_per_address_limit,
                "airdrop_mint_fee_bps": p.airdrop_mint_fee_bps, "airdrop_mint_price": c(&p.airdrop_mint_price),
                "dev_fee_address": p.dev_fee_address } }),
        FactoryKind::TokenMerge => json!({
            "code_id": p.code_id, "allowed_sg721_code_ids": p.allowed, "frozen": p.frozen,
            "creation_fee": c(&p.creation_fee), "max_trading_offset_secs": p.offset,
            "max_token_limit": p.max_token_limit, "max_per_address_limit": p.max_per_address_limit,
            "airdrop_mint_price": c(&p.airdrop_mint_price), "airdrop_mint_fee_bps": p.airdrop_mint_fee_bps,
            "shuffle_fee": c(&p.shuffle_fee) }),
    }
}

fn rd_coin(v: &Value) -> Option<(String, u128)> {
    Some((v.get("denom")?.as_str()?.to_string(), v.get("amount")?.as_str()?.parse().ok()?))
}
/// Read a ParamsResponse's `params` object back into FParams (fields the kind lacks keep
/// the value of `like`).  None if a field the kind must have is missing or mistyped.
pub fn params_from_json(kind: FactoryKind, v: &Value, like: &FParams) -> Option<FParams> {
    let mut p = like.clone();
    p.code_id = v.get("code_id")?.as_u64()?;
    p.allowed = v.get("allowed_sg721_code_ids")?.as_array()?.iter().map(|x| x.as_u64()).collect::<Option<Vec<_>>>()?;
    p.frozen = v.get("frozen")?.as_bool()?;
    p.creation_fee = rd_coin(v.get("creation_fee")?)?;
    p.offset = v.get("max_trading_offset_secs")?.as_u64()?;
    if kind != FactoryKind::TokenMerge {
        p.min_mint_price = rd_coin(v.get("min_mint_price")?)?;
        p.mint_fee_bps = v.get("mint_fee_bps")?.as_u64()?;
    }
    let x = match kind {
        FactoryKind::Base => return Some(p),
        FactoryKind::TokenMerge => v,
        _ => v.get("extension")?,
    };
    p.max_token_limit = x.get("max_token_limit")?.as_u64()? as u32;
    p.max_per_address_limit = x.get("max_per_address_limit")?.as_u64()? as u32;
    p.airdrop_mint_price = rd_coin(x.get("airdrop_mint_price")?)?;
    p.airdrop_mint_fee_bps = x.get("airdrop_mint_fee_bps")?.as_u64()?;
    match kind {
        FactoryKind::OpenEdition => p.dev_fee_address = x.get("dev_fee_address")?.as_str()?.to_string(),
        _ => p.shuffle_fee = rd_coin(x.get("shuffle_fee")?)?,
    }
    Some(p)
}

// ---------------------------------------------------------------- factories

/// Instantiate a factory with the given parameters (governance is the sender; no funds).
pub fn instantiate_factory(app: &mut App, kind: FactoryKind, factory_code_id: u64, p: &FParams) -> Result<Addr, String> {
    instantiate_json(app, factory_code_id, GOV, &json!({ "params": params_json(kind, p) }), kind.name())
}

/// Store the factory's code and instantiate it with the repo's default parameters.
/// Returns (factory address, factory code id).
pub fn instantiate_default_factory(app: &mut App, kind: FactoryKind, minter_code_id: u64, allowed: &[u64]) -> (Addr, u64) {
    let fc = app.store_code(kind.code());
    let addr = instantiate_factory(app, kind, fc, &default_params(kind, minter_code_id, allowed)).expect("factory");
    (addr, fc)
}

pub fn q_params(app: &App, factory: &Addr) -> Result<Value, String> {
    query_json(app, factory, &json!({ "params": {} })).and_then(|v| v.get("params").cloned().ok_or("no params".into()))
}
pub fn q_allowed_ids(app: &App, factory: &Addr) -> Result<Vec<u64>, String> {
    let v = query_json(app, factory, &json!({ "allowed_collection_code_ids": {} }))?;
    v.get("code_ids")
        .and_then(|a| a.as_array())
        .and_then(|a| a.iter().map(|x| x.as_u64()).collect::<Option<Vec<_>>>())
        .ok_or_else(|| format!("bad answer {}", v))
}
pub fn q_allowed_id(app: &App, factory: &Addr, id: u64) -> Result<bool, String> {
    let v = query_json(app, factory, &json!({ "allowed_collection_code_id": id }))?;
    v.get("allowed").and_then(|b| b.as_bool()).ok_or_else(|| format!("bad answer {}", v))
}

// ---------------------------------------------------------------- minter creation

/// What a creator asks for.  Fields a factory kind does not have are ignored for it.
#[derive(Clone, Debug, PartialEq, Eq, Serialize, Deserialize)]
pub struct CreateReq {
    /// coins attached to CreateMinter
    pub funds: Vec<(String, u128)>,
    pub collection_code_id: u64,
    /// vending / token-merge: must be Some; open edition: None = unlimited edition
    pub num_tokens: Option<u32>,
    pub per_address_limit: u32,
    pub mint_price: (String, u128),
    /// seconds from the current block time
    pub start_in_secs: u64,
    /// open edition only: sale end, seconds after the start
    pub end_after_secs: Option<u64>,
    /// requested collection start_trading_time, seconds after the sale start (None = not requested)
    #[serde(default)]
    pub trading_after_start_secs: Option<u64>,
}
impl CreateReq {
    /// a request every default factory accepts (pays exactly `fee`)
    pub fn standard(kind: FactoryKind, collection_code_id: u64, fee: &(String, u128)) -> CreateReq {
        CreateReq {
            funds: vec![fee.clone()],
            collection_code_id,
            num_tokens: if kind == FactoryKind::OpenEdition { None } else { Some(100) },
            per_address_limit: 3,
            mint_price: (NATIVE.to_string(), 100_000_000),
            start_in_secs: 100,
            end_after_secs: if kind == FactoryKind::OpenEdition { Some(10_000) } else { None },
            trading_after_start_secs: None,
        }
    }
}

pub fn collection_params_json(code_id: u64, creator: &str) -> Value {
    collection_params_json_t(code_id, creator, None)
}
/// with a requested start_trading_time (nanoseconds)
pub fn collection_params_json_t(code_id: u64, creator: &str, trading: Option<u64>) -> Value {
    json!({
        "code_id": code_id, "name": "Collection Name", "symbol": "COL",
        "info": {
            "creator": creator, "description": "Stargaze Monkeys",
            "image": "https://example.com/image.png",
            "external_link": "https://example.com/external.html",
            "explicit_content": false, "start_trading_time": trading.map(|t| t.to_string()),
            "royalty_info": { "payment_address": creator, "share": "0.1" }
        }
    })
}

/// The factory's ExecuteMsg::CreateMinter for this kind.
pub fn create_msg_json(app: &App, kind: FactoryKind, creator: &str, r: &CreateReq) -> Value {
    let now = chain::now(app);
    let start = now + r.start_in_secs * 1_000_000_000;
    let cp = collection_params_json_t(
        r.collection_code_id,
        creator,
        r.trading_after_start_secs.map(|t| start + t * 1_000_000_000),
    );
    let init = match kind {
        FactoryKind::Base => Value::Null,
        FactoryKind::Vending => json!({
            "base_token_uri": "ipfs://aldkfjads", "payment_address": null,
            "start_time": start.to_string(), "num_tokens": r.num_tokens.unwrap_or(0),
            "mint_price": jcoin(&r.mint_price.0, r.mint_price.1),
            "per_address_limit": r.per_address_limit, "whitelist": null }),
        FactoryKind::OpenEdition => json!({
            "nft_data": { "nft_data_type": "off_chain_metadata", "extension": null,
                          "token_uri": "ipfs://bafybeiavall5udkxkdtdm4djezoxrmfc6o5fn2ug3ymrlvibvwmwydgrkm/1.jpg" },
            "start_time": start.to_string(),
            "end_time": r.end_after_secs.map(|e| (start + e * 1_000_000_000).to_string()),
            "mint_price": jcoin(&r.mint_price.0, r.mint_price.1),
            "per_address_limit": r.per_address_limit, "num_tokens": r.num_tokens,
            "payment_address": null, "whitelist": null }),
        FactoryKind::TokenMerge => json!({
            "base_token_uri": "ipfs://aldkfjads", "start_time": start.to_string(),
            "num_tokens": r.num_tokens.unwrap_or(0),
            "mint_tokens": [ { "collection": "contract0", "amount": 1 } ],
            "per_address_limit": r.per_address_limit }),
    };
    json!({ "create_minter": { "init_msg": init, "collection_params": cp } })
}

#[derive(Clone, Debug)]
pub struct Created {
    pub minter: Addr,
    pub collection: Addr,
}

/// Execute CreateMinter on `factory` as `creator` (who must hold the attached funds).
/// Which minter variant results is decided by the factory's current `code_id` parameter.
pub fn create_minter(app: &mut App, kind: FactoryKind, factory: &Addr, creator: &str, r: &CreateReq) -> Result<Created, String> {
    let msg = create_msg_json(app, kind, creator, r);
    let funds: Vec<Coin> = r.funds.iter().map(|(d, a)| cosmwasm_std::coin(*a, d.clone())).collect();
    let res = exec_json(app, creator, factory, &msg, &funds)?;
    let addrs = instantiated_addrs(&res);
    if addrs.len() < 2 {
        return Err(format!("CreateMinter answered Ok but instantiated {} contracts", addrs.len()));
    }
    Ok(Created { minter: addrs[0].clone(), collection: addrs[1].clone() })
}

/// A chain with one factory of the right kind (default parameters) and one minter of the
/// requested variant created through it with an sg721-base collection.
pub struct MinterWorld {
    pub app: App,
    pub kind: MinterKind,
    pub factory: Addr,
    pub minter: Addr,
    pub collection: Addr,
    pub sg721_code_id: u64,
    pub minter_code_id: u64,
    pub factory_code_id: u64,
    pub params: FParams,
}

/// `tweak` may adjust the default parameters / request before use.
pub fn setup_minter_with(
    kind: MinterKind,
    tweak: impl FnOnce(&mut FParams, &mut CreateReq),
) -> Result<MinterWorld, String> {
    let mut app = chain::new_app();
    let sg721_code_id = app.store_code(chain::sg721_base());
    let minter_code_id = app.store_code(kind.code());
    let fk = kind.factory();
    let factory_code_id = app.store_code(fk.code());
    let mut params = default_params(fk, minter_code_id, &[sg721_code_id]);
    let mut req = CreateReq::standard(fk, sg721_code_id, &params.creation_fee);
    tweak(&mut params, &mut req);
    chain::mint_coins(&mut app, CREATOR, 1_000_000_000_000_000, NATIVE);
    let factory = instantiate_factory(&mut app, fk, factory_code_id, &params)?;
    let c = create_minter(&mut app, fk, &factory, CREATOR, &req)?;
    Ok(MinterWorld {
        app,
        kind,
        factory,
        minter: c.minter,
        collection: c.collection,
        sg721_code_id,
        minter_code_id,
        factory_code_id,
        params,
    })
}
pub fn setup_minter(kind: MinterKind) -> MinterWorld {
    setup_minter_with(kind, |_, _| {}).unwrap_or_else(|e| panic!("setup of {} through its factory failed: {}", kind.name(), e))
}

// ---------------------------------------------------------------- minter status

pub fn sudo_update_status(app: &mut App, minter: &Addr, v: bool, b: bool, e: bool) -> Result<AppResponse, String> {
    sudo_json(app, minter, &json!({ "update_status": { "is_verified": v, "is_blocked": b, "is_explicit": e } }))
}
pub fn q_status(app: &App, minter: &Addr) -> Result<(bool, bool, bool), String> {
    let v = query_json(app, minter, &json!({ "status": {} }))?;
    let s = v.get("status").ok_or_else(|| format!("bad answer {}", v))?;
    let g = |k: &str| s.get(k).and_then(|x| x.as_bool()).ok_or_else(|| format!("bad answer {}", v));
    Ok((g("is_verified")?, g("is_blocked")?, g("is_explicit")?))
}
