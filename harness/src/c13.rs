//! C13 — tiered whitelist stages never overlap and membership is stage-scoped.
//! Runs histories (instantiate, add/remove/update stage, member edits, clock) on the real
//! tiered-whitelist, tiered-whitelist-flex and tiered-whitelist-merkletree contracts,
//! observes Stages / Stage / Members / ActiveStage / ActiveStageId / IsActive / HasStarted /
//! HasEnded / Config / HasMember / Member at every boundary instant of every stage, prints
//! the histories as Coq terms for the model comparison, and evaluates the property text
//! directly on the answers (monitors; they share nothing with the Coq model).
#[path = "c13_world.rs"]
mod c13_world;
use crate::chain::GENESIS_NS;
use crate::util::*;
use crate::Args;
use c13_world::*;
use serde::{Deserialize, Serialize};
use std::collections::BTreeSet;

#[derive(Clone, Debug, Serialize, Deserialize, PartialEq, Eq, PartialOrd, Ord)]
pub struct Case {
    pub label: String,
    pub kind: Kind,
    pub now0: u64,
    pub inst: Inst,
    pub probes: Vec<Probe>,
    pub ops: Vec<Op>,
}

#[derive(Default)]
struct Outcome {
    coq: String,
    inst_ok: bool,
    violations: Vec<(String, String)>, // (key, what)
    hist: Vec<String>,
    distinct: Vec<String>,
    impl_steps: u64,
    sample: String,
}

// ======================= monitors (from the property text) =======================

fn expected_active(stages: &[StageResp], t: u64) -> Option<usize> {
    // "the earliest stage whose window (both ends inclusive) contains the current time"
    stages.iter().position(|(_, s, _)| s.start <= t && t <= s.end)
}

/// shape of the stage list: at most three, start before end, a stage never starts before
/// the previous one ends
fn monitor_shape(kind: Kind, so: &StaticObs, at_creation: bool, out: &mut Vec<(String, String)>) {
    let key = format!("C13:{}:stage-shape", kind.name());
    match &so.stages {
        Ok(l) => {
            if l.len() > 3 {
                out.push((key.clone(), format!("{} stages reported", l.len())));
            }
            if at_creation && l.is_empty() {
                out.push((key.clone(), "created with no stage".into()));
            }
            for (i, (id, s, _)) in l.iter().enumerate() {
                if *id != i as u64 {
                    out.push((key.clone(), format!("stage at position {} reports id {}", i, id)));
                }
                if !(s.start < s.end) {
                    out.push((key.clone(), format!("stage {} has start {} not before end {}", i, s.start, s.end)));
                }
                if i > 0 && s.start < l[i - 1].1.end {
                    out.push((key.clone(), format!("stage {} starts at {} before stage {} ends at {}", i, s.start, i - 1, l[i - 1].1.end)));
                }
            }
        }
        Err(_) => {
            // plain/flex answer "No stages found" once every stage was removed; at creation
            // there must be a list (the Merkle kind can fail only for a missing root)
            if at_creation && kind != Kind::Merkle {
                out.push((key, "Stages query fails right after creation".into()));
            }
            // a fourth stage must never be reachable by id either
        }
    }
    if so.stage_k.len() == 4 && so.stage_k[3].is_ok() {
        out.push((format!("C13:{}:stage-shape", kind.name()), "Stage{stage_id: 3} exists (a fourth stage)".into()));
    }
}

fn monitor_first_future(kind: Kind, so: &StaticObs, now: u64, what: &str, out: &mut Vec<(String, String)>) {
    if let Ok(l) = &so.stages {
        if let Some((_, s, _)) = l.first() {
            if !(s.start > now) {
                out.push((
                    format!("C13:{}:first-stage-not-future", kind.name()),
                    format!("{} accepted at {} with the first stage starting at {}", what, now, s.start),
                ));
            }
        }
    }
}

/// clock-dependent answers against the stage list and the per-stage member lists
fn monitor_time(kind: Kind, so: &StaticObs, to: &TimeObs, probes: &[Probe], hashes: &mut Ids, out: &mut Vec<(String, String)>) {
    let Ok(stages) = &so.stages else {
        // no stage list: nothing may be active, nobody may be a member
        if kind != Kind::Merkle {
            if to.active.is_some() || to.active_id != 0 || to.is_active || to.cfg.active {
                out.push((format!("C13:{}:active-stage", kind.name()), format!("no stages but something is active at {}", to.t)));
            }
            for (j, h) in to.has.iter().enumerate() {
                if *h != Ok(false) {
                    out.push((format!("C13:{}:has-member", kind.name()), format!("no stages but HasMember({}) = {:?}", probes[j].member, h)));
                }
            }
        }
        return;
    };
    let exp = expected_active(stages, to.t);
    let containing: Vec<usize> = stages.iter().enumerate().filter(|(_, (_, s, _))| s.contains(to.t)).map(|(i, _)| i).collect();
    let key = format!("C13:{}:active-stage", kind.name());
    match exp {
        Some(i) => {
            if to.active.as_ref() != Some(&stages[i].1) {
                out.push((key.clone(), format!("at {} windows {:?} contain the instant; ActiveStage = {:?}, expected stage {}", to.t, containing, to.active, i)));
            }
            if to.active_id != i as u64 + 1 {
                out.push((key.clone(), format!("at {} ActiveStageId = {}, expected {}", to.t, to.active_id, i + 1)));
            }
            if !to.is_active {
                out.push((key.clone(), format!("at {} IsActive = false inside stage {}", to.t, i)));
            }
        }
        None => {
            if to.active.is_some() || to.active_id != 0 || to.is_active {
                out.push((key.clone(), format!("at {} no window contains the instant but ActiveStage = {:?}, id {}, IsActive {}", to.t, to.active, to.active_id, to.is_active)));
            }
        }
    }
    // price / per-address limit / window reported by Config come from the active stage
    let ckey = format!("C13:{}:config", kind.name());
    match exp {
        Some(i) => {
            let s = &stages[i].1;
            let c = &to.cfg;
            if !c.active || c.start != s.start || c.end != s.end || c.denom != s.denom || c.price != s.price || (kind != Kind::Flex && c.pal != s.pal as u64) {
                out.push((ckey, format!("at {} stage {} is active ({:?}) but Config = {:?}", to.t, i, s, c)));
            }
        }
        None => {
            if to.cfg.active {
                out.push((ckey, format!("at {} no stage is active but Config.is_active", to.t)));
            }
        }
    }
    // membership comes from the active stage only; no active stage, no member
    let hkey = format!("C13:{}:has-member", kind.name());
    for (j, p) in probes.iter().enumerate() {
        match kind {
            Kind::Merkle => {
                let fold = p.fold().map(|s| hashes.id(&s));
                let want = match exp {
                    Some(i) => fold.is_some() && fold == Some(stages[i].2),
                    None => false,
                };
                if want && to.has[j] != Ok(true) {
                    out.push((hkey.clone(), format!("at {} member {} proves against the root of active stage {} but HasMember = {:?}", to.t, p.member, exp.unwrap(), to.has[j])));
                }
                if !want && to.has[j] == Ok(true) {
                    out.push((hkey.clone(), format!("at {} HasMember({}, proof {:?}) = true; active stage {:?}", to.t, p.member, p.proof, exp)));
                }
            }
            _ => {
                let stored = |i: usize| -> Option<u64> {
                    so.members_k[i].as_ref().ok().and_then(|l| l.iter().find(|(a, _)| *a == p.member).map(|(_, v)| *v))
                };
                let want = exp.and_then(stored);
                if to.has[j] != Ok(want.is_some()) {
                    out.push((hkey.clone(), format!("at {} active stage {:?}, member {} stored there: {}; HasMember = {:?}", to.t, exp, p.member, want.is_some(), to.has[j])));
                }
                if kind == Kind::Flex {
                    // the per-address limit of the flex kind is the stored mint_count of the active stage
                    let ok = match (&to.member[j], want) {
                        (Ok(v), Some(w)) => *v == w,
                        (Err(_), None) => true,
                        _ => false,
                    };
                    if !ok {
                        out.push((format!("C13:{}:member-limit", kind.name()), format!("at {} active stage {:?}, member {} stored limit {:?}; Member = {:?}", to.t, exp, p.member, want, to.member[j])));
                    }
                }
            }
        }
    }
}

/// "A stage can be removed only before it starts, and removing it removes every later
/// stage together with all their members."
fn monitor_remove(kind: Kind, before: &StaticObs, after: &StaticObs, id: u32, now: u64, out: &mut Vec<(String, String)>) {
    let key = format!("C13:{}:remove-stage", kind.name());
    let Ok(b) = &before.stages else {
        out.push((key, "remove_stage accepted without any stage".into()));
        return;
    };
    let id = id as usize;
    if id >= b.len() {
        out.push((key, format!("remove_stage({}) accepted with {} stages", id, b.len())));
        return;
    }
    if !(now < b[id].1.start) {
        out.push((key.clone(), format!("remove_stage({}) accepted at {} but the stage starts at {}", id, now, b[id].1.start)));
    }
    let a: Vec<StageResp> = after.stages.clone().unwrap_or_default();
    if a.len() != id || a.iter().zip(b.iter()).any(|(x, y)| x != y) {
        out.push((key.clone(), format!("remove_stage({}) of {} stages left {:?}", id, b.len(), a)));
    }
    for j in 0..4 {
        let left = after.members_k[j].clone().unwrap_or_default();
        if j >= id && !left.is_empty() {
            out.push((key.clone(), format!("remove_stage({}) left members {:?} stored under stage {}", id, left, j)));
        }
        if j < id && after.members_k[j] != before.members_k[j] {
            out.push((key.clone(), format!("remove_stage({}) changed the members of earlier stage {}", id, j)));
        }
    }
}

/// a stage that was just added holds exactly the members given with it (a freed stage id
/// must not bring former members back), and the earlier stages keep theirs
fn monitor_added(kind: Kind, before: &StaticObs, after: &StaticObs, given: &[(u64, u32)], out: &mut Vec<(String, String)>) {
    if kind == Kind::Merkle {
        return;
    }
    let key = format!("C13:{}:added-stage-members", kind.name());
    let Ok(a) = &after.stages else { return };
    if a.is_empty() {
        return;
    }
    let id = a.len() - 1;
    // the given list as a set: first occurrence of an address counts
    let mut want: Vec<(u64, u64)> = vec![];
    for (addr, c) in given {
        if !want.iter().any(|(x, _)| x == addr) {
            want.push((*addr, if kind == Kind::Flex { *c as u64 } else { 1 }));
        }
    }
    want.sort();
    let got = after.members_k[id].clone().unwrap_or_default();
    if got != want {
        let extra: Vec<u64> = got.iter().filter(|(x, _)| !want.iter().any(|(y, _)| y == x)).map(|x| x.0).collect();
        out.push((key.clone(), format!("stage {} was added with {} distinct addresses but stores {} ({} of them never given, e.g. {:?})", id, want.len(), got.len(), extra.len(), extra.iter().take(3).collect::<Vec<_>>())));
    }
    for j in 0..id.min(4) {
        if after.members_k[j] != before.members_k[j] {
            out.push((key.clone(), format!("add_stage changed the members of stage {}", j)));
        }
    }
}

/// one page: ascending addresses strictly after `start_after`, all from the stage's list,
/// no more than min(limit or 25, 100) and not fewer while entries remain
fn monitor_page(kind: Kind, so: &StaticObs, id: u32, start_after: Option<u64>, limit: Option<u32>, r: &Result<Vec<(u64, u64)>, String>, out: &mut Vec<(String, String)>) {
    if kind == Kind::Merkle || id > 3 {
        return;
    }
    let (Ok(all), Ok(page)) = (&so.members_k[id as usize], r) else { return };
    let want: Vec<(u64, u64)> = all.iter().filter(|(a, _)| start_after.map_or(true, |s| *a > s)).take(limit.unwrap_or(25).min(100) as usize).cloned().collect();
    if *page != want {
        out.push((format!("C13:{}:members-page", kind.name()), format!("Members{{stage {}, start_after {:?}, limit {:?}}} returned {} entries, expected {}", id, start_after, limit, page.len(), want.len())));
    }
}

// ======================= the admin's ledger =======================
// What the admin set, stage by stage: identity (name), window, price, limits and the MEMBER
// LIST given for that stage.  It is updated only by accepted operations with the documented
// meaning (AddStage appends; RemoveStage(i) drops stage i and every later one;
// UpdateStageConfig edits in place; member edits touch the named stage).  Every answer of
// the contract is held against it, so an implementation that re-orders, re-keys or mixes up
// stages is seen even when its own queries agree with each other.

#[derive(Clone, Debug)]
struct LStage {
    st: St,
    members: Vec<(u64, u64)>, // ascending by address
    root: Option<u64>,        // Merkle: id of the root string given for this position
}
#[derive(Clone, Debug)]
struct Ledger {
    kind: Kind,
    stages: Vec<LStage>,
}
fn put_member(l: &mut Vec<(u64, u64)>, a: u64, v: u64, overwrite: bool) {
    match l.binary_search_by_key(&a, |x| x.0) {
        Ok(i) => {
            if overwrite {
                l[i].1 = v;
            }
        }
        Err(i) => l.insert(i, (a, v)),
    }
}
impl Ledger {
    fn val(&self, c: u32) -> u64 {
        if self.kind == Kind::Flex { c as u64 } else { 1 }
    }
    fn created(kind: Kind, inst: &Inst, hashes: &mut Ids) -> Ledger {
        let mut l = Ledger { kind, stages: vec![] };
        for (k, st) in inst.stages.iter().enumerate() {
            let mut members = vec![];
            if kind != Kind::Merkle {
                for (a, c) in inst.members.get(k).cloned().unwrap_or_default() {
                    // a repeated address is one member; the flex kind keeps the last count given
                    put_member(&mut members, a, l.val(c), true);
                }
            }
            let root = if kind == Kind::Merkle { inst.roots.get(k).map(|r| hashes.id(&r.string().to_lowercase())) } else { None };
            l.stages.push(LStage { st: st.clone(), members, root });
        }
        l
    }
    /// an accepted operation; returns a violation when the documented rule refuses it
    fn apply(&mut self, op: &Op) -> Option<(String, String)> {
        let mut viol = None;
        match op {
            Op::AddStage { st, members, .. } => {
                if let Some(last) = self.stages.last() {
                    if st.start < last.st.end {
                        viol = Some((
                            format!("C13:{}:add-stage-out-of-order-accepted", self.kind.name()),
                            format!("add_stage of window [{}, {}] was accepted although the last stage ends at {} (a stage is appended and never starts before the previous one ends)", st.start, st.end, last.st.end),
                        ));
                    }
                }
                let mut ms = vec![];
                if self.kind != Kind::Merkle {
                    for (a, c) in members {
                        put_member(&mut ms, *a, self.val(*c), false);
                    }
                }
                self.stages.push(LStage { st: st.clone(), members: ms, root: None });
            }
            Op::RemoveStage { id, .. } => self.stages.truncate(*id as usize),
            Op::Update { id, name, start, end, price, pal, mcl, .. } => {
                if let Some(ls) = self.stages.get_mut(*id as usize) {
                    if let Some(n) = name { ls.st.name = *n; }
                    if let Some(t) = start { ls.st.start = *t; }
                    if let Some(t) = end { ls.st.end = *t; }
                    if let Some((d, a)) = price { ls.st.denom = *d; ls.st.price = *a; }
                    if let Some(p) = pal { ls.st.pal = *p; }
                    if let Some(m) = mcl { ls.st.mcl = Some(*m); }
                }
            }
            Op::AddMembers { id, members, .. } => {
                let kind_val: Vec<(u64, u64)> = members.iter().map(|(a, c)| (*a, self.val(*c))).collect();
                if let Some(ls) = self.stages.get_mut(*id as usize) {
                    for (a, v) in kind_val {
                        put_member(&mut ls.members, a, v, false);
                    }
                }
            }
            Op::RemoveMembers { id, members, .. } => {
                if let Some(ls) = self.stages.get_mut(*id as usize) {
                    ls.members.retain(|(a, _)| !members.contains(a));
                }
            }
            Op::Time(_) | Op::Sweep | Op::Page { .. } => {}
        }
        viol
    }
    fn roots_complete(&self) -> bool {
        self.kind != Kind::Merkle || self.stages.iter().all(|s| s.root.is_some())
    }
    fn resp(&self, i: usize) -> StageResp {
        let s = &self.stages[i];
        (i as u64, s.st.clone(), if self.kind == Kind::Merkle { s.root.unwrap_or(u64::MAX) } else { s.members.len() as u64 })
    }
    /// the ledger in the shape of the static answers (for the clock monitors)
    fn as_obs(&self) -> StaticObs {
        let stages = if self.stages.is_empty() || !self.roots_complete() {
            Err("no stage list".to_string())
        } else {
            Ok((0..self.stages.len()).map(|i| self.resp(i)).collect())
        };
        StaticObs {
            stages,
            stage_k: vec![],
            members_k: (0..4).map(|j| Ok(self.stages.get(j).map(|s| s.members.clone()).unwrap_or_default())).collect(),
            all_info: vec![],
            stage_info: vec![],
        }
    }
}

/// every static answer against the ledger
fn monitor_ledger(l: &Ledger, so: &StaticObs, probes: &[Probe], out: &mut Vec<(String, String)>) {
    let kind = l.kind;
    let skey = format!("C13:{}:ledger-stages", kind.name());
    let mkey = format!("C13:{}:ledger-members", kind.name());
    let n = l.stages.len();
    // Stages / Stage(i)
    if l.roots_complete() {
        let want: Vec<StageResp> = (0..n).map(|i| l.resp(i)).collect();
        match &so.stages {
            Ok(got) if *got == want => {}
            Err(_) if n == 0 => {}
            other => out.push((skey.clone(), format!("Stages answers {:?}; the admin set {:?}", other.as_ref().map(|v| v.iter().map(|x| (x.0, x.1.name, x.1.start, x.1.end, x.2)).collect::<Vec<_>>()), want.iter().map(|x| (x.0, x.1.name, x.1.start, x.1.end, x.2)).collect::<Vec<_>>()))),
        }
        for i in 0..4usize {
            match (&so.stage_k[i], i < n) {
                (Ok(got), true) if *got == want[i] => {}
                (Err(_), false) => {}
                (other, _) => out.push((skey.clone(), format!("Stage({}) answers {:?}; the admin set {:?}", i, other, want.get(i)))),
            }
        }
    }
    if kind == Kind::Merkle {
        return;
    }
    // Members(stage): exactly the addresses listed for that stage
    for j in 0..4usize {
        let want = l.stages.get(j).map(|s| s.members.clone()).unwrap_or_default();
        match &so.members_k[j] {
            Ok(got) if *got == want => {}
            other => {
                let got = other.clone().unwrap_or_default();
                let foreign: Vec<u64> = got.iter().filter(|x| !want.iter().any(|y| y.0 == x.0)).map(|x| x.0).collect();
                let missing: Vec<u64> = want.iter().filter(|x| !got.iter().any(|y| y.0 == x.0)).map(|x| x.0).collect();
                out.push((mkey.clone(), format!("Members(stage {}) lists {} entries, the admin listed {} for it (not listed for it: {:?}; missing: {:?})", j, got.len(), want.len(), foreign.iter().take(4).collect::<Vec<_>>(), missing.iter().take(4).collect::<Vec<_>>())));
            }
        }
    }
    // StageMemberInfo / AllStageMemberInfo of the tracked addresses
    for (pi, p) in probes.iter().enumerate() {
        let info = |i: usize| -> Info {
            let stored = l.stages.get(i).and_then(|s| s.members.iter().find(|x| x.0 == p.member).map(|x| x.1));
            let limit = match kind {
                Kind::Flex => stored.unwrap_or(0),
                _ => l.stages.get(i).map(|s| s.st.pal as u64).unwrap_or(0),
            };
            (i as u64, stored.is_some(), limit)
        };
        if let Some(r) = so.all_info.get(pi) {
            let want: Vec<Info> = (0..n).map(|i| info(i)).collect();
            if r.as_ref().ok() != Some(&want) {
                out.push((mkey.clone(), format!("AllStageMemberInfo({}) = {:?}; by the admin's lists {:?}", p.member, r, want)));
            }
        }
        if let Some(rs) = so.stage_info.get(pi) {
            for (i, r) in rs.iter().enumerate() {
                let ok = match (r, i < n, kind) {
                    (Ok(got), true, _) => *got == info(i),
                    (Ok(got), false, _) => !got.1, // a stage that does not exist has no member
                    (Err(_), false, _) => true,
                    (Err(_), true, _) => false,
                };
                if !ok {
                    out.push((mkey.clone(), format!("StageMemberInfo(stage {}, {}) = {:?}; by the admin's lists {:?}", i, p.member, r, if i < n { Some(info(i)) } else { None })));
                }
            }
        }
    }
}

// ======================= running one case =======================

fn instants(so: &StaticObs, now: u64) -> Vec<u64> {
    let mut v = BTreeSet::new();
    v.insert(now);
    if let Ok(l) = &so.stages {
        for (_, s, _) in l {
            for b in [s.start, s.end] {
                v.insert(b.saturating_sub(1));
                v.insert(b);
                v.insert(b.saturating_add(1));
            }
        }
    }
    v.into_iter().collect()
}

fn run_case(c: &Case) -> Outcome {
    let mut o = Outcome::default();
    let k = c.kind;
    let mut w = World::new(k, c.now0);
    let r = w.instantiate(&c.inst);
    o.inst_ok = r.is_ok();
    o.impl_steps += 1;
    o.hist.push(format!("{}:instantiate:{}", k.name(), if r.is_ok() { "ok" } else { "err" }));
    let inst_coq = w.inst_coq(&c.inst);
    o.distinct.push(format!("{} {} {}", k.coq(), c.now0, inst_coq));
    let mut steps: Vec<String> = vec![];
    if r.is_ok() {
        let mut cur = w.static_obs(&c.probes);
        let mut ledger = Ledger::created(k, &c.inst, &mut w.hashes);
        monitor_ledger(&ledger, &cur, &c.probes, &mut o.violations);
        monitor_shape(k, &cur, true, &mut o.violations);
        monitor_first_future(k, &cur, c.now0, "instantiate", &mut o.violations);
        for op in &c.ops {
            match op {
                Op::Time(t) => w.set_time(*t),
                Op::Page { id, start_after, limit } => {
                    let r = w.members_page(*id, *start_after, *limit);
                    o.impl_steps += 1;
                    o.hist.push(format!("{}:members_page:{}", k.name(), if r.is_ok() { "ok" } else { "err" }));
                    monitor_page(k, &cur, *id, *start_after, *limit, &r, &mut o.violations);
                    steps.push(format!(
                        "SPage {} {} {} {}",
                        id,
                        coq_opt_n(*start_after),
                        coq_opt_n(limit.map(|x| x as u64)),
                        match &r {
                            Ok(v) => format!("(Ok {})", coq_list(&v.iter().map(|(a, c)| format!("({},{})", a, c)).collect::<Vec<_>>())),
                            Err(_) => "Err".to_string(),
                        }
                    ));
                }
                Op::Sweep => {
                    steps.push(cur.coq());
                    if k != Kind::Merkle {
                        steps.push(cur.info_coq());
                    }
                    let now = w.now();
                    let mut groups: Vec<(Vec<u64>, String)> = vec![];
                    // the clock answers are held against the admin's ledger, at the boundary
                    // instants of the ledger's windows and of the windows the contract reports
                    let lobs = ledger.as_obs();
                    let mut ts: BTreeSet<u64> = instants(&cur, now).into_iter().collect();
                    ts.extend(instants(&lobs, now));
                    for t in ts {
                        w.set_time(t);
                        let to = w.time_obs(&c.probes);
                        o.impl_steps += 1;
                        monitor_time(k, &lobs, &to, &c.probes, &mut w.hashes, &mut o.violations);
                        let body = to.body_coq();
                        o.distinct.push(format!("{} {:?} {} {}", k.coq(), cur.stages.as_ref().ok(), t, body));
                        if o.sample.is_empty() && to.active.is_some() {
                            o.sample = format!("at {}: active_stage_id {} has_member {:?} config {:?}", t, to.active_id, to.has, to.cfg);
                        }
                        // consecutive instants with identical answers share one step
                        match groups.last_mut() {
                            Some((ts, b)) if *b == body => ts.push(t),
                            _ => groups.push((vec![t], body)),
                        }
                    }
                    for (ts, body) in groups {
                        steps.push(format!("STime {} {}", coq_list(&ts.iter().map(|t| t.to_string()).collect::<Vec<_>>()), body));
                    }
                    w.set_time(now);
                    o.hist.push(format!("{}:sweep:ok", k.name()));
                }
                _ => {
                    let now = w.now();
                    let d0 = w.digest();
                    let r = w.exec(op);
                    o.impl_steps += 1;
                    o.hist.push(format!("{}:{}:{}", k.name(), op.kind_name(), if r.is_ok() { "ok" } else { "err" }));
                    let term = format!("SExec {} {} {}", now, w.op_coq(op), coq_bool(r.is_ok()));
                    let sender_admin = w.op_json(op).map(|(s, _)| c.inst.admins.contains(&s)).unwrap_or(false);
                    if sender_admin && !(k == Kind::Merkle && !matches!(op, Op::Update { .. })) {
                        o.distinct.push(format!("{} {:?} {}", k.coq(), cur.stages.as_ref().ok(), term));
                    }
                    steps.push(term);
                    if r.is_ok() {
                        let after = w.static_obs(&c.probes);
                        if let Some(v) = ledger.apply(op) {
                            o.violations.push(v);
                        }
                        monitor_ledger(&ledger, &after, &c.probes, &mut o.violations);
                        monitor_shape(k, &after, false, &mut o.violations);
                        match op {
                            Op::AddStage { members, .. } => {
                                monitor_first_future(k, &after, now, "add_stage", &mut o.violations);
                                monitor_added(k, &cur, &after, members, &mut o.violations);
                            }
                            Op::RemoveStage { id, .. } => {
                                monitor_remove(k, &cur, &after, *id, now, &mut o.violations);
                                // the contract-wide count follows the members that are left
                                if k != Kind::Merkle {
                                    let left: usize = after.members_k.iter().map(|r| r.as_ref().map(|l| l.len()).unwrap_or(0)).sum();
                                    let num = w.q(serde_json::json!({"config": {}})).ok().and_then(|c| c["num_members"].as_u64());
                                    if num != Some(left as u64) {
                                        o.violations.push((
                                            format!("C13:{}:remove-stage", k.name()),
                                            format!("after remove_stage({}) {} members are stored but Config.num_members = {:?}", id, left, num),
                                        ));
                                    }
                                }
                            }
                            _ => {}
                        }
                        cur = after;
                    } else if w.digest() != d0 {
                        o.violations.push((
                            format!("C13:{}:rejected-call-changed-state", k.name()),
                            format!("{:?} was rejected but storage changed", op),
                        ));
                    }
                }
            }
        }
    }
    let probes = w.probes_coq(&c.probes);
    o.coq = format!("C13Case {} {} {} {} {} {}", k.coq(), c.now0, inst_coq, coq_bool(o.inst_ok), probes, coq_list(&steps));
    o
}

/// greedy one-at-a-time removal of ops while the same violation key still shows
fn shrink(c: &Case, key: &str) -> Case {
    let mut best = c.clone();
    let mut i = best.ops.len();
    while i > 0 {
        i -= 1;
        let mut t = best.clone();
        t.ops.remove(i);
        if run_case(&t).violations.iter().any(|(k, _)| k == key) {
            best = t;
        }
    }
    best
}

// ======================= generators =======================

const T0: u64 = GENESIS_NS + 1_000_000_000;

fn fee(kind: Kind, limit: u32) -> u64 {
    match kind {
        Kind::Merkle => 1_000_000_000,
        _ => ((limit as u64 + 999) / 1000) * 100_000_000,
    }
}
fn norm(kind: Kind, mut s: St) -> St {
    if kind == Kind::Flex {
        s.pal = 0;
    }
    s
}
fn mk_stage(kind: Kind, name: u64, start: u64, end: u64) -> St {
    norm(kind, St { name, start, end, denom: 0, price: 100 + 7 * name, pal: 1 + name as u32, mcl: if name % 2 == 1 { Some(50 + name as u32) } else { None } })
}
/// stages from window offsets (ns after T0), member m_k = 100+k in stage k (limit 2+k), 110 in all
fn windows(kind: Kind, offs: &[(i64, i64)]) -> Vec<St> {
    offs.iter().enumerate().map(|(i, (a, b))| mk_stage(kind, i as u64, (T0 as i64 + a) as u64, (T0 as i64 + b) as u64)).collect()
}
fn default_members(n: usize) -> Vec<Vec<(u64, u32)>> {
    (0..n).map(|k| vec![(100 + k as u64, 2 + k as u32), (110, 7 + k as u32)]).collect()
}
fn roots_for(members: &[Vec<(u64, u32)>]) -> Vec<Root> {
    members
        .iter()
        .enumerate()
        .map(|(k, l)| match l.len() {
            0 => Root::Leaf(900 + k as u64),
            1 => Root::Leaf(l[0].0),
            _ => Root::Pair(l[0].0, l[1].0),
        })
        .collect()
}
fn default_probes(kind: Kind) -> Vec<Probe> {
    let mut v = vec![
        Probe { member: 100, proof: vec![] },
        Probe { member: 101, proof: vec![] },
        Probe { member: 102, proof: vec![] },
        Probe { member: 110, proof: vec![] },
        Probe { member: 999, proof: vec![] },
    ];
    if kind == Kind::Merkle {
        v = vec![
            Probe { member: 100, proof: vec![110] },
            Probe { member: 101, proof: vec![110] },
            Probe { member: 102, proof: vec![110] },
            Probe { member: 110, proof: vec![101] },
            Probe { member: 100, proof: vec![] },
            Probe { member: 999, proof: vec![110] },
            Probe { member: 100, proof: vec![-1] },
        ];
    }
    v
}
fn mk_inst(kind: Kind, stages: Vec<St>, members: Vec<Vec<(u64, u32)>>) -> Inst {
    let limit = 20;
    Inst { roots: roots_for(&members), stages, members, limit, whale: None, admins: vec![ADMIN], paid: fee(kind, limit) }
}
fn case(label: &str, kind: Kind, inst: Inst, ops: Vec<Op>) -> Case {
    Case { label: label.to_string(), kind, now0: T0, inst, probes: default_probes(kind), ops }
}
fn at(off: i64) -> u64 {
    (T0 as i64 + off) as u64
}

const TOUCH3: [(i64, i64); 3] = [(10, 20), (20, 30), (30, 40)];
const GAP3: [(i64, i64); 3] = [(10, 20), (25, 30), (35, 40)];

/// instantiate shapes: every guard of validate_stages and of instantiate at bound-1/bound/bound+1
fn gen_inst_probes(kind: Kind, lits: &[u64], out: &mut Vec<Case>) {
    let mut shapes: Vec<(String, Vec<(i64, i64)>)> = vec![];
    for n in 0..=4usize {
        shapes.push((format!("count-{}", n), (0..n as i64).map(|i| (10 + 20 * i, 20 + 20 * i)).collect()));
    }
    for d in [-1i64, 0, 1] {
        shapes.push((format!("second-starts-at-first-end{:+}", d), vec![(10, 20), (20 + d, 30)]));
        shapes.push((format!("third-starts-at-second-end{:+}", d), vec![(10, 20), (20, 30), (30 + d, 40)]));
        shapes.push((format!("third-starts-at-first-end{:+}", d), vec![(10, 20), (12, 15), (20 + d, 40)]));
        shapes.push((format!("first-start-now{:+}", d), vec![(d, 20), (20, 30)]));
        shapes.push((format!("single-first-start-now{:+}", d), vec![(d, 20)]));
        for k in 0..3usize {
            let mut w = TOUCH3.to_vec();
            w[k].1 = w[k].0 + d;
            // keep the later stages clear of the edited end so that only this guard decides
            shapes.push((format!("stage{}-end-at-start{:+}", k, d), w));
        }
    }
    shapes.push(("reversed-order".into(), vec![(30, 40), (20, 30), (10, 20)]));
    shapes.push(("swapped-last-two".into(), vec![(10, 20), (30, 40), (20, 30)]));
    shapes.push(("nested".into(), vec![(10, 40), (20, 30)]));
    shapes.push(("identical".into(), vec![(10, 20), (10, 20)]));
    shapes.push(("second-in-the-past".into(), vec![(10, 20), (-20, -10)]));
    shapes.push(("all-in-the-past".into(), vec![(-40, -30), (-20, -10)]));
    shapes.push(("later-stage-started-first-not".into(), vec![(10, 20), (-5, 30)]));
    for (name, offs) in shapes {
        let st = windows(kind, &offs);
        let n = st.len();
        out.push(case(&format!("inst:{}", name), kind, mk_inst(kind, st, default_members(n)), vec![Op::Sweep]));
    }
    // per-address limit bounds on each position
    let mut pals: BTreeSet<u32> = [0u32, 1, 29, 30, 31, 49, 50, 51, u32::MAX].into_iter().collect();
    for l in lits {
        for d in [l.saturating_sub(1), *l, l + 1] {
            if d <= u32::MAX as u64 {
                pals.insert(d as u32);
            }
        }
    }
    if kind != Kind::Flex {
        for pos in 0..2usize {
            for p in &pals {
                let mut st = windows(kind, &TOUCH3[..2]);
                st[pos].pal = *p;
                out.push(case(&format!("inst:pal{}-at-{}", p, pos), kind, mk_inst(kind, st, default_members(2)), vec![]));
            }
        }
    }
    // denoms
    let mut st = windows(kind, &TOUCH3);
    st[2].denom = 1;
    out.push(case("inst:denom-differs", kind, mk_inst(kind, st, default_members(3)), vec![]));
    let mut st = windows(kind, &TOUCH3);
    for s in st.iter_mut() {
        s.denom = 1;
    }
    out.push(case("inst:denom-all-other", kind, mk_inst(kind, st, default_members(3)), vec![Op::Sweep]));
    // member limit and fee
    for (limit, dpaid) in [(0u32, 0i64), (1, 0), (1000, 0), (1001, 0), (30000, 0), (30001, 0), (20, -1), (20, 1), (20, i64::MIN)] {
        let mut i = mk_inst(kind, windows(kind, &TOUCH3[..2]), default_members(2));
        i.limit = limit;
        i.paid = if dpaid == i64::MIN { 0 } else { (fee(kind, limit.max(1)) as i64 + dpaid) as u64 };
        out.push(case(&format!("inst:limit{}-paid{:+}", limit, if dpaid == i64::MIN { -999 } else { dpaid }), kind, i, vec![Op::Sweep]));
    }
    // member lists vs stage count; duplicates (C11:tiered-counts, repaired by 034dca7)
    let lists: Vec<(&str, usize, Vec<Vec<(u64, u32)>>)> = vec![
        ("lists-fewer", 2, vec![vec![(100, 1)]]),
        ("lists-more", 1, vec![vec![(100, 1)], vec![(101, 1), (102, 2)]]),
        ("lists-none", 1, vec![]),
        ("dup-in-list", 1, vec![vec![(100, 1), (100, 2)]]),
        ("dup-across-stages", 2, vec![vec![(100, 1), (110, 3)], vec![(100, 2), (110, 4)]]),
        ("over-limit", 1, vec![(100..125).map(|a| (a, 1)).collect()]),
    ];
    for (name, n, ms) in lists {
        let mut i = mk_inst(kind, windows(kind, &TOUCH3[..n]), ms);
        if name == "lists-more" {
            i.limit = 2;
            i.paid = fee(kind, 2);
        }
        out.push(case(&format!("inst:{}", name), kind, i, vec![Op::Sweep]));
    }
    if kind == Kind::Flex {
        for (whale, cnt) in [(Some(20u32), 1u32), (Some(21), 21), (Some(21), 22), (None, 4000)] {
            let mut i = mk_inst(kind, windows(kind, &TOUCH3[..1]), vec![vec![(100, cnt)]]);
            i.whale = whale;
            out.push(case(&format!("inst:whale{:?}-count{}", whale, cnt), kind, i, vec![Op::Sweep]));
        }
    }
    if kind == Kind::Merkle {
        for nroots in 0..=4usize {
            let mut i = mk_inst(kind, windows(kind, &TOUCH3), default_members(3));
            i.roots = (0..nroots).map(|k| Root::Pair(100 + k as u64, 110)).collect();
            out.push(case(&format!("inst:roots-{}", nroots), kind, i, vec![Op::Sweep]));
        }
        let mut i = mk_inst(kind, windows(kind, &TOUCH3), default_members(3));
        i.roots[1] = Root::Bad;
        out.push(case("inst:bad-root", kind, i, vec![]));
        // a root spelled in upper-case hex denotes the same hash (fix c2c314c)
        let mut i = mk_inst(kind, windows(kind, &GAP3), default_members(3));
        i.roots = vec![Root::LeafUpper(100), Root::Pair(101, 110), Root::LeafUpper(102)];
        out.push(case("inst:roots-upper-case", kind, i, vec![Op::Sweep]));
        // same root under two stages: only the clock decides
        let mut i = mk_inst(kind, windows(kind, &GAP3), default_members(3));
        i.roots = vec![Root::Pair(100, 110), Root::Leaf(100), Root::Pair(100, 110)];
        out.push(case("inst:roots-shared", kind, i, vec![Op::Sweep]));
    }
    // non-admin creator is fine; two admins
    let mut i = mk_inst(kind, windows(kind, &TOUCH3), default_members(3));
    i.admins = vec![3, ADMIN];
    out.push(case("inst:two-admins", kind, i, vec![Op::RemoveStage { sender: 3, id: 2 }, Op::Sweep]));
}

fn upd(sender: u64, id: u32) -> Op {
    Op::Update { sender, id, name: None, start: None, end: None, price: None, pal: None, mcl: None }
}

/// execute guards, each at bound-1/bound/bound+1, every sender role
fn gen_exec_probes(kind: Kind, out: &mut Vec<Case>) {
    let one = || mk_inst(kind, windows(kind, &TOUCH3[..1]), default_members(1));
    let two = || mk_inst(kind, windows(kind, &TOUCH3[..2]), default_members(2));
    let touch3 = || mk_inst(kind, windows(kind, &TOUCH3), default_members(3));
    let gap3 = || mk_inst(kind, windows(kind, &GAP3), default_members(3));
    let new_members = vec![(105u64, 3u32), (110, 9), (105, 4)];
    // ---- add_stage
    for d in [-1i64, 0, 1] {
        // start relative to the previous end; own end relative to own start
        out.push(case(&format!("add:start-at-prev-end{:+}", d), kind, one(), vec![
            Op::AddStage { sender: ADMIN, st: mk_stage(kind, 5, at(20 + d), at(30)), members: new_members.clone() }, Op::Sweep]));
        out.push(case(&format!("add:end-at-start{:+}", d), kind, one(), vec![
            Op::AddStage { sender: ADMIN, st: mk_stage(kind, 5, at(25), at(25 + d)), members: vec![] }, Op::Sweep]));
        // the clock against the FIRST stage's start (add_stage re-validates the whole list)
        out.push(case(&format!("add:clock-at-first-start{:+}", d), kind, one(), vec![
            Op::Time(at(10 + d)), Op::AddStage { sender: ADMIN, st: mk_stage(kind, 5, at(25), at(30)), members: vec![] }, Op::Sweep]));
        // third stage against the second
        out.push(case(&format!("add:third-at-second-end{:+}", d), kind, two(), vec![
            Op::AddStage { sender: ADMIN, st: mk_stage(kind, 5, at(30 + d), at(50)), members: new_members.clone() }, Op::Sweep]));
    }
    out.push(case("add:fourth", kind, touch3(), vec![Op::AddStage { sender: ADMIN, st: mk_stage(kind, 5, at(50), at(60)), members: vec![] }, Op::Sweep]));
    out.push(case("add:third-then-fourth", kind, two(), vec![
        Op::AddStage { sender: ADMIN, st: mk_stage(kind, 5, at(30), at(40)), members: vec![] },
        Op::AddStage { sender: ADMIN, st: mk_stage(kind, 6, at(40), at(50)), members: vec![] }, Op::Sweep]));
    out.push(case("add:stranger", kind, one(), vec![Op::AddStage { sender: STRANGER, st: mk_stage(kind, 5, at(25), at(30)), members: vec![] }, Op::Sweep]));
    out.push(case("add:before-first", kind, one(), vec![Op::AddStage { sender: ADMIN, st: mk_stage(kind, 5, at(2), at(8)), members: vec![] }, Op::Sweep]));
    let mut s = mk_stage(kind, 5, at(25), at(30));
    s.denom = 1;
    out.push(case("add:other-denom", kind, one(), vec![Op::AddStage { sender: ADMIN, st: s, members: vec![] }, Op::Sweep]));
    if kind != Kind::Flex {
        for p in [0u32, 1, 30, 31, 50, 51] {
            let mut s = mk_stage(kind, 5, at(25), at(30));
            s.pal = p;
            out.push(case(&format!("add:pal{}", p), kind, one(), vec![Op::AddStage { sender: ADMIN, st: s, members: vec![] }, Op::Sweep]));
        }
    }
    // member limit while adding a stage; flex whale cap
    let mut i = one();
    i.limit = 3;
    i.paid = fee(kind, 3);
    out.push(case("add:members-hit-limit", kind, i.clone(), vec![
        Op::AddStage { sender: ADMIN, st: mk_stage(kind, 5, at(25), at(30)), members: vec![(120, 1), (121, 1)] }, Op::Sweep]));
    out.push(case("add:members-at-limit", kind, i, vec![
        Op::AddStage { sender: ADMIN, st: mk_stage(kind, 5, at(25), at(30)), members: vec![(120, 1)] }, Op::Sweep]));
    if kind == Kind::Flex {
        for cnt in [21u32, 22] {
            let mut i = one();
            i.whale = Some(21);
            out.push(case(&format!("add:whale-count{}", cnt), kind, i, vec![
                Op::AddStage { sender: ADMIN, st: mk_stage(kind, 5, at(25), at(30)), members: vec![(120, cnt)] }, Op::Sweep]));
        }
    }
    // ---- remove_stage
    for id in 0..=3u32 {
        for d in [-1i64, 0, 1] {
            let start = if id < 3 { TOUCH3[id as usize].0 } else { 40 };
            out.push(case(&format!("remove:{}-at-start{:+}", id, d), kind, touch3(), vec![
                Op::Time(at(start + d)), Op::RemoveStage { sender: ADMIN, id }, Op::Sweep]));
        }
    }
    out.push(case("remove:stranger", kind, touch3(), vec![Op::RemoveStage { sender: STRANGER, id: 2 }, Op::Sweep]));
    out.push(case("remove:huge-id", kind, touch3(), vec![Op::RemoveStage { sender: ADMIN, id: u32::MAX }, Op::Sweep]));
    out.push(case("remove:all-then-use", kind, touch3(), vec![
        Op::RemoveStage { sender: ADMIN, id: 0 }, Op::Sweep,
        upd(ADMIN, 0),
        Op::AddMembers { sender: ADMIN, id: 0, members: vec![(120, 1)] },
        Op::RemoveStage { sender: ADMIN, id: 0 },
        Op::AddStage { sender: ADMIN, st: mk_stage(kind, 5, at(0), at(30)), members: vec![] },
        Op::AddStage { sender: ADMIN, st: mk_stage(kind, 5, at(1), at(30)), members: vec![(101, 5)] }, Op::Sweep]));
    // stale members must not reappear under a re-added stage id
    out.push(case("remove:then-readd", kind, touch3(), vec![
        Op::AddMembers { sender: ADMIN, id: 2, members: vec![(130, 2), (131, 3)] },
        Op::RemoveStage { sender: ADMIN, id: 1 }, Op::Sweep,
        Op::AddStage { sender: ADMIN, st: mk_stage(kind, 6, at(20), at(30)), members: vec![(131, 4)] },
        Op::AddStage { sender: ADMIN, st: mk_stage(kind, 7, at(30), at(40)), members: vec![] }, Op::Sweep]));
    // a later stage may be removed while an earlier one is running
    out.push(case("remove:later-while-first-active", kind, touch3(), vec![Op::Time(at(15)), Op::RemoveStage { sender: ADMIN, id: 1 }, Op::Sweep]));
    // ---- update_stage_config: every window edge against its neighbour and itself
    for id in 0..3u32 {
        let k = id as usize;
        for d in [-1i64, 0, 1] {
            if k < 2 {
                let mut u = upd(ADMIN, id);
                if let Op::Update { end, .. } = &mut u { *end = Some(at(GAP3[k + 1].0 + d)); }
                out.push(case(&format!("update:{}-end-at-next-start{:+}", id, d), kind, gap3(), vec![u, Op::Sweep]));
            }
            if k > 0 {
                let mut u = upd(ADMIN, id);
                if let Op::Update { start, .. } = &mut u { *start = Some(at(GAP3[k - 1].1 + d)); }
                out.push(case(&format!("update:{}-start-at-prev-end{:+}", id, d), kind, gap3(), vec![u, Op::Sweep]));
            }
            let mut u = upd(ADMIN, id);
            if let Op::Update { start, .. } = &mut u { *start = Some(at(GAP3[k].1 + d)); }
            out.push(case(&format!("update:{}-start-at-own-end{:+}", id, d), kind, gap3(), vec![u, Op::Sweep]));
            let mut u = upd(ADMIN, id);
            if let Op::Update { end, .. } = &mut u { *end = Some(at(GAP3[k].0 + d)); }
            out.push(case(&format!("update:{}-end-at-own-start{:+}", id, d), kind, gap3(), vec![u, Op::Sweep]));
        }
        // a running / finished stage can still be edited (no clock guard in the code)
        let mut u = upd(ADMIN, id);
        if let Op::Update { end, price, name, mcl, .. } = &mut u {
            *end = Some(at(GAP3[k].1 + 2));
            *price = Some((0, 4242));
            *name = Some(9);
            *mcl = Some(77);
        }
        out.push(case(&format!("update:{}-while-running", id), kind, gap3(), vec![Op::Time(at(GAP3[k].0 + 1)), u.clone(), Op::Sweep]));
        out.push(case(&format!("update:{}-after-all-ended", id), kind, gap3(), vec![Op::Time(at(100)), u, Op::Sweep]));
    }
    // move the first stage into the past / onto now (validate_update has no clock check)
    for d in [-1i64, 0, 1] {
        let mut u = upd(ADMIN, 0);
        if let Op::Update { start, .. } = &mut u { *start = Some(at(d)); }
        out.push(case(&format!("update:first-start-now{:+}", d), kind, gap3(), vec![u, Op::Sweep]));
    }
    for id in [3u32, 4, u32::MAX] {
        out.push(case(&format!("update:id-{}", id), kind, gap3(), vec![upd(ADMIN, id), Op::Sweep]));
    }
    out.push(case("update:noop", kind, gap3(), vec![upd(ADMIN, 1), Op::Sweep]));
    out.push(case("update:stranger", kind, gap3(), vec![upd(STRANGER, 1), Op::Sweep]));
    for p in [0u32, 1, 30, 31, 50, 51] {
        let mut u = upd(ADMIN, 1);
        if let Op::Update { pal, .. } = &mut u { *pal = Some(p); }
        out.push(case(&format!("update:pal{}", p), kind, gap3(), vec![u, Op::Sweep]));
    }
    let mut u = upd(ADMIN, 0);
    if let Op::Update { price, .. } = &mut u { *price = Some((1, 5)); }
    out.push(case("update:denom-single-stage", kind, one(), vec![u.clone(), Op::Sweep]));
    out.push(case("update:denom-of-one-among-three", kind, gap3(), vec![u, Op::Sweep]));
    // ---- member edits
    for id in 0..=3u32 {
        out.push(case(&format!("members:add-to-{}", id), kind, touch3(), vec![
            Op::AddMembers { sender: ADMIN, id, members: vec![(121, 4), (120, 3), (121, 5), (110, 1)] }, Op::Sweep]));
    }
    out.push(case("members:add-while-running", kind, touch3(), vec![
        Op::Time(at(25)), Op::AddMembers { sender: ADMIN, id: 1, members: vec![(120, 3)] },
        Op::AddMembers { sender: ADMIN, id: 0, members: vec![(122, 3)] }, Op::Sweep]));
    out.push(case("members:add-stranger", kind, touch3(), vec![Op::AddMembers { sender: STRANGER, id: 0, members: vec![(120, 3)] }, Op::Sweep]));
    for id in 0..3u32 {
        for d in [-1i64, 0, 1] {
            out.push(case(&format!("members:remove-from-{}-at-start{:+}", id, d), kind, touch3(), vec![
                Op::Time(at(TOUCH3[id as usize].0 + d)), Op::RemoveMembers { sender: ADMIN, id, members: vec![110] }, Op::Sweep]));
        }
    }
    out.push(case("members:remove-unknown", kind, touch3(), vec![Op::RemoveMembers { sender: ADMIN, id: 1, members: vec![101, 100] }, Op::Sweep]));
    out.push(case("members:remove-other-stage-member", kind, touch3(), vec![Op::RemoveMembers { sender: ADMIN, id: 1, members: vec![100] }, Op::Sweep]));
    out.push(case("members:remove-stage-3", kind, touch3(), vec![Op::RemoveMembers { sender: ADMIN, id: 3, members: vec![110] }, Op::Sweep]));
    out.push(case("members:remove-stranger", kind, touch3(), vec![Op::RemoveMembers { sender: STRANGER, id: 1, members: vec![110] }, Op::Sweep]));
    out.push(case("members:remove-twice", kind, touch3(), vec![Op::RemoveMembers { sender: ADMIN, id: 1, members: vec![110, 110] }, Op::Sweep]));
    let mut i = touch3();
    i.limit = 7;
    i.paid = fee(kind, 7);
    out.push(case("members:add-at-limit", kind, i.clone(), vec![
        Op::AddMembers { sender: ADMIN, id: 0, members: vec![(120, 1)] },
        Op::AddMembers { sender: ADMIN, id: 0, members: vec![(100, 1)] },
        Op::AddMembers { sender: ADMIN, id: 1, members: vec![(121, 1)] }, Op::Sweep]));
    // flex message fields sent to the other kinds and vice versa
    let mut u = upd(ADMIN, 1);
    if let Op::Update { pal, end, .. } = &mut u { *pal = Some(5); *end = Some(at(31)); }
    out.push(case("update:pal-and-end", kind, gap3(), vec![u, Op::Sweep]));
}

/// add_stage with every placement of the new window relative to the existing ones, each
/// followed by the membership queries inside every stage's window (the Sweep), and
/// update_stage_config moving a window across a neighbour; on all three kinds
fn gen_order_probes(kind: Kind, out: &mut Vec<Case>) {
    let two = || mk_inst(kind, windows(kind, &[(30, 40), (60, 70)]), default_members(2));
    let one = || mk_inst(kind, windows(kind, &[(30, 40)]), default_members(1));
    let three = || mk_inst(kind, windows(kind, &[(30, 40), (60, 70), (90, 100)]), default_members(3));
    let newm = vec![(120u64, 3u32), (121, 4)];
    let mut probes = default_probes(kind);
    if kind != Kind::Merkle {
        probes.push(Probe { member: 120, proof: vec![] });
        probes.push(Probe { member: 121, proof: vec![] });
    }
    let placements: Vec<(&str, i64, i64)> = vec![
        ("after-last", 80, 90),
        ("touching-last", 70, 80),
        ("overlapping-last", 65, 75),
        ("inside-last", 62, 68),
        ("between-two", 45, 55),
        ("between-touching-both", 40, 60),
        ("before-first-future", 10, 20),
        ("before-first-touching", 20, 30),
        ("before-first-starting-now", 0, 20),
        ("in-the-past", -20, -10),
        ("identical-to-last", 60, 70),
        ("identical-to-first", 30, 40),
        ("covering-all", 5, 95),
    ];
    for (name, a, b) in &placements {
        for (bn, base) in [("two", two()), ("one", one())] {
            let mut c = case(&format!("order:add-{}-to-{}", name, bn), kind, base, vec![
                Op::AddStage { sender: ADMIN, st: mk_stage(kind, 5, at(*a), at(*b)), members: newm.clone() },
                Op::Sweep,
                // whatever happened, removing the LAST stage must take exactly that stage's members
                Op::RemoveStage { sender: ADMIN, id: if bn == "two" { 2 } else { 1 } },
                Op::Sweep,
            ]);
            c.probes = probes.clone();
            out.push(c);
        }
    }
    // the same while the first stage is already running (add_stage is then refused anyway)
    let mut c = case("order:add-between-while-first-runs", kind, two(), vec![
        Op::Time(at(35)), Op::AddStage { sender: ADMIN, st: mk_stage(kind, 5, at(45), at(55)), members: newm.clone() }, Op::Sweep]);
    c.probes = probes.clone();
    out.push(c);
    // update_stage_config that would move a stage across its neighbour
    let moves: Vec<(&str, u32, i64, i64)> = vec![
        ("first-past-second", 0, 75, 85),
        ("first-past-third", 0, 105, 115),
        ("second-before-first", 1, 10, 20),
        ("second-past-third", 1, 105, 115),
        ("third-before-first", 2, 10, 20),
        ("third-between-first-and-second", 2, 45, 55),
        ("second-onto-third", 1, 90, 100),
        ("second-within-gap", 1, 45, 85),
    ];
    for (name, id, a, b) in moves {
        let mut u = upd(ADMIN, id);
        if let Op::Update { start, end, .. } = &mut u { *start = Some(at(a)); *end = Some(at(b)); }
        let mut c = case(&format!("order:update-{}", name), kind, three(), vec![u, Op::Sweep]);
        c.probes = probes.clone();
        out.push(c);
    }
}

/// 3-stage worlds whose windows come from one of the classic arrangements
fn gen_arrangements(kind: Kind, out: &mut Vec<Case>) {
    let arr: Vec<(&str, Vec<(i64, i64)>)> = vec![
        ("touching", TOUCH3.to_vec()),
        ("gaps", GAP3.to_vec()),
        ("one-ns-windows", vec![(1, 2), (2, 3), (3, 4)]),
        ("one-ns-gaps", vec![(1, 2), (3, 4), (5, 6)]),
        ("hours", vec![(3_600_000_000_000, 7_200_000_000_000), (7_200_000_000_000, 10_800_000_000_000)]),
        ("far-future", vec![(1_000_000_000_000_000_000, 1_000_000_000_000_000_001)]),
    ];
    for (name, offs) in arr {
        let st = windows(kind, &offs);
        let n = st.len();
        out.push(case(&format!("arr:{}", name), kind, mk_inst(kind, st, default_members(n)), vec![Op::Sweep]));
    }
    // update into a touching arrangement, observe, update apart again
    let mut u1 = upd(ADMIN, 0);
    if let Op::Update { end, .. } = &mut u1 { *end = Some(at(25)); }
    let mut u2 = upd(ADMIN, 2);
    if let Op::Update { start, .. } = &mut u2 { *start = Some(at(30)); }
    let mut u3 = upd(ADMIN, 1);
    if let Op::Update { start, end, .. } = &mut u3 { *start = Some(at(26)); *end = Some(at(29)); }
    out.push(case("arr:update-to-touching-and-back", kind, mk_inst(kind, windows(kind, &GAP3), default_members(3)),
        vec![u1, Op::Sweep, u2, Op::Sweep, u3, Op::Sweep]));
}

/// population sizes around the pagination literals of the contracts (default page 25,
/// maximum page 100) and well beyond: a stage that holds that many members is removed,
/// or is a LATER stage of the removed one; the freed ids are re-used; >100 addresses in one
/// add/remove message; explicit pages
fn gen_population(kind: Kind, sizes: &[u32], out: &mut Vec<Case>) {
    if kind == Kind::Merkle {
        return;
    }
    let big = |n: u32| -> Vec<(u64, u32)> { (0..n as u64).map(|i| (1000 + i, 1 + (i % 5) as u32)).collect() };
    let small = |base: u64, n: u64| -> Vec<(u64, u32)> { (0..n).map(|i| (base + i, 2)).collect() };
    let inst = |members: Vec<Vec<(u64, u32)>>| -> Inst {
        let mut i = mk_inst(kind, windows(kind, &TOUCH3[..members.len()]), members);
        i.limit = 1000;
        i.paid = fee(kind, 1000);
        i
    };
    let probes_for = |n: u32| -> Vec<Probe> {
        let mut v: Vec<u64> = vec![1000, 1000 + n as u64 / 2, 1000 + n as u64 - 1, 1099, 1100, 1101, 2000, 500, 600];
        v.retain(|a| *a < 1000 || *a < 1000 + n as u64 || *a == 2000);
        v.sort();
        v.dedup();
        v.into_iter().map(|member| Probe { member, proof: vec![] }).collect()
    };
    let readd = |ops: &mut Vec<Op>| {
        // re-use the freed ids; 2000 is new, 1000 is a former member given again
        ops.push(Op::AddStage { sender: ADMIN, st: mk_stage(kind, 8, at(20), at(30)), members: vec![(2000, 3), (1000, 4)] });
        ops.push(Op::AddStage { sender: ADMIN, st: mk_stage(kind, 9, at(30), at(40)), members: vec![(2000, 5)] });
        ops.push(Op::Sweep);
    };
    for &n in sizes {
        // the removed stage itself is the big one
        let mut ops = vec![Op::RemoveStage { sender: ADMIN, id: 1 }, Op::Sweep];
        readd(&mut ops);
        out.push(Case { label: format!("population:{}-in-removed-stage", n), kind, now0: T0, inst: inst(vec![small(500, 3), big(n), small(600, 5)]), probes: probes_for(n), ops });
        // the big stage is a later stage of the removed one
        let mut ops = vec![Op::RemoveStage { sender: ADMIN, id: 1 }, Op::Sweep];
        readd(&mut ops);
        out.push(Case { label: format!("population:{}-in-later-stage", n), kind, now0: T0, inst: inst(vec![small(500, 3), small(600, 5), big(n)]), probes: probes_for(n), ops });
    }
    for &n in sizes {
        if n < 90 && n != 26 {
            continue;
        }
        // n addresses in one add_members, removed again in one remove_members, then as the list of an add_stage
        let all: Vec<u64> = big(n).into_iter().map(|x| x.0).collect();
        out.push(Case {
            label: format!("population:{}-in-one-message", n),
            kind,
            now0: T0,
            inst: inst(vec![small(500, 3), small(600, 2)]),
            probes: probes_for(n),
            ops: vec![
                Op::AddMembers { sender: ADMIN, id: 1, members: big(n) },
                Op::Sweep,
                Op::RemoveMembers { sender: ADMIN, id: 1, members: all },
                Op::AddStage { sender: ADMIN, st: mk_stage(kind, 8, at(30), at(40)), members: big(n) },
                Op::Sweep,
                Op::RemoveStage { sender: ADMIN, id: 2 },
                Op::Sweep,
            ],
        });
    }
    // explicit pages over a 130-member stage: every limit around the two literals, cursors
    // at the page edge, at an absent address and past the end
    let mut ops = vec![];
    for limit in [None, Some(0u32), Some(1), Some(24), Some(25), Some(26), Some(99), Some(100), Some(101), Some(30000), Some(u32::MAX)] {
        ops.push(Op::Page { id: 1, start_after: None, limit });
        ops.push(Op::Page { id: 1, start_after: Some(1098), limit });
    }
    for sa in [999u64, 1000, 1024, 1099, 1100, 1128, 1129, 1130, 5000] {
        ops.push(Op::Page { id: 1, start_after: Some(sa), limit: Some(100) });
        ops.push(Op::Page { id: 1, start_after: Some(sa), limit: None });
    }
    ops.push(Op::Page { id: 0, start_after: None, limit: None });
    ops.push(Op::Page { id: 3, start_after: None, limit: None });
    ops.push(Op::Page { id: 7, start_after: None, limit: Some(5) });
    out.push(Case { label: "population:pages".into(), kind, now0: T0, inst: inst(vec![small(500, 3), big(130)]), probes: probes_for(130), ops });
}

/// structured random history, generated against the live contract (reads Stages to choose
/// mostly-valid arguments), then replayed from scratch by run_case
fn gen_history(rng: &mut Rng, kind: Kind, idx: usize) -> Case {
    let unit: u64 = *rng.pick(&[1u64, 1, 10, 1_000_000_000, 3_600_000_000_000]);
    let n = match rng.below(20) { 0 => 0, 1 => 4, x => 1 + (x % 3) as usize };
    let mut t = T0 + unit * rng.range(1, 3);
    let mut st = vec![];
    for k in 0..n {
        let start = if rng.chance(1, 3) { t } else { t + unit * rng.range(1, 3) };
        let end = start + unit * rng.range(1, 4);
        let mut s = mk_stage(kind, k as u64, start, end);
        s.price = rng.below(1000);
        s.pal = if kind == Kind::Flex { 0 } else { rng.range(1, 30) as u32 };
        st.push(s);
        t = end;
    }
    if rng.chance(1, 4) && !st.is_empty() {
        let k = rng.below(st.len() as u64) as usize;
        match rng.below(6) {
            0 => st[k].end = st[k].start,
            1 => st[k].end = st[k].start.saturating_sub(1),
            2 if k > 0 => st[k].start = st[k - 1].end - 1,
            3 => st[0].start = T0 - rng.below(2),
            4 if st.len() > 1 => st.swap(0, 1),
            _ => st[k].pal = *rng.pick(&[0u32, 31, 51]),
        }
    }
    let st: Vec<St> = st.into_iter().map(|s| norm(kind, s)).collect();
    let pool: Vec<u64> = (100..112).collect();
    let rand_members = |rng: &mut Rng| -> Vec<(u64, u32)> {
        let n = rng.below(4);
        (0..n).map(|_| (*rng.pick(&pool), rng.range(1, 5) as u32)).collect()
    };
    let nlists = if rng.chance(1, 10) { rng.below(5) as usize } else { st.len() };
    let members: Vec<Vec<(u64, u32)>> = (0..nlists).map(|_| rand_members(rng)).collect();
    let mut inst = mk_inst(kind, st, members);
    if rng.chance(1, 6) {
        inst.limit = rng.range(1, 6) as u32;
        inst.paid = fee(kind, inst.limit);
    }
    if kind == Kind::Flex && rng.chance(1, 4) {
        inst.whale = Some(inst.limit + rng.range(0, 3) as u32);
    }
    if kind == Kind::Merkle {
        inst.roots = (0..rng.range(2, 4)).map(|_| if rng.chance(1, 2) { Root::Leaf(*rng.pick(&pool)) } else { Root::Pair(*rng.pick(&pool), *rng.pick(&pool)) }).collect();
    }
    let mut probes: Vec<Probe> = (0..4).map(|_| Probe { member: *rng.pick(&pool), proof: vec![] }).collect();
    if kind == Kind::Merkle {
        for r in &inst.roots {
            match r {
                Root::Leaf(m) | Root::LeafUpper(m) => probes.push(Probe { member: *m, proof: vec![] }),
                Root::Pair(a, b) => probes.push(Probe { member: *a, proof: vec![*b as i64] }),
                Root::Bad => {}
            }
        }
    }
    probes.sort();
    probes.dedup();
    let mut c = Case { label: format!("history-{}", idx), kind, now0: T0, inst, probes, ops: vec![] };
    let mut w = World::new(kind, T0);
    if w.instantiate(&c.inst).is_err() {
        return c;
    }
    let nops = rng.range(5, 9);
    let mut next_name = 10u64;
    for _ in 0..nops {
        let so = w.static_obs(&[]);
        let cur: Vec<St> = so.stages.clone().map(|l| l.into_iter().map(|x| x.1).collect()).unwrap_or_default();
        let now = w.now();
        let valid = rng.chance(3, 4);
        let sender = if rng.chance(1, 12) { STRANGER } else { ADMIN };
        let roll = rng.below(10);
        let op = match roll {
            0 | 1 => {
                // clock: to a boundary instant ahead, or a unit forward
                let ahead: Vec<u64> = instants(&so, now).into_iter().filter(|x| *x > now).collect();
                if ahead.is_empty() || rng.chance(1, 4) { Op::Time(now + unit) } else { Op::Time(*rng.pick(&ahead)) }
            }
            2 | 3 => {
                let last_end = cur.last().map(|s| s.end).unwrap_or(now + unit);
                let start = if valid { last_end.max(now + 1) + if rng.chance(1, 2) { 0 } else { unit } } else { last_end.saturating_sub(rng.range(0, 1)).max(1) - rng.below(2) };
                let end = if valid || rng.chance(1, 2) { start + unit * rng.range(1, 3) } else { start };
                next_name += 1;
                let mut s = mk_stage(kind, next_name, start, end);
                s.pal = if kind == Kind::Flex { 0 } else { rng.range(1, 30) as u32 };
                Op::AddStage { sender, st: s, members: rand_members(rng) }
            }
            4 => {
                let id = if cur.is_empty() || !valid { rng.below(4) as u32 } else { (cur.len() - 1) as u32 };
                Op::RemoveStage { sender, id }
            }
            5 | 6 => {
                if cur.is_empty() {
                    upd(sender, 0)
                } else {
                    let k = rng.below(cur.len() as u64) as usize;
                    let lo = if k > 0 { cur[k - 1].end } else { 0 };
                    let hi = if k + 1 < cur.len() { cur[k + 1].start } else { u64::MAX / 2 };
                    let mut u = upd(sender, k as u32);
                    if let Op::Update { start, end, price, pal, mcl, name, .. } = &mut u {
                        match rng.below(5) {
                            0 => *end = Some(if valid { hi.min(cur[k].end + unit) } else { hi.saturating_add(1) }),
                            1 => *start = Some(if valid { lo.max(cur[k].start.saturating_sub(unit)) } else { lo.saturating_sub(1) }),
                            2 => *end = Some(if valid { cur[k].start + 1 } else { cur[k].start }),
                            3 => { *price = Some((if valid { cur[k].denom } else { 1 }, rng.below(500))); *name = Some(next_name); }
                            _ => { if kind != Kind::Flex { *pal = Some(if valid { rng.range(1, 30) as u32 } else { *rng.pick(&[0u32, 31, 51]) }); } *mcl = Some(rng.below(9) as u32); }
                        }
                    }
                    u
                }
            }
            7 | 8 => {
                let id = if cur.is_empty() || !valid { rng.below(4) as u32 } else { rng.below(cur.len() as u64) as u32 };
                Op::AddMembers { sender, id, members: rand_members(rng) }
            }
            _ => {
                let id = if cur.is_empty() { 0 } else { rng.below(cur.len() as u64) as u32 };
                let stored: Vec<u64> = so.members_k[id as usize].clone().unwrap_or_default().into_iter().map(|x| x.0).collect();
                let ms = if valid && !stored.is_empty() { vec![*rng.pick(&stored)] } else { vec![*rng.pick(&pool)] };
                Op::RemoveMembers { sender, id, members: ms }
            }
        };
        match &op {
            Op::Time(t) => w.set_time(*t),
            o => {
                let ok = w.exec(o).is_ok();
                c.ops.push(op.clone());
                if ok && rng.chance(1, 2) {
                    c.ops.push(Op::Sweep);
                }
                continue;
            }
        }
        c.ops.push(op);
    }
    c.ops.push(Op::Sweep);
    c
}

fn gen_cases(a: &Args) -> Vec<Case> {
    let mut rng = Rng::new(a.seed);
    let mut lits: BTreeSet<u64> = BTreeSet::new();
    for l in harvest_literals(&[
        "contracts/whitelists/tiered-whitelist/src/helpers.rs",
        "contracts/whitelists/tiered-whitelist-flex/src/helpers.rs",
        "contracts/whitelists/tiered-whitelist-merkletree/src/helpers/utils.rs",
    ]) {
        if l < 1000 {
            lits.insert(l as u64);
        }
    }
    let lits: Vec<u64> = lits.into_iter().collect();
    let mut cases = vec![];
    for kind in Kind::all() {
        gen_arrangements(kind, &mut cases);
    }
    for kind in Kind::all() {
        gen_order_probes(kind, &mut cases);
    }
    for kind in Kind::all() {
        gen_inst_probes(kind, &lits, &mut cases);
        gen_exec_probes(kind, &mut cases);
    }
    // list sizes: the pagination literals of the member queries +-1, and well beyond them
    let mut sizes: BTreeSet<u32> = [130u32, 250].into_iter().collect();
    for l in harvest_literals(&[
        "contracts/whitelists/tiered-whitelist/src/contract.rs",
        "contracts/whitelists/tiered-whitelist-flex/src/contract.rs",
    ]) {
        if (20..=200).contains(&l) {
            for d in [l - 1, l, l + 1] {
                sizes.insert(d as u32);
            }
        }
    }
    for must in [24u32, 25, 26, 99, 100, 101] {
        sizes.insert(must);
    }
    if a.thorough() {
        for more in [150u32, 199, 200, 201, 300, 400] {
            sizes.insert(more);
        }
    }
    let sizes: Vec<u32> = sizes.into_iter().collect();
    for kind in Kind::all() {
        gen_population(kind, &sizes, &mut cases);
    }
    let nh = if a.thorough() { 600 } else { 40 };
    for i in 0..nh {
        for kind in Kind::all() {
            cases.push(gen_history(&mut rng, kind, i));
        }
    }
    cases
}

pub fn run(a: &Args) {
    let out = OutDir::new(&a.out);
    let mut rep = Report { property: "C13".into(), tier: a.tier.clone(), seed: a.seed, ..Default::default() };
    let cases: Vec<Case> = if let Some(p) = &a.replay {
        #[derive(Deserialize)]
        struct ReplayFile {
            case: Case,
        }
        let txt = std::fs::read_to_string(p).expect("replay file");
        let rf: ReplayFile = serde_json::from_str(&txt).expect("replay json");
        vec![rf.case]
    } else {
        gen_cases(a)
    };
    let mut coq_cases = Vec::with_capacity(cases.len());
    let mut distinct = BTreeSet::new();
    let mut seen_keys = BTreeSet::new();
    let mut nviol = 0;
    let mut impl_steps = 0u64;
    for (i, c) in cases.iter().enumerate() {
        let o = run_case(c);
        rep.evaluations += 1;
        impl_steps += o.impl_steps;
        for h in &o.hist {
            rep.bump(h);
        }
        for d in o.distinct {
            distinct.insert(d);
        }
        for (key, what) in &o.violations {
            if !seen_keys.insert(key.clone()) {
                continue; // one replay per failing shape
            }
            nviol += 1;
            let small = if a.replay.is_some() { c.clone() } else { shrink(c, key) };
            let what_small = run_case(&small).violations.iter().find(|(k, _)| k == key).map(|(_, w)| w.clone()).unwrap_or(what.clone());
            let body = format!(
                "{{\n \"property\": \"C13\",\n \"key\": {},\n \"case\": {},\n \"violation\": {}\n}}\n",
                serde_json::to_string(key).unwrap(),
                serde_json::to_string(&small).unwrap(),
                serde_json::to_string(&what_small).unwrap()
            );
            let path = out.write_replay(&format!("C13-{}.json", nviol), &body);
            rep.violations.push(Violation { key: key.clone(), what: format!("{} [{}]: {}", c.kind.name(), c.label, what_small), replay: path });
        }
        if rep.samples.len() < 3 && !o.sample.is_empty() && (i % 131 == 7 || a.replay.is_some()) {
            rep.samples.push(serde_json::json!({"case": format!("{} {}", c.kind.name(), c.label), "ops": format!("{:?}", c.ops), "impl_output": o.sample}));
        }
        coq_cases.push(o.coq);
    }
    rep.distinct_nontrivial = distinct.len() as u64;
    rep.rule = "evaluations = implementation steps (instantiate / execute / one clock observation) over all histories, each history on one contract. Non-trivial = distinct (kind, stage list, step) where the step is an instantiate, an execute sent by an admin that the kind knows, or a full clock observation (ActiveStage, ActiveStageId, IsActive, HasStarted, HasEnded, Config, HasMember and Member for every probe) at one boundary instant; parse rejections and non-admin senders are not counted.".into();
    rep.notes.push(format!("{} implementation steps (instantiate/execute/clock observations) in {} histories", impl_steps, cases.len()));
    out.write_cases("C13", "From LP Require Import Prelude Stages C13Corr.", "c13_case", "c13_check", &coq_cases, 6, &mut rep);
    let histories = rep.evaluations;
    rep.evaluations = impl_steps; // evidence counts implementation steps, like distinct_nontrivial does
    out.finish(&rep);
    println!("C13 harness: {} histories, {} implementation steps, {} monitor violations", histories, impl_steps, nviol);
}
