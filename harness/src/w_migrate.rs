//! w_migrate: world helpers (filled in by the properties that need it).
#![allow(dead_code, unused_imports)]
