//! w_migrate: puts each of the eighteen migratable contracts into a reachable mid-life
//! state on cw-multi-test (minters through their factory, as the repo's test-suite does),
//! snapshots raw storage and smart queries, overwrites the cw2 info and calls `migrate`.
#![allow(dead_code, unused_imports)]
use crate::chain::{self, App};
use cosmwasm_std::{coins, Addr, Coin, Empty, Storage};
use cw_multi_test::Executor;
use serde::{Deserialize, Serialize};
use serde_json::{json, Value};
use std::collections::BTreeMap;

#[derive(Clone, Copy, Debug, Serialize, Deserialize, PartialEq, Eq, PartialOrd, Ord)]
pub enum Contract {
    VendingMinter,
    VendingMinterFeatured,
    VendingMinterWlFlex,
    VendingMinterWlFlexFeatured,
    VendingMinterMerkleWl,
    VendingMinterMerkleWlFeatured,
    OpenEditionMinter,
    OpenEditionMinterWlFlex,
    OpenEditionMinterMerkleWl,
    TokenMergeMinter,
    BaseFactory,
    VendingFactory,
    OpenEditionFactory,
    TokenMergeFactory,
    Splits,
    WhitelistMerkletree,
    TieredWhitelistMerkletree,
    Sg721Updatable,
}
pub const ALL: [Contract; 18] = [
    Contract::VendingMinter,
    Contract::VendingMinterFeatured,
    Contract::VendingMinterWlFlex,
    Contract::VendingMinterWlFlexFeatured,
    Contract::VendingMinterMerkleWl,
    Contract::VendingMinterMerkleWlFeatured,
    Contract::OpenEditionMinter,
    Contract::OpenEditionMinterWlFlex,
    Contract::OpenEditionMinterMerkleWl,
    Contract::TokenMergeMinter,
    Contract::BaseFactory,
    Contract::VendingFactory,
    Contract::OpenEditionFactory,
    Contract::TokenMergeFactory,
    Contract::Splits,
    Contract::WhitelistMerkletree,
    Contract::TieredWhitelistMerkletree,
    Contract::Sg721Updatable,
];

#[derive(Clone, Copy, Debug, PartialEq, Eq)]
pub enum Kind {
    Vending,
    Simple,
    Factory,
    Updatable,
}

impl Contract {
    pub fn coq(&self) -> String {
        format!("{:?}", self)
    }
    pub fn kind(&self) -> Kind {
        use Contract::*;
        match self {
            VendingMinter | VendingMinterFeatured | VendingMinterWlFlex | VendingMinterWlFlexFeatured
            | VendingMinterMerkleWl | VendingMinterMerkleWlFeatured => Kind::Vending,
            BaseFactory | VendingFactory | OpenEditionFactory | TokenMergeFactory => Kind::Factory,
            Sg721Updatable => Kind::Updatable,
            _ => Kind::Simple,
        }
    }
    fn code(&self) -> Box<dyn cw_multi_test::Contract<Empty>> {
        use Contract::*;
        match self {
            VendingMinter => chain::vending_minter(),
            VendingMinterFeatured => chain::vending_minter_featured(),
            VendingMinterWlFlex => chain::vending_minter_wl_flex(),
            VendingMinterWlFlexFeatured => chain::vending_minter_wl_flex_featured(),
            VendingMinterMerkleWl => chain::vending_minter_merkle_wl(),
            VendingMinterMerkleWlFeatured => chain::vending_minter_merkle_wl_featured(),
            OpenEditionMinter => chain::open_edition_minter(),
            OpenEditionMinterWlFlex => chain::open_edition_minter_wl_flex(),
            OpenEditionMinterMerkleWl => chain::open_edition_minter_merkle_wl(),
            TokenMergeMinter => chain::token_merge_minter(),
            BaseFactory => chain::base_factory(),
            VendingFactory => chain::vending_factory(),
            OpenEditionFactory => chain::open_edition_factory(),
            TokenMergeFactory => chain::token_merge_factory(),
            Splits => chain::splits(),
            WhitelistMerkletree => chain::whitelist_merkletree(),
            TieredWhitelistMerkletree => chain::tiered_whitelist_merkletree(),
            Sg721Updatable => chain::sg721_updatable(),
        }
    }
}

pub const CREATOR: &str = "creator";
pub const BUYER: &str = "buyer";
pub const BUYER2: &str = "buyer2";
pub const NATIVE: &str = "ustars";
const DEV_ADDRESS: &str = "stars1abcd4kdla12mh86psg4y4h6hh05g2hmqoap350";
const CREATION_FEE: u128 = 5_000_000_000;
const MINT_PRICE: u128 = 100_000_000;

fn coin_json(amount: u128, denom: &str) -> Value {
    json!({"amount": amount.to_string(), "denom": denom})
}

pub struct Setup {
    pub app: App,
    /// the contract whose migrate entry point is exercised
    pub addr: Addr,
    /// its wasm-level admin
    pub admin: String,
    pub code_id: u64,
    pub contract: Contract,
}

fn exec_ok(app: &mut App, sender: &str, to: &Addr, msg: &Value, funds: &[Coin]) -> Result<(), String> {
    chain::exec(app, sender, to, msg, funds).map(|_| ()).map_err(|e| format!("{} -> {}: {}", sender, msg, e))
}

fn vending_factory_params(minter_code: u64, sg721_codes: &[u64]) -> Value {
    json!({"params": {
        "code_id": minter_code, "allowed_sg721_code_ids": sg721_codes, "frozen": false,
        "creation_fee": coin_json(CREATION_FEE, NATIVE), "min_mint_price": coin_json(50_000_000, NATIVE),
        "mint_fee_bps": 1000, "max_trading_offset_secs": 604800,
        "extension": {"max_token_limit": 10000, "max_per_address_limit": 50,
            "airdrop_mint_price": coin_json(0, NATIVE), "airdrop_mint_fee_bps": 10000,
            "shuffle_fee": coin_json(500_000_000, NATIVE)}}})
}
fn oe_factory_params(minter_code: u64, sg721_codes: &[u64]) -> Value {
    json!({"params": {
        "code_id": minter_code, "allowed_sg721_code_ids": sg721_codes, "frozen": false,
        "creation_fee": coin_json(CREATION_FEE, NATIVE), "min_mint_price": coin_json(MINT_PRICE, NATIVE),
        "mint_fee_bps": 1000, "max_trading_offset_secs": 604800,
        "extension": {"max_token_limit": 10000, "max_per_address_limit": 10,
            "airdrop_mint_fee_bps": 100, "airdrop_mint_price": coin_json(MINT_PRICE, NATIVE),
            "dev_fee_address": DEV_ADDRESS}}})
}
fn base_factory_params(minter_code: u64, sg721_codes: &[u64]) -> Value {
    json!({"params": {
        "code_id": minter_code, "allowed_sg721_code_ids": sg721_codes, "frozen": false,
        "creation_fee": coin_json(CREATION_FEE, NATIVE), "min_mint_price": coin_json(5_000_000, NATIVE),
        "mint_fee_bps": 1000, "max_trading_offset_secs": 604800, "extension": null}})
}
fn tm_factory_params(minter_code: u64, sg721_codes: &[u64]) -> Value {
    json!({"params": {
        "code_id": minter_code, "allowed_sg721_code_ids": sg721_codes, "frozen": false,
        "creation_fee": coin_json(CREATION_FEE, NATIVE), "max_trading_offset_secs": 604800,
        "max_token_limit": 10000, "max_per_address_limit": 50,
        "airdrop_mint_price": coin_json(0, NATIVE), "airdrop_mint_fee_bps": 10000,
        "shuffle_fee": coin_json(500_000_000, NATIVE)}})
}
fn collection_params(sg721_code: u64) -> Value {
    json!({"code_id": sg721_code, "name": "Collection Name", "symbol": "COL",
        "info": {"creator": CREATOR, "description": "Stargaze Monkeys",
            "image": "https://example.com/image.png", "external_link": "https://example.com/external.html",
            "explicit_content": null, "start_trading_time": null,
            "royalty_info": {"payment_address": CREATOR, "share": "0.1"}}})
}

fn fund(app: &mut App) {
    for who in [CREATOR, BUYER, BUYER2] {
        chain::mint_coins(app, who, 1_000_000_000_000, NATIVE);
    }
}

/// `stage` selects how far into its life the contract is taken (0 = just created)
pub fn setup(c: Contract, stage: u8) -> Result<Setup, String> {
    setup_opt(c, stage, 0)
}

/// which whitelist contract a minter variant can be given
fn whitelist_for(app: &mut App, c: Contract, now: u64, start: u64) -> Result<Addr, String> {
    use Contract::*;
    let (ws, we) = ((now + 5_000_000_000).to_string(), start.to_string());
    let (code, msg, fee): (Box<dyn cw_multi_test::Contract<Empty>>, Value, u128) = match c {
        VendingMinterWlFlex | VendingMinterWlFlexFeatured | OpenEditionMinterWlFlex => (
            chain::whitelist_flex(),
            json!({"members": [{"address": BUYER, "mint_count": 2}], "start_time": ws, "end_time": we, "mint_price": coin_json(MINT_PRICE, NATIVE),
                "member_limit": 1000, "admins": [CREATOR], "admins_mutable": true, "whale_cap": null}),
            100_000_000,
        ),
        VendingMinterMerkleWl | VendingMinterMerkleWlFeatured | OpenEditionMinterMerkleWl => (
            chain::whitelist_merkletree(),
            json!({"merkle_root": "5ab281bca33c9819e0daa0708d20ddd8a1a5a2cc4e6e3a4e7a96b5a8e1b4c2d7", "merkle_tree_uri": null,
                "start_time": ws, "end_time": we, "mint_price": coin_json(MINT_PRICE, NATIVE), "per_address_limit": 2, "admins": [CREATOR], "admins_mutable": true}),
            1_000_000_000,
        ),
        _ => (
            chain::whitelist(),
            json!({"members": [BUYER], "start_time": ws, "end_time": we, "mint_price": coin_json(MINT_PRICE, NATIVE), "per_address_limit": 2,
                "member_limit": 1000, "admins": [CREATOR], "admins_mutable": true}),
            100_000_000,
        ),
    };
    let code = app.store_code(code);
    app.instantiate_contract(code, Addr::unchecked(CREATOR), &msg, &coins(fee, NATIVE), "wl", None).map_err(|e| format!("whitelist for {:?}: {:#}", c, e))
}

/// collection parameters with the optional fields in the other state: no external link,
/// no royalty info, explicit flag and trading start given
fn collection_params_alt(sg721_code: u64, start: u64) -> Value {
    json!({"code_id": sg721_code, "name": "Collection Name", "symbol": "COL",
        "info": {"creator": CREATOR, "description": "Stargaze Monkeys",
            "image": "https://example.com/image.png", "external_link": null,
            "explicit_content": true, "start_trading_time": (start + 3_600_000_000_000u64).to_string(),
            "royalty_info": null}})
}

/// the contracts instantiated by a call, in creation order
fn created(res: &cw_multi_test::AppResponse) -> Vec<Addr> {
    let mut out = vec![];
    for e in res.events.iter().filter(|e| e.ty == "instantiate") {
        for a in e.attributes.iter().filter(|a| a.key == "_contract_address") {
            out.push(Addr::unchecked(a.value.clone()));
        }
    }
    out
}

/// `opt` selects the state of the OPTIONAL instantiate fields: 0 = the usual setup,
/// 1 = every optional field in the other state (present <-> absent: payment address,
/// whitelist, collection external link / royalty / explicit flag / trading start, token cap
/// vs end time, tree URIs, splits admin and own group, whitelist admins), 2 = the "empty"
/// variant where a field can also be an empty list.
pub fn setup_opt(c: Contract, stage: u8, opt: u8) -> Result<Setup, String> {
    use Contract::*;
    // stages 3.. are END states: the mid-life stage 1 first, then the family's closing operations
    let base = if stage >= 3 { 1 } else { stage };
    let mut app = chain::new_app();
    fund(&mut app);
    let now = chain::now(&app);
    let start = now + 10_000_000_000;
    match c {
        VendingMinter | VendingMinterFeatured | VendingMinterWlFlex | VendingMinterWlFlexFeatured
        | VendingMinterMerkleWl | VendingMinterMerkleWlFeatured | Sg721Updatable => {
            let minter_kind = if c == Sg721Updatable { VendingMinter } else { c };
            let minter_code = app.store_code(minter_kind.code());
            let factory_code = app.store_code(chain::vending_factory());
            let sg721_code = if c == Sg721Updatable { app.store_code(chain::sg721_updatable()) } else { app.store_code(chain::sg721_base()) };
            let factory = app
                .instantiate_contract(factory_code, Addr::unchecked(CREATOR), &vending_factory_params(minter_code, &[sg721_code]), &[], "factory", None)
                .map_err(|e| format!("factory: {:#}", e))?;
            let wl = if opt >= 1 { Some(whitelist_for(&mut app, minter_kind, now, start)?.to_string()) } else { None };
            let create = json!({"create_minter": {
                "init_msg": {"base_token_uri": "ipfs://aldkfjads", "payment_address": if opt >= 1 { Some("payaddr") } else { None }, "start_time": start.to_string(),
                    "num_tokens": 20, "mint_price": coin_json(MINT_PRICE, NATIVE), "per_address_limit": 3, "whitelist": wl},
                "collection_params": if opt >= 1 { collection_params_alt(sg721_code, start) } else { collection_params(sg721_code) }}});
            let res = chain::exec(&mut app, CREATOR, &factory, &create, &coins(CREATION_FEE, NATIVE)).map_err(|e| format!("create_minter {}: {}", create, e))?;
            let made = created(&res);
            let (minter, collection) = (made[0].clone(), made[1].clone());
            if base >= 1 {
                chain::set_time(&mut app, start + 1_000_000_000);
                for _ in 0..3 {
                    exec_ok(&mut app, BUYER, &minter, &json!({"mint": {}}), &coins(MINT_PRICE, NATIVE))?;
                }
                exec_ok(&mut app, BUYER2, &minter, &json!({"mint": {}}), &coins(MINT_PRICE, NATIVE))?;
            }
            if base >= 2 {
                exec_ok(&mut app, CREATOR, &minter, &json!({"mint_to": {"recipient": BUYER2}}), &[])?;
                exec_ok(&mut app, BUYER, &minter, &json!({"shuffle": {}}), &coins(500_000_000, NATIVE))?;
                exec_ok(&mut app, CREATOR, &minter, &json!({"update_per_address_limit": {"per_address_limit": 2}}), &[])?;
                chain::set_time(&mut app, start + 3_600_000_000_000);
                exec_ok(&mut app, BUYER2, &minter, &json!({"mint": {}}), &coins(MINT_PRICE, NATIVE))?;
                if c == Sg721Updatable {
                    let tok = first_token(&app, &collection, BUYER)?;
                    exec_ok(&mut app, BUYER, &collection, &json!({"transfer_nft": {"recipient": BUYER2, "token_id": tok}}), &[])?;
                }
            }
            if stage >= 3 && c != Sg721Updatable {
                match stage {
                    // the creator burns what is left before sell-out
                    3 => exec_ok(&mut app, CREATOR, &minter, &json!({"burn_remaining": {}}), &[])?,
                    // sold out (4), sold out and purged (5)
                    4 | 5 => {
                        for _ in 0..16 {
                            exec_ok(&mut app, CREATOR, &minter, &json!({"mint_to": {"recipient": BUYER2}}), &[])?;
                        }
                        if stage == 5 {
                            exec_ok(&mut app, BUYER, &minter, &json!({"purge": {}}), &[])?;
                        }
                    }
                    // a discount is in force and was used
                    _ => {
                        exec_ok(&mut app, CREATOR, &minter, &json!({"update_discount_price": {"price": "60000000"}}), &[])?;
                        exec_ok(&mut app, BUYER2, &minter, &json!({"mint": {}}), &coins(60_000_000, NATIVE))?;
                    }
                }
            }
            if stage >= 3 && c == Sg721Updatable {
                let tok = first_token(&app, &collection, BUYER)?;
                match stage {
                    // a token's metadata rewritten, a token burnt (3), then metadata frozen (5)
                    3 | 5 => {
                        exec_ok(&mut app, CREATOR, &collection, &json!({"update_token_metadata": {"token_id": tok, "token_uri": "ipfs://rewritten"}}), &[])?;
                        let tok2 = first_token(&app, &collection, BUYER2)?;
                        exec_ok(&mut app, BUYER2, &collection, &json!({"burn": {"token_id": tok2}}), &[])?;
                        if stage == 5 {
                            exec_ok(&mut app, CREATOR, &collection, &json!({"freeze_token_metadata": {}}), &[])?;
                        }
                    }
                    // collection info and royalty updated, then frozen
                    _ => {
                        chain::set_time(&mut app, start + 3 * 86_400_000_000_000);
                        let upd = json!({"update_collection_info": {"collection_info": {"description": "updated", "image": "https://example.com/new.png",
                            "external_link": "https://example.com/new.html", "explicit_content": true,
                            "royalty_info": if opt >= 1 { Value::Null } else { json!({"payment_address": BUYER2, "share": "0.09"}) }}}});
                        exec_ok(&mut app, CREATOR, &collection, &upd, &[])?;
                        if stage == 6 {
                            exec_ok(&mut app, CREATOR, &collection, &json!({"freeze_collection_info": {}}), &[])?;
                        }
                    }
                }
            }
            let addr = if c == Sg721Updatable { collection } else { minter };
            finish(app, addr, c)
        }
        OpenEditionMinter | OpenEditionMinterWlFlex | OpenEditionMinterMerkleWl => {
            let minter_code = app.store_code(c.code());
            let factory_code = app.store_code(chain::open_edition_factory());
            let sg721_code = app.store_code(chain::sg721_base());
            let factory = app
                .instantiate_contract(factory_code, Addr::unchecked(CREATOR), &oe_factory_params(minter_code, &[sg721_code]), &[], "factory", None)
                .map_err(|e| format!("factory: {:#}", e))?;
            let wl = if opt >= 1 { Some(whitelist_for(&mut app, c, now, start)?.to_string()) } else { None };
            let create = json!({"create_minter": {
                "init_msg": {"nft_data": {"nft_data_type": "off_chain_metadata", "extension": null, "token_uri": "ipfs://1234"},
                    "start_time": start.to_string(),
                    "end_time": if opt == 1 { None } else { Some((start + 86_400_000_000_000u64).to_string()) },
                    "mint_price": coin_json(MINT_PRICE, NATIVE), "per_address_limit": 5,
                    "num_tokens": if stage >= 3 { Some(12) } else if opt >= 1 { Some(50) } else { None },
                    "payment_address": if opt >= 1 { Some("payaddr") } else { None }, "whitelist": wl},
                "collection_params": if opt >= 1 { collection_params_alt(sg721_code, start) } else { collection_params(sg721_code) }}});
            let res = chain::exec(&mut app, CREATOR, &factory, &create, &coins(CREATION_FEE, NATIVE)).map_err(|e| format!("create_minter {}: {}", create, e))?;
            let minter = created(&res)[0].clone();
            if base >= 1 {
                chain::set_time(&mut app, start + 1_000_000_000);
                for _ in 0..2 {
                    exec_ok(&mut app, BUYER, &minter, &json!({"mint": {}}), &coins(MINT_PRICE, NATIVE))?;
                }
                exec_ok(&mut app, BUYER2, &minter, &json!({"mint": {}}), &coins(MINT_PRICE, NATIVE))?;
            }
            if base >= 2 {
                exec_ok(&mut app, CREATOR, &minter, &json!({"update_per_address_limit": {"per_address_limit": 4}}), &[])?;
                chain::set_time(&mut app, start + 3_600_000_000_000);
                exec_ok(&mut app, BUYER2, &minter, &json!({"mint": {}}), &coins(MINT_PRICE, NATIVE))?;
            }
            if stage >= 3 {
                match stage {
                    // capped edition, the rest burnt before sell-out (cap 12, 3 minted)
                    3 => {
                        if opt != 1 {
                            chain::set_time(&mut app, start + 2 * 86_400_000_000_000); // with an end time the burn waits for it
                        }
                        exec_ok(&mut app, CREATOR, &minter, &json!({"burn_remaining": {}}), &[])?
                    }
                    // capped edition sold out (4), then purged (5)
                    4 | 5 => {
                        for _ in 0..9 {
                            exec_ok(&mut app, CREATOR, &minter, &json!({"mint_to": {"recipient": BUYER2}}), &coins(MINT_PRICE, NATIVE))?;
                        }
                        if stage == 5 {
                            if opt != 1 {
                                chain::set_time(&mut app, start + 2 * 86_400_000_000_000);
                            }
                            exec_ok(&mut app, BUYER, &minter, &json!({"purge": {}}), &[])?;
                        }
                    }
                    // the sale end time has passed with supply left
                    _ => chain::set_time(&mut app, start + 2 * 86_400_000_000_000),
                }
            }
            finish(app, minter, c)
        }
        TokenMergeMinter => {
            // end states need a real source collection whose tokens a buyer owns: a vending
            // minter's collection, airdropped to the buyer
            let mut source: Option<Addr> = None;
            if stage >= 3 {
                let vm = app.store_code(chain::vending_minter());
                let vf = app.store_code(chain::vending_factory());
                let sg = app.store_code(chain::sg721_base());
                let f = app
                    .instantiate_contract(vf, Addr::unchecked(CREATOR), &vending_factory_params(vm, &[sg]), &[], "srcfactory", None)
                    .map_err(|e| format!("source factory: {:#}", e))?;
                let create = json!({"create_minter": {
                    "init_msg": {"base_token_uri": "ipfs://source", "payment_address": null, "start_time": start.to_string(),
                        "num_tokens": 20, "mint_price": coin_json(MINT_PRICE, NATIVE), "per_address_limit": 3, "whitelist": null},
                    "collection_params": collection_params(sg)}});
                let res = chain::exec(&mut app, CREATOR, &f, &create, &coins(CREATION_FEE, NATIVE)).map_err(|e| format!("source minter: {}", e))?;
                let made = created(&res);
                chain::set_time(&mut app, start + 500_000_000);
                for _ in 0..4 {
                    exec_ok(&mut app, CREATOR, &made[0], &json!({"mint_to": {"recipient": BUYER}}), &[])?;
                }
                source = Some(made[1].clone());
            }
            let start = if stage >= 3 { start + 5_000_000_000 } else { start };
            let minter_code = app.store_code(c.code());
            let factory_code = app.store_code(chain::token_merge_factory());
            let sg721_code = app.store_code(chain::sg721_base());
            let factory = app
                .instantiate_contract(factory_code, Addr::unchecked(CREATOR), &tm_factory_params(minter_code, &[sg721_code]), &[], "factory", None)
                .map_err(|e| format!("factory: {:#}", e))?;
            let mint_tokens = match &source {
                Some(a) => json!([{"collection": a.to_string(), "amount": 2}]),
                None => json!([{"collection": "contract2", "amount": 1}]),
            };
            let create = json!({"create_minter": {
                "init_msg": {"base_token_uri": "ipfs://aldkfjads", "start_time": start.to_string(), "num_tokens": 20,
                    "mint_tokens": mint_tokens, "per_address_limit": 3},
                "collection_params": if opt >= 1 { collection_params_alt(sg721_code, start) } else { collection_params(sg721_code) }}});
            let res = chain::exec(&mut app, CREATOR, &factory, &create, &coins(CREATION_FEE, NATIVE)).map_err(|e| format!("create_minter {}: {}", create, e))?;
            let minter = created(&res)[0].clone();
            if base >= 1 {
                chain::set_time(&mut app, start + 1_000_000_000);
                // creator airdrops (no tokens need to be burnt for MintTo)
                exec_ok(&mut app, CREATOR, &minter, &json!({"mint_to": {"recipient": BUYER}}), &[])?;
            }
            if base >= 2 {
                exec_ok(&mut app, CREATOR, &minter, &json!({"mint_to": {"recipient": BUYER2}}), &[])?;
                exec_ok(&mut app, CREATOR, &minter, &json!({"update_per_address_limit": {"per_address_limit": 2}}), &[])?;
            }
            if let Some(src) = &source {
                // the buyer deposits tokens of the source collection: 1 of the 2 a mint needs (3: a
                // partially filled ledger), 3 of them (4: one merge done, one token waiting)
                let deposits = if stage == 3 { 1 } else { 3 };
                let hook = cosmwasm_std::to_json_binary(&json!({"deposit_token": {"recipient": null}})).unwrap();
                for _ in 0..deposits {
                    let tok = first_token(&app, src, BUYER)?;
                    exec_ok(&mut app, BUYER, src, &json!({"send_nft": {"contract": minter.to_string(), "token_id": tok, "msg": hook}}), &[])?;
                }
            }
            finish(app, minter, c)
        }
        BaseFactory | VendingFactory | OpenEditionFactory | TokenMergeFactory => {
            let code = app.store_code(c.code());
            let ids: &[u64] = match opt {
                _ if stage >= 3 => &[1, 3, 1, 3, 3, 5, 5],
                0 => &[1, 3, 5],
                1 => &[3],
                _ => &[],
            };
            let mut params = match c {
                BaseFactory => base_factory_params(7, ids),
                VendingFactory => vending_factory_params(7, ids),
                OpenEditionFactory => oe_factory_params(7, ids),
                _ => tm_factory_params(7, ids),
            };
            if opt >= 1 || stage >= 3 {
                params["params"]["frozen"] = json!(true);
            }
            let addr = app
                .instantiate_contract(code, Addr::unchecked(CREATOR), &params, &[], "factory", Some(CREATOR.to_string()))
                .map_err(|e| format!("factory: {:#}", e))?;
            if base >= 1 && stage < 3 {
                let upd = if c == TokenMergeFactory {
                    json!({"update_params": {"code_id": 9, "add_sg721_code_ids": [11], "rm_sg721_code_ids": [3], "frozen": null,
                        "creation_fee": null, "max_trading_offset_secs": 1000,
                        "extension": {"max_token_limit": 5000, "max_per_address_limit": null, "airdrop_mint_price": null, "airdrop_mint_fee_bps": null, "shuffle_fee": null}}})
                } else {
                    let ext = match c {
                        BaseFactory => Value::Null,
                        VendingFactory => json!({"max_token_limit": 5000, "max_per_address_limit": null, "airdrop_mint_price": null, "airdrop_mint_fee_bps": null, "shuffle_fee": null}),
                        _ => json!({"max_token_limit": 5000, "max_per_address_limit": null, "min_mint_price": null, "airdrop_mint_price": null, "airdrop_mint_fee_bps": null, "dev_fee_address": null}),
                    };
                    json!({"update_params": {"code_id": 9, "add_sg721_code_ids": [11], "rm_sg721_code_ids": [3], "frozen": null,
                        "creation_fee": null, "min_mint_price": null, "mint_fee_bps": 500, "max_trading_offset_secs": 1000, "extension": ext}})
                };
                chain::sudo(&mut app, &addr, &upd).map_err(|e| format!("sudo {}: {}", upd, e))?;
            }
            if base >= 2 {
                chain::set_time(&mut app, now + 86_400_000_000_000);
            }
            finish(app, addr, c)
        }
        Splits => {
            let gcode = app.store_code(chain::cw4_group());
            let scode = app.store_code(chain::splits());
            let gmsg = json!({"admin": "gadmin", "members": [{"addr": "m0001", "weight": 50}, {"addr": "m0002", "weight": 30}, {"addr": "m0003", "weight": 0}]});
            let group = app.instantiate_contract(gcode, Addr::unchecked(CREATOR), &gmsg, &[], "group", None).map_err(|e| format!("group: {:#}", e))?;
            let smsg = if opt >= 1 {
                // no admin, and the splits contract creates its own group
                json!({"admin": null, "group": {"cw4_instantiate": {"code_id": gcode, "msg": cosmwasm_std::to_json_binary(&gmsg).unwrap(), "admin": null, "label": "own group"}}})
            } else {
                json!({"admin": CREATOR, "group": {"cw4_address": group.to_string()}})
            };
            let addr = app
                .instantiate_contract(scode, Addr::unchecked(CREATOR), &smsg, &[], "splits", Some(CREATOR.to_string()))
                .map_err(|e| format!("splits: {:#}", e))?;
            let distributor = if opt >= 1 { "m0001" } else { CREATOR };
            if base >= 1 {
                chain::mint_coins(&mut app, addr.as_str(), 1234, NATIVE);
                exec_ok(&mut app, distributor, &addr, &json!({"distribute": {"denom_list": null}}), &[])?;
            }
            if base >= 2 {
                if opt == 0 {
                    exec_ok(&mut app, CREATOR, &addr, &json!({"update_admin": {"admin": BUYER}}), &[])?;
                }
                chain::mint_coins(&mut app, addr.as_str(), 77, NATIVE);
            }
            if stage >= 3 {
                // a second distribution leaving a remainder, then the admin is renounced
                chain::mint_coins(&mut app, addr.as_str(), 1000, NATIVE);
                exec_ok(&mut app, distributor, &addr, &json!({"distribute": {"denom_list": [NATIVE]}}), &[])?;
                if opt == 0 {
                    exec_ok(&mut app, CREATOR, &addr, &json!({"update_admin": {"admin": null}}), &[])?;
                }
            }
            finish(app, addr, c)
        }
        WhitelistMerkletree => {
            let code = app.store_code(c.code());
            let msg = json!({"merkle_root": "5ab281bca33c9819e0daa0708d20ddd8a1a5a2cc4e6e3a4e7a96b5a8e1b4c2d7",
                "merkle_tree_uri": if opt >= 1 { None } else { Some("ipfs://tree") },
                "start_time": start.to_string(), "end_time": (start + 86_400_000_000_000u64).to_string(),
                "mint_price": coin_json(MINT_PRICE, NATIVE), "per_address_limit": 3,
                "admins": if opt == 2 { vec![] } else { vec![CREATOR] }, "admins_mutable": opt == 0});
            let addr = app
                .instantiate_contract(code, Addr::unchecked(CREATOR), &msg, &coins(1_000_000_000, NATIVE), "wl", Some(CREATOR.to_string()))
                .map_err(|e| format!("whitelist-merkletree: {:#}", e))?;
            if base >= 1 && opt == 0 {
                exec_ok(&mut app, CREATOR, &addr, &json!({"update_admins": {"admins": [CREATOR, BUYER]}}), &[])?;
            }
            if base >= 2 {
                if opt == 0 {
                    exec_ok(&mut app, BUYER, &addr, &json!({"update_end_time": (start + 80_000_000_000_000u64).to_string()}), &[])?;
                } else if opt == 1 {
                    exec_ok(&mut app, CREATOR, &addr, &json!({"update_end_time": (start + 80_000_000_000_000u64).to_string()}), &[])?;
                }
                chain::set_time(&mut app, start + 1_000_000_000);
            }
            match stage {
                // ended
                3 => chain::set_time(&mut app, start + 2 * 86_400_000_000_000),
                // started, admin list frozen
                4 => {
                    if opt == 0 {
                        exec_ok(&mut app, CREATOR, &addr, &json!({"freeze": {}}), &[])?;
                    }
                    chain::set_time(&mut app, start + 1_000_000_000);
                }
                _ => {}
            }
            finish(app, addr, c)
        }
        TieredWhitelistMerkletree => {
            let code = app.store_code(c.code());
            let stage_json = |name: &str, s: u64, e: u64| json!({"name": name, "start_time": s.to_string(), "end_time": e.to_string(),
                "mint_price": coin_json(MINT_PRICE, NATIVE), "per_address_limit": 3, "mint_count_limit": if opt >= 1 { Some(10) } else { None }});
            let uris: Value = match opt {
                0 => json!(["ipfs://tree1", "ipfs://tree2"]),
                1 => Value::Null, // never stored: MerkleTreeURIs answers null
                _ => json!([]),   // an empty list is not stored either
            };
            let msg = json!({"stages": [stage_json("one", start, start + 1_000_000_000_000), stage_json("two", start + 2_000_000_000_000, start + 3_000_000_000_000)],
                "merkle_roots": ["5ab281bca33c9819e0daa0708d20ddd8", "6ab281bca33c9819e0daa0708d20ddd8"],
                "merkle_tree_uris": uris, "admins": if opt == 2 { vec![] } else { vec![CREATOR] }, "admins_mutable": opt == 0});
            let addr = app
                .instantiate_contract(code, Addr::unchecked(CREATOR), &msg, &coins(1_000_000_000, NATIVE), "twl", Some(CREATOR.to_string()))
                .map_err(|e| format!("tiered-whitelist-merkletree: {:#}", e))?;
            if base >= 1 && opt == 0 {
                exec_ok(&mut app, CREATOR, &addr, &json!({"update_admins": {"admins": [CREATOR, BUYER]}}), &[])?;
            }
            if base >= 2 {
                chain::set_time(&mut app, start + 1_000_000_000);
            }
            match stage {
                // every stage ended
                3 => chain::set_time(&mut app, start + 86_400_000_000_000),
                // second stage running, admin list frozen
                4 => {
                    if opt == 0 {
                        exec_ok(&mut app, CREATOR, &addr, &json!({"freeze": {}}), &[])?;
                    }
                    chain::set_time(&mut app, start + 2_500_000_000_000);
                }
                _ => {}
            }
            finish(app, addr, c)
        }
    }
}

/// has a sudo UpdateStatus entry point (every minter with a migrate entry point)
/// the END-state life stages each contract has (see the comments in `setup_opt`)
pub fn end_stages(c: Contract) -> Vec<u8> {
    use Contract::*;
    match c {
        Sg721Updatable => vec![3, 4, 5, 6],
        x if x.kind() == Kind::Vending => vec![3, 4, 5, 6],
        OpenEditionMinter | OpenEditionMinterWlFlex | OpenEditionMinterMerkleWl => vec![3, 4, 5, 6],
        TokenMergeMinter => vec![3, 4],
        WhitelistMerkletree | TieredWhitelistMerkletree => vec![3, 4],
        _ => vec![3],
    }
}

pub fn is_minter(c: Contract) -> bool {
    c.kind() == Kind::Vending
        || matches!(c, Contract::OpenEditionMinter | Contract::OpenEditionMinterWlFlex | Contract::OpenEditionMinterMerkleWl | Contract::TokenMergeMinter)
}

/// `setup`, then governance acts on the contract through sudo before anything is migrated:
/// minters: UpdateStatus with the flag triple `gov` encodes (bit 0 verified, 1 blocked,
/// 2 explicit; gov = 8 stands for "all false, but explicitly set"); factories: gov = 1
/// freezes the factory and moves several parameters.  gov = 0: governance never acted.
pub fn setup_gov(c: Contract, stage: u8, gov: u8) -> Result<Setup, String> {
    setup_gov_opt(c, stage, gov, 0)
}
pub fn setup_gov_opt(c: Contract, stage: u8, gov: u8, opt: u8) -> Result<Setup, String> {
    let mut s = setup_opt(c, stage, opt)?;
    if gov == 0 {
        return Ok(s);
    }
    let addr = s.addr.clone();
    if is_minter(c) {
        let g = gov % 8;
        let msg = json!({"update_status": {"is_verified": g & 1 != 0, "is_blocked": g & 2 != 0, "is_explicit": g & 4 != 0}});
        chain::sudo(&mut s.app, &addr, &msg).map_err(|e| format!("sudo {}: {}", msg, e))?;
    } else if c.kind() == Kind::Factory {
        let ext = match c {
            Contract::BaseFactory => Value::Null,
            Contract::OpenEditionFactory => json!({"max_token_limit": 4321, "max_per_address_limit": 9, "min_mint_price": null, "airdrop_mint_price": null, "airdrop_mint_fee_bps": 4400, "dev_fee_address": "govdev"}),
            _ => json!({"max_token_limit": 4321, "max_per_address_limit": 9, "airdrop_mint_price": null, "airdrop_mint_fee_bps": 4400, "shuffle_fee": null}),
        };
        let msg = if c == Contract::TokenMergeFactory {
            json!({"update_params": {"code_id": 55, "add_sg721_code_ids": [17], "rm_sg721_code_ids": [1], "frozen": true,
                "creation_fee": coin_json(123_456, NATIVE), "max_trading_offset_secs": 4242, "extension": ext}})
        } else {
            json!({"update_params": {"code_id": 55, "add_sg721_code_ids": [17], "rm_sg721_code_ids": [1], "frozen": true,
                "creation_fee": coin_json(123_456, NATIVE), "min_mint_price": coin_json(7_654_321, NATIVE), "mint_fee_bps": 321,
                "max_trading_offset_secs": 4242, "extension": ext}})
        };
        chain::sudo(&mut s.app, &addr, &msg).map_err(|e| format!("sudo {}: {}", msg, e))?;
    }
    Ok(s)
}

fn first_token(app: &App, collection: &Addr, owner: &str) -> Result<String, String> {
    let r: Value = app
        .wrap()
        .query_wasm_smart(collection, &json!({"tokens": {"owner": owner, "start_after": null, "limit": null}}))
        .map_err(|e| e.to_string())?;
    r["tokens"][0].as_str().map(|s| s.to_string()).ok_or_else(|| "no token".to_string())
}

fn finish(app: App, addr: Addr, c: Contract) -> Result<Setup, String> {
    let data = app.contract_data(&addr).map_err(|e| format!("no such contract {}: {:#}", addr, e))?;
    let admin = data.admin.clone().map(|a| a.to_string()).ok_or_else(|| format!("{} has no wasm admin", addr))?;
    Ok(Setup { app, addr, admin, code_id: data.code_id, contract: c })
}

/// every smart query of the contract that takes no state-specific argument, plus a few with
/// the addresses/ids the setups use; (query, depends on a slot the migration may write)
pub fn queries(c: Contract) -> Vec<(Value, bool)> {
    use Contract::*;
    let plain = |names: &[&str]| names.iter().map(|n| (json!({ *n: {} }), false)).collect::<Vec<_>>();
    match c.kind() {
        Kind::Vending => {
            let mut v = plain(&["config", "mintable_num_tokens", "start_time", "mint_price", "status"]);
            for a in [BUYER, BUYER2, CREATOR] {
                v.push((json!({"mint_count": {"address": a}}), false));
            }
            v
        }
        Kind::Factory => vec![
            (json!({"params": {}}), true),
            (json!({"allowed_collection_code_ids": {}}), true),
            (json!({"allowed_collection_code_id": 3}), true),
            (json!({"allowed_collection_code_id": 11}), true),
        ],
        Kind::Updatable => {
            let mut v = plain(&["contract_info", "num_tokens", "collection_info"]);
            v.push((json!({"all_tokens": {"start_after": null, "limit": 30}}), false));
            for a in [BUYER, BUYER2] {
                v.push((json!({"tokens": {"owner": a, "start_after": null, "limit": 30}}), false));
            }
            for t in 1..=20u32 {
                v.push((json!({"owner_of": {"token_id": t.to_string(), "include_expired": null}}), false));
                v.push((json!({"nft_info": {"token_id": t.to_string()}}), false));
            }
            v.push((json!({"minter": {}}), true));
            v.push((json!({"ownership": {}}), true));
            v.push((json!({"enable_updatable": {}}), true));
            v.push((json!({"freeze_token_metadata": {}}), true));
            v.push((json!({"enable_updatable_fee": {}}), false));
            v
        }
        Kind::Simple => match c {
            OpenEditionMinter | OpenEditionMinterWlFlex | OpenEditionMinterMerkleWl => {
                let mut v = plain(&["config", "start_time", "end_time", "mint_price", "total_mint_count", "status", "mintable_num_tokens"]);
                for a in [BUYER, BUYER2, CREATOR] {
                    v.push((json!({"mint_count": {"address": a}}), false));
                }
                v
            }
            TokenMergeMinter => {
                let mut v = plain(&["config", "mintable_num_tokens", "start_time", "mint_tokens", "status"]);
                for a in [BUYER, BUYER2, CREATOR] {
                    v.push((json!({"mint_count": {"address": a}}), false));
                    v.push((json!({"deposited_tokens": {"address": a}}), false));
                }
                v
            }
            Splits => {
                let mut v = plain(&["admin", "group"]);
                v.push((json!({"list_members": {"start_after": null, "limit": 30}}), false));
                for a in ["m0001", "m0003", CREATOR] {
                    v.push((json!({"member": {"address": a}}), false));
                }
                v
            }
            WhitelistMerkletree => {
                let mut v = plain(&["has_started", "has_ended", "is_active", "config", "admin_list", "merkle_root", "merkle_tree_u_r_i"]);
                v.push((json!({"can_execute": {"sender": BUYER, "msg": {"bank": {"send": {"to_address": BUYER, "amount": []}}}}}), false));
                v
            }
            _ => {
                let mut v = plain(&["has_started", "has_ended", "is_active", "active_stage", "active_stage_id", "config", "stages", "admin_list", "merkle_roots", "merkle_tree_u_r_is"]);
                v.push((json!({"stage": {"stage_id": 0}}), false));
                v.push((json!({"stage": {"stage_id": 1}}), false));
                v
            }
        },
    }
}

pub type Raw = BTreeMap<Vec<u8>, Vec<u8>>;

pub struct Snap {
    pub raw: Raw,
    pub answers: Vec<Result<String, ()>>,
}

pub fn raw_storage(app: &App, addr: &Addr) -> Raw {
    let st = app.contract_storage(addr);
    st.range(None, None, cosmwasm_std::Order::Ascending).collect()
}

pub fn snapshot(app: &App, addr: &Addr, qs: &[(Value, bool)]) -> Snap {
    let answers = qs
        .iter()
        .map(|(q, _)| match app.wrap().query_wasm_smart::<Value>(addr, q) {
            Ok(v) => Ok(v.to_string()),
            Err(_) => Err(()),
        })
        .collect();
    Snap { raw: raw_storage(app, addr), answers }
}

/// put the contract's raw storage back to a snapshot
pub fn restore(app: &mut App, addr: &Addr, raw: &Raw) {
    let current = raw_storage(app, addr);
    let mut st = app.contract_storage_mut(addr);
    for k in current.keys() {
        if !raw.contains_key(k) {
            st.remove(k);
        }
    }
    for (k, v) in raw {
        if current.get(k) != Some(v) {
            st.set(k, v);
        }
    }
}

pub fn set_cw2(app: &mut App, addr: &Addr, name: &str, version: &str) {
    let mut st = app.contract_storage_mut(addr);
    cw2::set_contract_version(&mut *st, name, version).unwrap();
}
pub fn get_cw2(app: &App, addr: &Addr) -> (String, String) {
    let st = app.contract_storage(addr);
    let v = cw2::get_contract_version(&*st).unwrap();
    (v.contract, v.version)
}

/// the raw keys a migration is allowed to write (besides cw2's)
pub const SLOT_KEYS: [&str; 10] = [
    "mintable_num_tokens",
    "status",
    "contract_info",
    "last_discount_time",
    "frozen_token_metadata",
    "enable_updatable",
    "royalty_updated_at",
    "minter",
    "ownership",
    "sudo-params",
];

pub fn slot_raw<'a>(raw: &'a Raw, key: &str) -> Option<&'a Vec<u8>> {
    raw.get(key.as_bytes())
}
pub fn slot_timestamp(raw: &Raw, key: &str) -> Option<u64> {
    slot_raw(raw, key).and_then(|v| serde_json::from_slice::<String>(v).ok()).and_then(|s| s.parse().ok())
}
pub fn slot_bool(raw: &Raw, key: &str) -> Option<bool> {
    slot_raw(raw, key).and_then(|v| serde_json::from_slice::<bool>(v).ok())
}
pub fn slot_addr(raw: &Raw, key: &str) -> Option<String> {
    slot_raw(raw, key).and_then(|v| serde_json::from_slice::<String>(v).ok())
}
/// MINTABLE_NUM_TOKENS (what is left to mint)
pub fn slot_mintable(raw: &Raw) -> Option<u64> {
    slot_raw(raw, "mintable_num_tokens").and_then(|v| serde_json::from_slice::<Option<u64>>(v).ok()).flatten()
}
/// the minter STATUS item: (is_verified, is_blocked, is_explicit)
pub fn slot_status(raw: &Raw) -> Option<(bool, bool, bool)> {
    let v: Value = slot_raw(raw, "status").and_then(|v| serde_json::from_slice(v).ok())?;
    Some((v["is_verified"].as_bool()?, v["is_blocked"].as_bool()?, v["is_explicit"].as_bool()?))
}
pub fn slot_owner(raw: &Raw) -> Option<String> {
    slot_raw(raw, "ownership")
        .and_then(|v| serde_json::from_slice::<Value>(v).ok())
        .and_then(|v| v["owner"].as_str().map(|s| s.to_string()))
}

/// migrate with the same code id, catching panics
pub fn migrate(s: &mut Setup, msg: &Value) -> Result<(), String> {
    let (admin, addr, code) = (Addr::unchecked(s.admin.clone()), s.addr.clone(), s.code_id);
    let app = &mut s.app;
    match crate::util::catch(|| app.migrate_contract(admin, addr, msg, code)) {
        Ok(Ok(_)) => Ok(()),
        Ok(Err(e)) => Err(format!("{:#}", e)),
        Err(p) => Err(p),
    }
}
