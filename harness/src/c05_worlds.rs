//! C05 worlds: one real instance of every contract kind in every state the table visits,
//! the role -> address assignment, every ExecuteMsg variant as JSON with otherwise valid
//! arguments, the principal-relevant queries printed as a Coq `astate`, and what the
//! HISTORY that built the state says about who the principals are (never read back from
//! the contract: that is the monitor's side; the Coq case is seeded from the queries).
#![allow(dead_code)]
use crate::chain::{self, App};
use crate::util::{Ids, NATIVE};
use crate::w_factory::*;
use cosmwasm_std::{coin, Addr, Binary, Empty, Response, StdResult};
use cw_multi_test::{Contract, ContractWrapper, Executor};
use serde::{Deserialize, Serialize};
use serde_json::{json, Value};
use std::collections::BTreeMap;

pub const S: u64 = 1_000_000_000;

#[derive(Clone, Copy, Debug, PartialEq, Eq, PartialOrd, Ord, Hash, Serialize, Deserialize)]
pub enum CollKind {
    Base,
    Updatable,
    Metadata,
    Nt,
}
impl CollKind {
    pub const ALL: [CollKind; 4] = [CollKind::Base, CollKind::Updatable, CollKind::Metadata, CollKind::Nt];
    pub fn name(self) -> &'static str {
        match self {
            CollKind::Base => "sg721-base",
            CollKind::Updatable => "sg721-updatable",
            CollKind::Metadata => "sg721-metadata-onchain",
            CollKind::Nt => "sg721-nt",
        }
    }
    pub fn code(self) -> Box<dyn Contract<Empty>> {
        match self {
            CollKind::Base => chain::sg721_base(),
            CollKind::Updatable => chain::sg721_updatable(),
            CollKind::Metadata => chain::sg721_metadata_onchain(),
            CollKind::Nt => chain::sg721_nt(),
        }
    }
    pub fn coq(self) -> &'static str {
        match self {
            CollKind::Base => "Sg721Base",
            CollKind::Updatable => "Sg721Updatable",
            CollKind::Metadata => "Sg721Metadata",
            CollKind::Nt => "Sg721Nt",
        }
    }
    pub fn has_ownership_msg(self) -> bool {
        matches!(self, CollKind::Base | CollKind::Metadata)
    }
    pub fn has_token_msgs(self) -> bool {
        !matches!(self, CollKind::Nt)
    }
}

#[derive(Clone, Copy, Debug, PartialEq, Eq, PartialOrd, Ord, Hash, Serialize, Deserialize)]
pub enum WlKind {
    Plain,
    Flex,
    Tiered,
    TieredFlex,
    Merkle,
    TieredMerkle,
    Immutable,
}
impl WlKind {
    pub const ALL: [WlKind; 7] = [
        WlKind::Plain,
        WlKind::Flex,
        WlKind::Tiered,
        WlKind::TieredFlex,
        WlKind::Merkle,
        WlKind::TieredMerkle,
        WlKind::Immutable,
    ];
    pub fn name(self) -> &'static str {
        match self {
            WlKind::Plain => "whitelist",
            WlKind::Flex => "whitelist-flex",
            WlKind::Tiered => "tiered-whitelist",
            WlKind::TieredFlex => "tiered-whitelist-flex",
            WlKind::Merkle => "whitelist-merkletree",
            WlKind::TieredMerkle => "tiered-whitelist-merkletree",
            WlKind::Immutable => "whitelist-immutable",
        }
    }
    pub fn code(self) -> Box<dyn Contract<Empty>> {
        match self {
            WlKind::Plain => chain::whitelist(),
            WlKind::Flex => chain::whitelist_flex(),
            WlKind::Tiered => chain::tiered_whitelist(),
            WlKind::TieredFlex => chain::tiered_whitelist_flex(),
            WlKind::Merkle => chain::whitelist_merkletree(),
            WlKind::TieredMerkle => chain::tiered_whitelist_merkletree(),
            WlKind::Immutable => chain::whitelist_immutable(),
        }
    }
    pub fn coq(self) -> &'static str {
        match self {
            WlKind::Plain => "WPlain",
            WlKind::Flex => "WFlex",
            WlKind::Tiered => "WTiered",
            WlKind::TieredFlex => "WTieredFlex",
            WlKind::Merkle => "WMerkle",
            WlKind::TieredMerkle => "WTieredMerkle",
            WlKind::Immutable => "WImmutable",
        }
    }
    fn tiered(self) -> bool {
        matches!(self, WlKind::Tiered | WlKind::TieredFlex | WlKind::TieredMerkle)
    }
    fn flex(self) -> bool {
        matches!(self, WlKind::Flex | WlKind::TieredFlex)
    }
    fn merkle(self) -> bool {
        matches!(self, WlKind::Merkle | WlKind::TieredMerkle)
    }
}

/// contract kind: the 28 contracts of the table
#[derive(Clone, Copy, Debug, PartialEq, Eq, PartialOrd, Ord, Serialize, Deserialize)]
pub enum CK {
    Factory(FactoryKind),
    Minter(MinterKind),
    Coll(CollKind),
    Wl(WlKind),
    /// with_admin
    Splits(bool),
    Airdrop,
}
impl CK {
    pub fn all() -> Vec<CK> {
        let mut v = vec![];
        v.extend(FactoryKind::ALL.iter().map(|k| CK::Factory(*k)));
        v.extend(MinterKind::ALL.iter().map(|k| CK::Minter(*k)));
        v.extend(CollKind::ALL.iter().map(|k| CK::Coll(*k)));
        v.extend(WlKind::ALL.iter().map(|k| CK::Wl(*k)));
        v.push(CK::Splits(true));
        v.push(CK::Splits(false));
        v.push(CK::Airdrop);
        v
    }
    pub fn name(self) -> String {
        match self {
            CK::Factory(k) => k.name().to_string(),
            CK::Minter(k) => k.name().to_string(),
            CK::Coll(k) => k.name().to_string(),
            CK::Wl(k) => k.name().to_string(),
            CK::Splits(true) => "splits".to_string(),
            CK::Splits(false) => "splits-no-admin".to_string(),
            CK::Airdrop => "sg-eth-airdrop".to_string(),
        }
    }
    pub fn contract(self) -> String {
        match self {
            CK::Splits(_) => "splits".to_string(),
            _ => self.name(),
        }
    }
}

/// The roles the property sentence names as owners of operations.
#[derive(Clone, Copy, Debug, PartialEq, Eq, PartialOrd, Ord, Serialize, Deserialize)]
pub enum P {
    /// "minter configuration, airdrops and burn-remaining only for the minter admin"
    MinterAdmin,
    /// "base-minter mints only for the collection creator"
    BaseMinterCreator,
    /// "token minting and trading-time updates on a collection only for its minter"
    CollMinter,
    /// cw-ownable hand-over: only the proposed new minter may accept
    CollPendingMinter,
    /// "collection-info, freeze and token-metadata updates only for the collection creator"
    Creator,
    /// moving / burning a token: its owner, an approved spender, an operator of the owner
    TokenSender,
    /// granting / revoking an approval on a token: its owner or an operator of the owner
    TokenApprover,
    /// "whitelist membership, schedule ... only for whitelist admins"
    WlAdmin,
    /// "admin-list changes only for whitelist admins (and never once frozen)"
    WlAdminWhileMutable,
    /// "splits distribution only for the admin, or any group member when no admin is set"
    SplitsDistributor,
    /// changing the splits admin: the admin
    SplitsAdmin,
    /// the wallet named in the signed claim text
    ClaimWallet,
}

pub struct Msg {
    pub kind: &'static str,
    pub json: Value,
    pub funds: u128,
    /// the model's message (a Coq `amsg` term)
    pub coq: String,
    /// the model decides the outcome of this message completely when sent with these
    /// arguments (no payment / time / supply guard besides what Auth.v models)
    pub complete: bool,
}

pub struct World {
    pub app: App,
    pub ck: CK,
    pub state: String,
    pub target: Addr,
    /// role name -> sender address, in sweep order
    pub roles: Vec<(String, String)>,
    /// every contract of the world (their storage is digested around each call)
    pub contracts: Vec<Addr>,
    /// accounts whose balances are tracked
    pub accounts: Vec<String>,
    /// who holds each principal role in this state, according to the history that built it
    pub principals: BTreeMap<P, Vec<String>>,
    pub aux: BTreeMap<String, String>,
    pub ids: Ids,
    /// what GOVERNANCE last set (sudo): the minter's Status as bits 4/2/1 and the factory's
    /// Params answer; no user message may move either
    pub gov_status: Option<u64>,
    pub gov_params: Option<String>,
    /// the contract's wasm-level admin (the only account the chain lets migrate it)
    pub wasm_admin: Option<String>,
}

pub const ACCOUNTS: [&str; 23] = [
    "creator", "creator2", "buyer1", "stranger", "governance", "spender1", "oper1", "wladmin1", "wladmin2", "wladmin3",
    "wlmember", "spadmin", "spadmin2", "member1", "member2", "nonmember",
    // the secondary addresses a configuration can carry, each its own account
    "payer1", "payaddr", "royalty1", "devfee1", "wlowner", "groupadmin", "airadmin",
];

/// the same id for the same string in every world, so cases are comparable across rows
pub fn fresh_ids() -> Ids {
    let mut ids = Ids::with_fixed(&[], 10);
    for a in ACCOUNTS {
        ids.id(a);
    }
    for i in 0..12 {
        ids.id(&format!("contract{}", i));
    }
    ids
}

fn fund_all(app: &mut App) {
    for a in ACCOUNTS {
        chain::mint_coins(app, a, 1_000_000_000_000, NATIVE);
    }
}

/// instantiate with a wasm-level admin (what the factories / minters do for the contracts they create)
pub fn instantiate_admin(app: &mut App, code_id: u64, sender: &str, admin: Option<&str>, msg: &Value, funds: u128, label: &str) -> Result<Addr, String> {
    use cosmwasm_std::{CosmosMsg, WasmMsg};
    let f = if funds > 0 { vec![coin(funds, NATIVE)] } else { vec![] };
    let m: CosmosMsg = WasmMsg::Instantiate {
        admin: admin.map(|a| a.to_string()),
        code_id,
        msg: Binary::from(serde_json::to_vec(msg).unwrap()),
        funds: f,
        label: label.to_string(),
    }
    .into();
    match crate::util::catch(|| app.execute(Addr::unchecked(sender), m)) {
        Ok(Ok(r)) => instantiated_addrs(&r).first().cloned().ok_or_else(|| "no instantiate event".to_string()),
        Ok(Err(e)) => Err(format!("{:#}", e)),
        Err(p) => Err(p),
    }
}

/// the factory's SudoMsg::UpdateParams that changes only max_trading_offset_secs
pub fn offset_update_json(kind: FactoryKind, offset: u64) -> Value {
    crate::c18::upd_json(kind, &crate::c18::Upd { offset: Some(offset), ..Default::default() })
}

/// Governance acts: Status {verified, blocked, explicit} all set on the minter, a
/// non-default trading offset on the factory.  From here on a user message that resets
/// either to its default (or to anything else) is visible.
pub fn govern(w: &mut World, kind: FactoryKind, factory: &Addr, minter: Option<&Addr>) -> Result<(), String> {
    let p0 = q_params(&w.app, factory)?;
    let off = p0.get("max_trading_offset_secs").and_then(|x| x.as_u64()).ok_or("no offset")?;
    sudo_json(&mut w.app, factory, &offset_update_json(kind, off + 1)).map_err(|e| format!("governance UpdateParams: {}", e))?;
    let p1 = q_params(&w.app, factory)?;
    if p1.get("max_trading_offset_secs").and_then(|x| x.as_u64()) != Some(off + 1) {
        return Err("governance UpdateParams did not take effect".into());
    }
    w.gov_params = Some(p1.to_string());
    if let Some(m) = minter {
        sudo_update_status(&mut w.app, m, true, true, true).map_err(|e| format!("governance UpdateStatus: {}", e))?;
        if status_bits(&w.app, m) != 7 {
            return Err("governance UpdateStatus did not take effect".into());
        }
        w.gov_status = Some(7);
    }
    Ok(())
}

/// what the queries answer now: (minter Status bits, factory Params text)
pub fn gov_view(w: &World) -> (Option<u64>, Option<String>) {
    let minter = match w.ck {
        CK::Minter(_) => Some(w.target.clone()),
        _ => None,
    };
    let factory = match w.ck {
        CK::Factory(_) => Some(w.target.clone()),
        CK::Minter(_) => w.aux.get("factory").map(|a| Addr::unchecked(a.clone())),
        _ => None,
    };
    (
        minter.map(|m| status_bits(&w.app, &m)),
        factory.map(|f| q_params(&w.app, &f).map(|p| p.to_string()).unwrap_or_else(|e| format!("error {}", e))),
    )
}

fn ts(n: u64) -> Value {
    json!(n.to_string())
}

impl World {
    pub fn addr(&self, key: &str) -> String {
        self.aux.get(key).cloned().unwrap_or_else(|| panic!("world {} has no {}", self.ck.name(), key))
    }
    pub fn num(&self, key: &str) -> u64 {
        self.addr(key).parse().unwrap()
    }
    pub fn role_addr(&self, role: &str) -> Option<String> {
        self.roles.iter().find(|(r, _)| r == role).map(|(_, a)| a.clone())
    }
    pub fn env_coq(&self) -> String {
        format!("(mkAE {} {})", chain::now(&self.app), self.app.block_info().height)
    }
    pub fn is_principal(&self, p: P, addr: &str) -> bool {
        self.principals.get(&p).map(|v| v.iter().any(|a| a == addr)).unwrap_or(false)
    }
    /// digest of every contract's raw storage and every tracked balance
    pub fn snapshot(&self) -> String {
        let mut s = String::new();
        for c in &self.contracts {
            s.push_str(&chain::storage_digest(&self.app, c));
            s.push('|');
            s.push_str(&chain::balance(&self.app, c.as_str(), NATIVE).to_string());
            s.push('|');
        }
        for a in &self.accounts {
            s.push_str(&chain::balance(&self.app, a, NATIVE).to_string());
            s.push('|');
        }
        s.push_str(&chain::balance(&self.app, chain::FAIRBURN_POOL, NATIVE).to_string());
        s
    }
    fn exec(&mut self, sender: &str, contract: &Addr, msg: &Value, funds: u128) -> Result<(), String> {
        let f = if funds > 0 { vec![coin(funds, NATIVE)] } else { vec![] };
        exec_json(&mut self.app, sender, contract, msg, &f).map(|_| ())
    }
    fn must(&mut self, what: &str, sender: &str, contract: &Addr, msg: &Value, funds: u128) -> Result<(), String> {
        self.exec(sender, contract, msg, funds).map_err(|e| format!("state setup `{}` failed: {}", what, e))
    }
}

// ------------------------------------------------------------------ a receiver for SendNft
#[derive(Serialize, Deserialize, Debug, Clone)]
#[serde(rename_all = "snake_case")]
pub enum PuppetExec {
    ReceiveNft(cw721::Cw721ReceiveMsg),
}
fn puppet() -> Box<dyn Contract<Empty>> {
    fn exec(_d: cosmwasm_std::DepsMut, _e: cosmwasm_std::Env, _i: cosmwasm_std::MessageInfo, _m: PuppetExec) -> StdResult<Response> {
        Ok(Response::new())
    }
    fn inst(_d: cosmwasm_std::DepsMut, _e: cosmwasm_std::Env, _i: cosmwasm_std::MessageInfo, _m: Empty) -> StdResult<Response> {
        Ok(Response::new())
    }
    fn query(_d: cosmwasm_std::Deps, _e: cosmwasm_std::Env, _m: Empty) -> StdResult<Binary> {
        Ok(Binary::default())
    }
    Box::new(ContractWrapper::new(exec, inst, query))
}

// ------------------------------------------------------------------ minter creation with every secondary address distinct
pub const PAYER: &str = "payer1"; // sends (and pays for) CreateMinter: becomes the minter's wasm admin
pub const PAYADDR: &str = "payaddr"; // init_msg.payment_address (vending and open-edition minters)
pub const ROYALTY: &str = "royalty1"; // collection royalty_info.payment_address
pub const DEVFEE: &str = "devfee1"; // open-edition factory params: dev_fee_address

/// As w_factory::setup_minter_with, but nobody doubles: CreateMinter is SENT by PAYER for a
/// collection whose creator is CREATOR, proceeds go to PAYADDR, royalties to ROYALTY, the
/// open-edition developer fee to DEVFEE.  The only account that may hold a reserved role on
/// the minter is CREATOR.
pub fn setup_minter_c05(kind: MinterKind, tweak: impl FnOnce(&mut FParams, &mut CreateReq)) -> Result<MinterWorld, String> {
    let mut app = chain::new_app();
    let sg721_code_id = app.store_code(chain::sg721_base());
    let minter_code_id = app.store_code(kind.code());
    let fk = kind.factory();
    let factory_code_id = app.store_code(fk.code());
    let mut params = default_params(fk, minter_code_id, &[sg721_code_id]);
    params.dev_fee_address = DEVFEE.to_string();
    let mut req = CreateReq::standard(fk, sg721_code_id, &params.creation_fee);
    tweak(&mut params, &mut req);
    chain::mint_coins(&mut app, PAYER, 1_000_000_000_000_000, NATIVE);
    let factory = instantiate_factory(&mut app, fk, factory_code_id, &params)?;
    let mut msg = create_msg_json(&app, fk, CREATOR, &req);
    if matches!(fk, FactoryKind::Vending | FactoryKind::OpenEdition) {
        msg["create_minter"]["init_msg"]["payment_address"] = json!(PAYADDR);
    }
    msg["create_minter"]["collection_params"]["info"]["royalty_info"]["payment_address"] = json!(ROYALTY);
    let funds: Vec<cosmwasm_std::Coin> = req.funds.iter().map(|(d, a)| coin(*a, d.clone())).collect();
    let res = exec_json(&mut app, PAYER, &factory, &msg, &funds)?;
    let addrs = instantiated_addrs(&res);
    if addrs.len() < 2 {
        return Err(format!("CreateMinter instantiated {} contracts", addrs.len()));
    }
    Ok(MinterWorld {
        app,
        kind,
        factory,
        minter: addrs[0].clone(),
        collection: addrs[1].clone(),
        sg721_code_id,
        minter_code_id,
        factory_code_id,
        params,
    })
}

fn secondary_roles() -> Vec<(String, String)> {
    vec![
        ("payer-wasm-admin".to_string(), PAYER.to_string()),
        ("payment-address".to_string(), PAYADDR.to_string()),
        ("royalty-address".to_string(), ROYALTY.to_string()),
        ("dev-fee-address".to_string(), DEVFEE.to_string()),
    ]
}

// ------------------------------------------------------------------ states
pub fn states(ck: CK, thorough: bool) -> Vec<&'static str> {
    match ck {
        CK::Factory(_) => vec!["fresh"],
        CK::Minter(k) => {
            let mut v = vec!["fresh", "started"];
            if k.factory() == FactoryKind::OpenEdition {
                v.push("ended");
            }
            if thorough || matches!(k, MinterKind::Base | MinterKind::Vending | MinterKind::OpenEdition | MinterKind::TokenMerge) {
                v.push("creator-handover");
            }
            v
        }
        CK::Coll(k) => {
            let mut v = vec!["fresh", "creator-handover", "info-frozen"];
            if k.has_ownership_msg() {
                v.extend(["ownership-pending", "ownership-accepted", "ownership-renounced", "ownership-pending-expired"]);
                // the deadline guard at its boundary: 1 ns before / at the time, one block before / at the height
                v.extend(["ownership-pending-before-deadline", "ownership-pending-height", "ownership-pending-height-expired"]);
            }
            if k == CollKind::Updatable {
                v.extend(["metadata-frozen", "updatable-disabled"]);
            }
            v
        }
        CK::Wl(WlKind::Immutable) => vec!["fresh"],
        CK::Wl(_) => {
            let mut v = vec!["fresh", "started", "admins-updated", "frozen", "instantiated-immutable"];
            if thorough {
                v.push("updated-then-frozen");
            }
            v
        }
        CK::Splits(true) => vec!["fresh", "admin-updated", "admin-removed"],
        CK::Splits(false) => vec!["fresh"],
        CK::Airdrop => vec!["fresh"],
    }
}

pub fn build(ck: CK, state: &str) -> Result<World, String> {
    match ck {
        CK::Factory(k) => factory_world(k, state),
        CK::Minter(k) => minter_world(k, state),
        CK::Coll(k) => coll_world(k, state),
        CK::Wl(k) => wl_world(k, state),
        CK::Splits(adm) => splits_world(adm, state),
        CK::Airdrop => Err("airdrop world: see c05.rs".into()),
    }
}

// ------------------------------------------------------------------ factories
fn factory_world(kind: FactoryKind, state: &str) -> Result<World, String> {
    // the factory of the kind with its first minter variant's code; one minter already
    // created so that the world also holds a minter and a collection
    let mk = kind.minters()[0];
    let mw = setup_minter_c05(mk, |_, _| {})?;
    let mut app = mw.app;
    fund_all(&mut app);
    let mut aux = BTreeMap::new();
    aux.insert("factory".into(), mw.factory.to_string());
    aux.insert("minter".into(), mw.minter.to_string());
    aux.insert("collection".into(), mw.collection.to_string());
    aux.insert("sg721_code".into(), mw.sg721_code_id.to_string());
    aux.insert("creation_fee".into(), mw.params.creation_fee.1.to_string());
    let mut roles = secondary_roles();
    roles.extend(vec![
        ("stranger".to_string(), "stranger".to_string()),
        ("buyer".to_string(), "buyer1".to_string()),
        ("governance".to_string(), GOV.to_string()),
        ("minter-contract".to_string(), mw.minter.to_string()),
        ("factory-itself".to_string(), mw.factory.to_string()),
        ("creator".to_string(), CREATOR.to_string()),
    ]);
    let (fac, min) = (mw.factory.clone(), mw.minter.clone());
    let mut w = World {
        app,
        ck: CK::Factory(kind),
        state: state.to_string(),
        target: mw.factory.clone(),
        roles,
        contracts: vec![mw.factory, mw.minter, mw.collection],
        accounts: ACCOUNTS.iter().map(|s| s.to_string()).collect(),
        principals: BTreeMap::new(),
        aux,
        ids: fresh_ids(),
        gov_status: None,
        gov_params: None,
        wasm_admin: None,
    };
    govern(&mut w, kind, &fac, Some(&min))?;
    Ok(w)
}

/// a factory with a wasm-level admin ("fadmin"), so that MsgMigrateContract has a caller
/// the chain lets through; governance has set a non-default trading offset
pub fn factory_migrate_world(kind: FactoryKind) -> Result<World, String> {
    let mut app = chain::new_app();
    fund_all(&mut app);
    let sg721 = app.store_code(chain::sg721_base());
    let mcode = app.store_code(kind.minters()[0].code());
    let fcode = app.store_code(kind.code());
    let params = default_params(kind, mcode, &[sg721]);
    let factory = instantiate_admin(&mut app, fcode, GOV, Some("fadmin"), &json!({ "params": params_json(kind, &params) }), 0, kind.name())?;
    let mut w = World {
        app,
        ck: CK::Factory(kind),
        state: "governed".to_string(),
        target: factory.clone(),
        roles: vec![
            ("stranger".to_string(), "stranger".to_string()),
            ("creator".to_string(), CREATOR.to_string()),
            ("governance-account".to_string(), GOV.to_string()),
            ("factory-itself".to_string(), factory.to_string()),
            ("wasm-admin".to_string(), "fadmin".to_string()),
        ],
        contracts: vec![factory.clone()],
        accounts: ACCOUNTS.iter().map(|s| s.to_string()).collect(),
        principals: BTreeMap::new(),
        aux: BTreeMap::new(),
        ids: fresh_ids(),
        gov_status: None,
        gov_params: None,
        wasm_admin: Some("fadmin".to_string()),
    };
    govern(&mut w, kind, &factory, None)?;
    // nothing is created in this world: governance has also frozen the factory, so a
    // user message that un-freezes it (or resets anything to its default) shows
    let fr = crate::c18::upd_json(kind, &crate::c18::Upd { frozen: Some(true), ..Default::default() });
    sudo_json(&mut w.app, &factory, &fr).map_err(|e| format!("governance freeze: {}", e))?;
    let p = q_params(&w.app, &factory)?;
    if p.get("frozen").and_then(|b| b.as_bool()) != Some(true) {
        return Err("governance freeze did not take effect".into());
    }
    w.gov_params = Some(p.to_string());
    Ok(w)
}

// ------------------------------------------------------------------ minters
fn spare_whitelist_kind(k: MinterKind) -> Option<WlKind> {
    match k {
        MinterKind::Base | MinterKind::TokenMerge => None,
        MinterKind::VendingWlFlex | MinterKind::VendingWlFlexFeatured | MinterKind::OpenEditionWlFlex => Some(WlKind::Flex),
        MinterKind::OpenEditionMerkleWl => Some(WlKind::Merkle),
        _ => Some(WlKind::Plain),
    }
}

pub fn public_mint_json(k: MinterKind) -> Value {
    match k {
        MinterKind::VendingMerkleWl | MinterKind::VendingMerkleWlFeatured | MinterKind::OpenEditionMerkleWl => {
            json!({"mint": {"stage": null, "proof_hashes": null, "allocation": null}})
        }
        _ => json!({"mint": {}}),
    }
}

fn minter_world(kind: MinterKind, state: &str) -> Result<World, String> {
    let fk = kind.factory();
    let oe = fk == FactoryKind::OpenEdition;
    let mw = setup_minter_c05(kind, |_, r| {
        if oe {
            // a counted edition with an end: BurnRemaining and UpdateEndTime both have a valid call
            r.num_tokens = Some(100);
            r.mint_price = (NATIVE.to_string(), 200_000_000);
        }
    })?;
    let created_at = chain::now(&mw.app);
    let start = created_at + 100 * S;
    let end = start + 10_000 * S;
    let price: u128 = if oe { 200_000_000 } else { 100_000_000 };
    let mut w = World {
        app: mw.app,
        ck: CK::Minter(kind),
        state: state.to_string(),
        target: mw.minter.clone(),
        roles: vec![
            ("payer-wasm-admin".to_string(), PAYER.to_string()),
            ("payment-address".to_string(), PAYADDR.to_string()),
            ("royalty-address".to_string(), ROYALTY.to_string()),
            ("dev-fee-address".to_string(), DEVFEE.to_string()),
            ("stranger".to_string(), "stranger".to_string()),
            ("buyer".to_string(), "buyer1".to_string()),
            ("new-creator".to_string(), "creator2".to_string()),
            ("governance".to_string(), GOV.to_string()),
            ("factory-contract".to_string(), mw.factory.to_string()),
            ("collection-contract".to_string(), mw.collection.to_string()),
            ("minter-itself".to_string(), mw.minter.to_string()),
            ("creator".to_string(), CREATOR.to_string()),
        ],
        contracts: vec![mw.factory.clone(), mw.minter.clone(), mw.collection.clone()],
        accounts: ACCOUNTS.iter().map(|s| s.to_string()).collect(),
        principals: BTreeMap::new(),
        aux: BTreeMap::new(),
        ids: fresh_ids(),
        gov_status: None,
        gov_params: None,
        wasm_admin: None,
    };
    fund_all(&mut w.app);
    w.aux.insert("factory".into(), mw.factory.to_string());
    w.aux.insert("minter".into(), mw.minter.to_string());
    w.aux.insert("collection".into(), mw.collection.to_string());
    w.aux.insert("start".into(), start.to_string());
    w.aux.insert("end".into(), end.to_string());
    w.aux.insert("price".into(), price.to_string());
    // a whitelist the admin could attach (SetWhitelist), created by the creator
    if let Some(wk) = spare_whitelist_kind(kind) {
        let code = w.app.store_code(wk.code());
        let min_price: u128 = if oe { 100_000_000 } else { 50_000_000 };
        let (msg, fee) = wl_instantiate_json(wk, created_at + 10 * S, created_at + 90 * S, min_price, &["creator"], true);
        let r = crate::util::catch(|| {
            w.app.instantiate_contract(code, Addr::unchecked(CREATOR), &msg, &[coin(fee, NATIVE)], "spare-wl", None)
        });
        match r {
            Ok(Ok(a)) => {
                w.aux.insert("spare_whitelist".into(), a.to_string());
                w.contracts.push(a);
            }
            Ok(Err(e)) => return Err(format!("spare whitelist: {:#}", e)),
            Err(p) => return Err(p),
        }
    }
    w.principals.insert(P::MinterAdmin, vec![CREATOR.to_string()]);
    w.principals.insert(P::BaseMinterCreator, vec![CREATOR.to_string()]);
    // the factory made the creator the wasm admin of the minter; governance has acted
    w.wasm_admin = w.app.wrap().query_wasm_contract_info(mw.minter.to_string()).ok().and_then(|i| i.admin);
    govern(&mut w, fk, &mw.factory, Some(&mw.minter))?;
    let minter = mw.minter.clone();
    let collection = mw.collection.clone();
    match state {
        "fresh" => {}
        "started" => {
            chain::set_time(&mut w.app, start + S);
            if !matches!(kind, MinterKind::Base | MinterKind::TokenMerge) {
                w.must("public mint", "buyer1", &minter, &public_mint_json(kind), price)?;
            }
        }
        "ended" => {
            chain::set_time(&mut w.app, end + S);
        }
        "creator-handover" => {
            // the collection's creator hands over to creator2: the base minter follows the
            // collection's current creator, the other minters keep the admin they were created with
            let m = json!({"update_collection_info": {"collection_info": {"description": null, "image": null,
                "external_link": null, "explicit_content": null, "royalty_info": null, "creator": "creator2"}}});
            w.must("creator hand-over", CREATOR, &collection, &m, 0)?;
            w.principals.insert(P::BaseMinterCreator, vec!["creator2".to_string()]);
        }
        s => return Err(format!("no minter state {}", s)),
    }
    Ok(w)
}

fn mfamily_coq(k: MinterKind) -> &'static str {
    match k.factory() {
        FactoryKind::Base => "FBase",
        FactoryKind::Vending => "FVending",
        FactoryKind::OpenEdition => "FOpenEdition",
        FactoryKind::TokenMerge => "FTokenMerge",
    }
}

fn minter_msgs(w: &mut World, kind: MinterKind) -> Vec<Msg> {
    let now = chain::now(&w.app);
    let start = w.num("start");
    let end = w.num("end");
    let price: u128 = w.addr("price").parse().unwrap();
    let fk = kind.factory();
    let m = |kind: &'static str, json: Value, funds: u128, k: &str| Msg { kind, json, funds, coq: format!("(MM {})", k), complete: false };
    let trading = ts(now.max(start) + 60 * S);
    if fk == FactoryKind::Base {
        return vec![
            m("mint", json!({"mint": {"token_uri": "ipfs://bafybeiavall5udkxkdtdm4djezoxrmfc6o5fn2ug3ymrlvibvwmwydgrkm/1.json"}}), 50_000_000, "KMint"),
            m("update_start_trading_time", json!({"update_start_trading_time": trading}), 0, "KUpdateStartTradingTime"),
        ];
    }
    let oe = fk == FactoryKind::OpenEdition;
    let tm = fk == FactoryKind::TokenMerge;
    let airdrop: u128 = if oe { 100_000_000 } else { 0 };
    let mut v = vec![];
    if !tm {
        v.push(m("mint", public_mint_json(kind), price, "KMint"));
        let wl = w.aux.get("spare_whitelist").cloned().unwrap_or_default();
        v.push(m("set_whitelist", json!({"set_whitelist": {"whitelist": wl}}), 0, "KSetWhitelist"));
        let newp: u128 = if oe { 150_000_000 } else { 90_000_000 };
        v.push(m("update_mint_price", json!({"update_mint_price": {"price": newp.to_string()}}), 0, "KUpdateMintPrice"));
    } else {
        v.push(m(
            "receive_nft",
            json!({"receive_nft": {"sender": "buyer1", "token_id": "1", "msg": "e30="}}),
            0,
            "KReceiveNft",
        ));
    }
    v.push(m("purge", json!({"purge": {}}), 0, "KPurge"));
    v.push(m("update_start_time", json!({"update_start_time": ts(start + 5 * S)}), 0, "KUpdateStartTime"));
    if oe {
        v.push(m("update_end_time", json!({"update_end_time": ts(end + 5 * S)}), 0, "KUpdateEndTime"));
    }
    v.push(m("update_start_trading_time", json!({"update_start_trading_time": trading}), 0, "KUpdateStartTradingTime"));
    v.push(m("update_per_address_limit", json!({"update_per_address_limit": {"per_address_limit": 2}}), 0, "KUpdatePerAddressLimit"));
    v.push(m("mint_to", json!({"mint_to": {"recipient": "buyer1"}}), airdrop, "KMintTo"));
    if !oe {
        v.push(m("mint_for", json!({"mint_for": {"token_id": 7, "recipient": "buyer1"}}), airdrop, "KMintFor"));
        v.push(m("shuffle", json!({"shuffle": {}}), 500_000_000, "KShuffle"));
    }
    v.push(m("burn_remaining", json!({"burn_remaining": {}}), 0, "KBurnRemaining"));
    if fk == FactoryKind::Vending {
        v.push(m("update_discount_price", json!({"update_discount_price": {"price": "80000000"}}), 0, "KUpdateDiscountPrice"));
        v.push(m("remove_discount_price", json!({"remove_discount_price": {}}), 0, "KRemoveDiscountPrice"));
    }
    v
}

fn status_bits(app: &App, minter: &Addr) -> u64 {
    match q_status(app, minter) {
        Ok((v, b, e)) => (v as u64) * 4 + (b as u64) * 2 + e as u64,
        Err(_) => 99,
    }
}

fn minter_obs(w: &mut World, kind: MinterKind) -> String {
    let minter = w.target.clone();
    let coll = Addr::unchecked(w.addr("collection"));
    let fac = Addr::unchecked(w.addr("factory"));
    let cfg = query_json(&w.app, &minter, &json!({"config": {}})).unwrap_or(Value::Null);
    let admin = cfg.get("admin").and_then(|a| a.as_str()).map(|a| w.ids.id(a)).unwrap_or(0);
    let ci = query_json(&w.app, &coll, &json!({"collection_info": {}})).unwrap_or(Value::Null);
    let creator = ci.get("creator").and_then(|a| a.as_str()).map(|a| w.ids.id(a)).unwrap_or(0);
    let status = status_bits(&w.app, &minter);
    let params = q_params(&w.app, &fac).map(|p| p.to_string()).unwrap_or_else(|e| format!("error {}", e));
    let pid = w.ids.id(&format!("params:{}", params));
    format!("(AMinter {} (mkMS {} {} {} {}))", mfamily_coq(kind), admin, creator, status, pid)
}

// ------------------------------------------------------------------ collections
fn coll_ext(k: CollKind) -> Value {
    match k {
        CollKind::Metadata => json!({"image": null, "image_data": null, "external_url": null, "description": null, "name": "one",
            "attributes": null, "background_color": null, "animation_url": null, "youtube_url": null}),
        _ => Value::Null,
    }
}
pub fn coll_instantiate_json(minter: &str, creator: &str) -> Value {
    json!({"name": "Collection", "symbol": "COL", "minter": minter,
        "collection_info": {"creator": creator, "description": "a collection", "image": "https://example.com/image.png",
            "external_link": "https://example.com/external.html", "explicit_content": false, "start_trading_time": null,
            "royalty_info": {"payment_address": ROYALTY, "share": "0.1"}}})
}
fn coll_mint_json(k: CollKind, id: &str, owner: &str) -> Value {
    json!({"mint": {"token_id": id, "owner": owner, "token_uri": format!("ipfs://tokens/{}", id), "extension": coll_ext(k)}})
}
fn update_info_json(k: CollKind, creator: Option<&str>) -> Value {
    let body = json!({"description": "another description", "image": null, "external_link": null,
        "explicit_content": null, "royalty_info": null, "creator": creator});
    if k == CollKind::Nt {
        json!({"update_collection_info": {"new_collection_info": body}})
    } else {
        json!({"update_collection_info": {"collection_info": body}})
    }
}
fn freeze_info_json(k: CollKind) -> Value {
    match k {
        // a unit variant in sg721::ExecuteMsg, a struct variant in the other two enums
        CollKind::Base | CollKind::Metadata => json!("freeze_collection_info"),
        _ => json!({"freeze_collection_info": {}}),
    }
}

fn coll_world(kind: CollKind, state: &str) -> Result<World, String> {
    // a real vending world; the collection under test is instantiated by the real minter
    // contract's address (the sender of an instantiate must be a contract) and owned by it
    let mw = setup_minter_c05(MinterKind::Vending, |_, _| {})?;
    let mut app = mw.app;
    fund_all(&mut app);
    let code = app.store_code(kind.code());
    let pcode = app.store_code(puppet());
    let minter = mw.minter.to_string();
    let minter2 = mw.factory.to_string(); // another contract address: the hand-over target
    // as the minters do: the creator becomes the collection's wasm admin
    let coll = instantiate_admin(&mut app, code, &minter, Some(CREATOR), &coll_instantiate_json(&minter, CREATOR), 0, "coll-under-test")
        .map_err(|e| format!("collection instantiate by the minter contract failed: {}", e))?;
    let receiver = instantiate_json(&mut app, pcode, CREATOR, &json!({}), "receiver").map_err(|e| format!("puppet: {}", e))?;
    let mut w = World {
        app,
        ck: CK::Coll(kind),
        state: state.to_string(),
        target: coll.clone(),
        roles: vec![
            ("royalty-address".to_string(), ROYALTY.to_string()),
            ("minter-payment-address".to_string(), PAYADDR.to_string()),
            ("minter-payer".to_string(), PAYER.to_string()),
            ("stranger".to_string(), "stranger".to_string()),
            ("new-creator".to_string(), "creator2".to_string()),
            ("governance".to_string(), GOV.to_string()),
            ("other-minter-contract".to_string(), minter2.clone()),
            ("collection-itself".to_string(), coll.to_string()),
            ("approved-spender".to_string(), "spender1".to_string()),
            ("operator".to_string(), "oper1".to_string()),
            ("token-owner".to_string(), "buyer1".to_string()),
            ("creator".to_string(), CREATOR.to_string()),
            ("minter-contract".to_string(), minter.clone()),
        ],
        contracts: vec![coll.clone(), mw.minter.clone(), mw.factory.clone(), receiver.clone()],
        accounts: ACCOUNTS.iter().map(|s| s.to_string()).collect(),
        principals: BTreeMap::new(),
        aux: BTreeMap::new(),
        ids: fresh_ids(),
        gov_status: None,
        gov_params: None,
        wasm_admin: None,
    };
    w.wasm_admin = Some(CREATOR.to_string());
    w.aux.insert("minter".into(), minter.clone());
    w.aux.insert("minter2".into(), minter2.clone());
    w.aux.insert("receiver".into(), receiver.to_string());
    w.aux.insert("code".into(), code.to_string());
    w.ids.id(receiver.as_str());
    // tokens 1 (buyer1) and 2 (creator); buyer1 approves spender1 on token 1 and makes oper1 an operator
    w.must("mint 1", &minter, &coll, &coll_mint_json(kind, "1", "buyer1"), 0)?;
    w.must("mint 2", &minter, &coll, &coll_mint_json(kind, "2", CREATOR), 0)?;
    let mut senders = vec!["buyer1".to_string()];
    let mut approvers = vec!["buyer1".to_string()];
    if kind.has_token_msgs() {
        w.must("approve", "buyer1", &coll, &json!({"approve": {"spender": "spender1", "token_id": "1", "expires": null}}), 0)?;
        w.must("approve_all", "buyer1", &coll, &json!({"approve_all": {"operator": "oper1", "expires": null}}), 0)?;
        senders.extend(["spender1".to_string(), "oper1".to_string()]);
        approvers.push("oper1".to_string());
    }
    w.principals.insert(P::TokenSender, senders);
    w.principals.insert(P::TokenApprover, approvers);
    w.principals.insert(P::CollMinter, vec![minter.clone()]);
    w.principals.insert(P::CollPendingMinter, vec![]);
    w.principals.insert(P::Creator, vec![CREATOR.to_string()]);
    let now = chain::now(&w.app);
    let transfer = |exp: Value| json!({"update_ownership": {"transfer_ownership": {"new_owner": minter2, "expiry": exp}}});
    match state {
        "fresh" => {}
        "creator-handover" => {
            w.must("creator hand-over", CREATOR, &coll, &update_info_json(kind, Some("creator2")), 0)?;
            w.principals.insert(P::Creator, vec!["creator2".to_string()]);
        }
        "info-frozen" => {
            w.must("freeze info", CREATOR, &coll, &freeze_info_json(kind), 0)?;
        }
        "ownership-pending" => {
            w.must("transfer ownership", &minter, &coll, &transfer(Value::Null), 0)?;
            w.principals.insert(P::CollPendingMinter, vec![minter2.clone()]);
        }
        "ownership-pending-expired" => {
            w.must("transfer ownership", &minter, &coll, &transfer(json!({"at_time": (now + 50 * S).to_string()})), 0)?;
            chain::set_time(&mut w.app, now + 50 * S);
            // the offer has lapsed: nobody can accept it any more
            w.principals.insert(P::CollPendingMinter, vec![]);
        }
        "ownership-pending-before-deadline" => {
            w.must("transfer ownership", &minter, &coll, &transfer(json!({"at_time": (now + 50 * S).to_string()})), 0)?;
            chain::set_time(&mut w.app, now + 50 * S - 1);
            w.principals.insert(P::CollPendingMinter, vec![minter2.clone()]);
        }
        "ownership-pending-height" | "ownership-pending-height-expired" => {
            let h = w.app.block_info().height;
            w.must("transfer ownership", &minter, &coll, &transfer(json!({"at_height": h + 2})), 0)?;
            chain::set_time(&mut w.app, now + S); // height h+1: one block before the deadline
            if state == "ownership-pending-height-expired" {
                chain::set_time(&mut w.app, now + 2 * S); // height h+2: lapsed
                w.principals.insert(P::CollPendingMinter, vec![]);
            } else {
                w.principals.insert(P::CollPendingMinter, vec![minter2.clone()]);
            }
        }
        "ownership-accepted" => {
            w.must("transfer ownership", &minter, &coll, &transfer(Value::Null), 0)?;
            w.must("accept ownership", &minter2, &coll, &json!({"update_ownership": "accept_ownership"}), 0)?;
            w.principals.insert(P::CollMinter, vec![minter2.clone()]);
        }
        "ownership-renounced" => {
            w.must("renounce ownership", &minter, &coll, &json!({"update_ownership": "renounce_ownership"}), 0)?;
            w.principals.insert(P::CollMinter, vec![]);
        }
        "metadata-frozen" => {
            w.must("freeze metadata", CREATOR, &coll, &json!({"freeze_token_metadata": {}}), 0)?;
        }
        "updatable-disabled" => {
            // the state a collection migrated from sg721-base is in: ENABLE_UPDATABLE = false
            use cosmwasm_std::Storage;
            let mut st = w.app.contract_storage_mut(&coll);
            st.set(b"enable_updatable", b"false");
        }
        s => return Err(format!("no collection state {}", s)),
    }
    Ok(w)
}

fn coll_msgs(w: &mut World, kind: CollKind) -> Vec<Msg> {
    let now = chain::now(&w.app);
    let stranger = w.ids.id("stranger");
    let receiver = w.addr("receiver");
    let rid = w.ids.id(&receiver);
    let minter2 = w.addr("minter2");
    let m2 = w.ids.id(&minter2);
    let c2 = w.ids.id("creator2");
    let sp2 = w.ids.id("creator2");
    let op2 = w.ids.id("nonmember");
    let mk = |kind: &'static str, json: Value, funds: u128, coq: String, complete: bool| Msg { kind, json, funds, coq: format!("(CM {})", coq), complete };
    let mut v = vec![];
    if kind.has_token_msgs() {
        v.push(mk("transfer_nft", json!({"transfer_nft": {"recipient": "stranger", "token_id": "1"}}), 0, format!("(CTransferNft 1 {})", stranger), true));
        v.push(mk("send_nft", json!({"send_nft": {"contract": receiver, "token_id": "1", "msg": "e30="}}), 0, format!("(CSendNft 1 {})", rid), true));
        v.push(mk("approve", json!({"approve": {"spender": "creator2", "token_id": "1", "expires": null}}), 0, format!("(CApprove 1 {})", sp2), true));
        v.push(mk("revoke", json!({"revoke": {"spender": "spender1", "token_id": "1"}}), 0, format!("(CRevoke 1 {})", w.ids.id("spender1")), true));
        v.push(mk("approve_all", json!({"approve_all": {"operator": "nonmember", "expires": null}}), 0, format!("(CApproveAll {})", op2), true));
        v.push(mk("revoke_all", json!({"revoke_all": {"operator": "oper1"}}), 0, format!("(CRevokeAll {})", w.ids.id("oper1")), true));
        v.push(mk("extension", json!({"extension": {"msg": {}}}), 0, "CExtension".into(), true));
        v.push(mk("update_start_trading_time", json!({"update_start_trading_time": ts(now + 500 * S)}), 0, "CUpdateStartTradingTime".into(), true));
    }
    v.push(mk("mint", coll_mint_json(kind, "9", "stranger"), 0, format!("(CMint 9 {})", stranger), true));
    v.push(mk("burn", json!({"burn": {"token_id": "1"}}), 0, "(CBurn 1)".into(), true));
    v.push(mk("update_collection_info", update_info_json(kind, None), 0, "(CUpdateCollectionInfo None)".into(), true));
    v.push(mk("update_collection_info_creator", update_info_json(kind, Some("creator2")), 0, format!("(CUpdateCollectionInfo (Some {}))", c2), true));
    v.push(mk("freeze_collection_info", freeze_info_json(kind), 0, "CFreezeCollectionInfo".into(), true));
    if kind.has_ownership_msg() {
        v.push(mk(
            "update_ownership_transfer",
            json!({"update_ownership": {"transfer_ownership": {"new_owner": minter2, "expiry": null}}}),
            0,
            format!("(CUpdateOwnership (TransferOwnership {} None))", m2),
            true,
        ));
        v.push(mk("update_ownership_accept", json!({"update_ownership": "accept_ownership"}), 0, "(CUpdateOwnership AcceptOwnership)".into(), true));
        v.push(mk("update_ownership_renounce", json!({"update_ownership": "renounce_ownership"}), 0, "(CUpdateOwnership RenounceOwnership)".into(), true));
    }
    if kind == CollKind::Updatable {
        v.push(mk("freeze_token_metadata", json!({"freeze_token_metadata": {}}), 0, "CFreezeTokenMetadata".into(), true));
        v.push(mk(
            "update_token_metadata",
            json!({"update_token_metadata": {"token_id": "1", "token_uri": "ipfs://tokens/changed"}}),
            0,
            "(CUpdateTokenMetadata 1)".into(),
            true,
        ));
        v.push(mk("enable_updatable", json!({"enable_updatable": {}}), 1_500_000_000, "CEnableUpdatable".into(), true));
    }
    v
}

fn coq_opt(o: Option<u64>) -> String {
    match o {
        Some(x) => format!("(Some {})", x),
        None => "None".into(),
    }
}
fn expiry_coq(v: &Value) -> String {
    if v.is_null() {
        return "None".into();
    }
    if let Some(t) = v.get("at_time").and_then(|t| t.as_str()) {
        return format!("(Some (ExAtTime {}))", t);
    }
    if let Some(h) = v.get("at_height").and_then(|t| t.as_u64()) {
        return format!("(Some (ExAtHeight {}))", h);
    }
    "(Some ExNever)".into()
}

fn coll_obs(w: &mut World, kind: CollKind) -> String {
    let c = w.target.clone();
    // sg721-updatable has no Ownership query (and no UpdateOwnership message): its Minter
    // query answers the cw-ownable owner
    let own = match query_json(&w.app, &c, &json!({"ownership": {}})) {
        Ok(v) => v,
        Err(_) => {
            let m = query_json(&w.app, &c, &json!({"minter": {}})).unwrap_or(Value::Null);
            json!({"owner": m.get("minter").cloned().unwrap_or(Value::Null), "pending_owner": null, "pending_expiry": null})
        }
    };
    let oa = |w: &mut World, k: &str| own.get(k).and_then(|a| a.as_str()).map(|a| w.ids.id(a));
    let owner = oa(w, "owner");
    let pending = oa(w, "pending_owner");
    let expiry = expiry_coq(own.get("pending_expiry").unwrap_or(&Value::Null));
    let ci = query_json(&w.app, &c, &json!({"collection_info": {}})).unwrap_or(Value::Null);
    let creator = ci.get("creator").and_then(|a| a.as_str()).map(|a| w.ids.id(a)).unwrap_or(0);
    let raw_bool = |w: &World, key: &[u8]| -> bool {
        use cosmwasm_std::Storage;
        w.app.contract_storage(&c).get(key).map(|v| v == b"true").unwrap_or(false)
    };
    let frozen = raw_bool(w, b"frozen_collection_info");
    let (meta_frozen, enabled) = if kind == CollKind::Updatable {
        let f = query_json(&w.app, &c, &json!({"freeze_token_metadata": {}})).ok().and_then(|v| v.get("frozen").and_then(|b| b.as_bool()));
        let e = query_json(&w.app, &c, &json!({"enable_updatable": {}})).ok().and_then(|v| v.get("enabled").and_then(|b| b.as_bool()));
        (f.unwrap_or(false), e.unwrap_or(false))
    } else {
        (false, false)
    };
    let mut toks = vec![];
    for id in ["1", "2", "9"] {
        if let Ok(v) = query_json(&w.app, &c, &json!({"owner_of": {"token_id": id, "include_expired": true}})) {
            let owner = v.get("owner").and_then(|a| a.as_str()).map(|a| w.ids.id(a)).unwrap_or(0);
            let apps: Vec<String> = v
                .get("approvals")
                .and_then(|a| a.as_array())
                .map(|a| a.iter().filter_map(|x| x.get("spender").and_then(|s| s.as_str())).map(|s| w.ids.id(s).to_string()).collect())
                .unwrap_or_default();
            toks.push(format!("mkTok {} {} [{}]", id, owner, apps.join("; ")));
        }
    }
    let mut ops = vec![];
    let owners: Vec<String> = w.roles.iter().map(|(_, a)| a.clone()).chain(["nonmember".to_string()]).collect();
    for o in owners {
        if let Ok(v) = query_json(&w.app, &c, &json!({"all_operators": {"owner": o, "include_expired": true, "start_after": null, "limit": 30}})) {
            if let Some(a) = v.get("operators").and_then(|a| a.as_array()) {
                for x in a {
                    if let Some(sp) = x.get("spender").and_then(|s| s.as_str()) {
                        ops.push(format!("({}, {})", w.ids.id(&o), w.ids.id(sp)));
                    }
                }
            }
        }
    }
    format!(
        "(AColl {} (mkCS (mkOwn {} {} {}) {} {} {} {} [{}] [{}]))",
        kind.coq(),
        coq_opt(owner),
        coq_opt(pending),
        expiry,
        creator,
        frozen,
        meta_frozen,
        enabled,
        toks.join("; "),
        ops.join("; ")
    )
}

// ------------------------------------------------------------------ whitelists
const ROOT: &str = "5ab281bca33c9819e0daa0708d20ddd8a8e5b4de2c1dbaa6f1e0d0fcbb4e1b87";
/// tiered-whitelist-merkletree wants 16-byte roots (blake3 truncated)
const ROOT16: &str = "5ab281bca33c9819e0daa0708d20ddd8";

fn stage_json(kind: WlKind, name: &str, s: u64, e: u64, price: u128) -> Value {
    if kind == WlKind::TieredFlex {
        json!({"name": name, "start_time": ts(s), "end_time": ts(e), "mint_price": jcoin(NATIVE, price), "mint_count_limit": null})
    } else {
        json!({"name": name, "start_time": ts(s), "end_time": ts(e), "mint_price": jcoin(NATIVE, price),
               "per_address_limit": 2, "mint_count_limit": null})
    }
}
fn member_json(kind: WlKind, a: &str) -> Value {
    if kind.flex() {
        json!({"address": a, "mint_count": 2})
    } else {
        json!(a)
    }
}

/// (InstantiateMsg, creation fee) of a whitelist of the kind with window [start, end)
pub fn wl_instantiate_json(kind: WlKind, start: u64, end: u64, price: u128, admins: &[&str], mutable: bool) -> (Value, u128) {
    let members: Vec<Value> = ["wlmember", "buyer1"].iter().map(|a| member_json(kind, a)).collect();
    let mid = start + (end - start) / 2;
    match kind {
        WlKind::Plain => (
            json!({"members": members, "start_time": ts(start), "end_time": ts(end), "mint_price": jcoin(NATIVE, price),
                   "per_address_limit": 2, "member_limit": 500, "admins": admins, "admins_mutable": mutable}),
            100_000_000,
        ),
        WlKind::Flex => (
            json!({"members": members, "start_time": ts(start), "end_time": ts(end), "mint_price": jcoin(NATIVE, price),
                   "member_limit": 500, "admins": admins, "admins_mutable": mutable, "whale_cap": null}),
            100_000_000,
        ),
        WlKind::Tiered | WlKind::TieredFlex => {
            let mut m = json!({"members": [members.clone(), members],
                "stages": [stage_json(kind, "one", start, mid, price), stage_json(kind, "two", mid, end, price)],
                "member_limit": 500, "admins": admins, "admins_mutable": mutable});
            if kind == WlKind::TieredFlex {
                m["whale_cap"] = Value::Null;
            }
            (m, 100_000_000)
        }
        WlKind::Merkle => (
            json!({"merkle_root": ROOT, "merkle_tree_uri": null, "start_time": ts(start), "end_time": ts(end),
                   "mint_price": jcoin(NATIVE, price), "per_address_limit": 2, "admins": admins, "admins_mutable": mutable}),
            1_000_000_000,
        ),
        WlKind::TieredMerkle => (
            json!({"stages": [stage_json(kind, "one", start, mid, price), stage_json(kind, "two", mid, end, price)],
                   "merkle_roots": [ROOT16, ROOT16], "merkle_tree_uris": null, "admins": admins, "admins_mutable": mutable}),
            1_000_000_000,
        ),
        WlKind::Immutable => (json!({"addresses": ["wlmember", "buyer1"], "per_address_limit": 2, "mint_discount_bps": null}), 0),
    }
}

fn wl_world(kind: WlKind, state: &str) -> Result<World, String> {
    let mut app = chain::new_app();
    fund_all(&mut app);
    let code = app.store_code(kind.code());
    let now = chain::now(&app);
    let (start, end) = (now + 100 * S, now + 300 * S);
    let mutable = state != "instantiated-immutable";
    let (msg, fee) = wl_instantiate_json(kind, start, end, 50_000_000, &["wladmin1", "wladmin2"], mutable);
    let funds = if fee > 0 { vec![coin(fee, NATIVE)] } else { vec![] };
    let r = crate::util::catch(|| app.instantiate_contract(code, Addr::unchecked("wlowner"), &msg, &funds, "wl", Some("wlowner".to_string())));
    let wl = match r {
        Ok(Ok(a)) => a,
        Ok(Err(e)) => return Err(format!("{} instantiate: {:#}", kind.name(), e)),
        Err(p) => return Err(p),
    };
    let mut w = World {
        app,
        ck: CK::Wl(kind),
        state: state.to_string(),
        target: wl.clone(),
        roles: vec![
            ("instantiator-wasm-admin".to_string(), "wlowner".to_string()),
            ("stranger".to_string(), "stranger".to_string()),
            ("member".to_string(), "wlmember".to_string()),
            ("buyer".to_string(), "buyer1".to_string()),
            ("governance".to_string(), GOV.to_string()),
            ("whitelist-itself".to_string(), wl.to_string()),
            ("later-admin".to_string(), "wladmin3".to_string()),
            ("second-admin".to_string(), "wladmin2".to_string()),
            ("first-admin".to_string(), "wladmin1".to_string()),
        ],
        contracts: vec![wl.clone()],
        accounts: ACCOUNTS.iter().map(|s| s.to_string()).collect(),
        principals: BTreeMap::new(),
        aux: BTreeMap::new(),
        ids: fresh_ids(),
        gov_status: None,
        gov_params: None,
        wasm_admin: None,
    };
    w.aux.insert("start".into(), start.to_string());
    w.aux.insert("end".into(), end.to_string());
    // instantiated (and paid for) by an account that is on no admin list; it is the wasm admin
    w.wasm_admin = Some("wlowner".to_string());
    let a12 = vec!["wladmin1".to_string(), "wladmin2".to_string()];
    let a23 = vec!["wladmin2".to_string(), "wladmin3".to_string()];
    if kind == WlKind::Immutable {
        return Ok(w);
    }
    w.principals.insert(P::WlAdmin, a12.clone());
    w.principals.insert(P::WlAdminWhileMutable, if mutable { a12.clone() } else { vec![] });
    let upd = json!({"update_admins": {"admins": ["wladmin2", "wladmin3"]}});
    match state {
        "fresh" | "instantiated-immutable" => {}
        "started" => chain::set_time(&mut w.app, start + S),
        "admins-updated" => {
            w.must("update admins", "wladmin1", &wl, &upd, 0)?;
            w.principals.insert(P::WlAdmin, a23.clone());
            w.principals.insert(P::WlAdminWhileMutable, a23.clone());
        }
        "frozen" => {
            w.must("freeze", "wladmin2", &wl, &json!({"freeze": {}}), 0)?;
            w.principals.insert(P::WlAdminWhileMutable, vec![]);
        }
        "updated-then-frozen" => {
            w.must("update admins", "wladmin1", &wl, &upd, 0)?;
            w.must("freeze", "wladmin3", &wl, &json!({"freeze": {}}), 0)?;
            w.principals.insert(P::WlAdmin, a23.clone());
            w.principals.insert(P::WlAdminWhileMutable, vec![]);
        }
        s => return Err(format!("no whitelist state {}", s)),
    }
    Ok(w)
}

fn wl_msgs(w: &mut World, kind: WlKind) -> Vec<Msg> {
    if kind == WlKind::Immutable {
        // `pub enum ExecuteMsg {}`: whatever is sent must be refused
        return vec![
            Msg { kind: "add_members", json: json!({"add_members": {"to_add": ["stranger"]}}), funds: 0, coq: "(WM (WOp WAddMembers))".into(), complete: true },
            Msg { kind: "update_admins", json: json!({"update_admins": {"admins": ["stranger"]}}), funds: 0, coq: format!("(WM (WUpdateAdmins [{}]))", w.ids.id("stranger")), complete: true },
            Msg { kind: "freeze", json: json!({"freeze": {}}), funds: 0, coq: "(WM WFreeze)".into(), complete: true },
        ];
    }
    let start = w.num("start");
    let end = w.num("end");
    let op = |kind: &'static str, json: Value, k: &str| Msg { kind, json, funds: 0, coq: format!("(WM (WOp {}))", k), complete: false };
    let mut v = vec![];
    if !kind.tiered() {
        v.push(op("update_start_time", json!({"update_start_time": ts(start + 5 * S)}), "WUpdateStartTime"));
        v.push(op("update_end_time", json!({"update_end_time": ts(end - 5 * S)}), "WUpdateEndTime"));
    }
    if !kind.merkle() {
        let add = member_json(kind, "stranger");
        if kind.tiered() {
            v.push(op("add_members", json!({"add_members": {"to_add": [add], "stage_id": 0}}), "WAddMembers"));
            v.push(op("remove_members", json!({"remove_members": {"to_remove": ["wlmember"], "stage_id": 1}}), "WRemoveMembers"));
            v.push(op(
                "add_stage",
                json!({"add_stage": {"stage": stage_json(kind, "three", end, end + 100 * S, 50_000_000), "members": [member_json(kind, "stranger")]}}),
                "WAddStage",
            ));
            v.push(op("remove_stage", json!({"remove_stage": {"stage_id": 1}}), "WRemoveStage"));
        } else {
            v.push(op("add_members", json!({"add_members": {"to_add": [add]}}), "WAddMembers"));
            v.push(op("remove_members", json!({"remove_members": {"to_remove": ["wlmember"]}}), "WRemoveMembers"));
        }
        if kind == WlKind::Plain {
            v.push(op("update_per_address_limit", json!({"update_per_address_limit": 3}), "WUpdatePerAddressLimit"));
        }
        v.push(op("increase_member_limit", json!({"increase_member_limit": 600}), "WIncreaseMemberLimit"));
    }
    if kind.tiered() {
        let mut m = json!({"stage_id": 1, "name": "renamed", "start_time": null, "end_time": null, "mint_price": null,
            "per_address_limit": null, "mint_count_limit": null});
        if kind == WlKind::TieredFlex {
            m.as_object_mut().unwrap().remove("per_address_limit");
        }
        v.push(op("update_stage_config", json!({"update_stage_config": m}), "WUpdateStageConfig"));
    }
    let l = format!("[{}; {}]", w.ids.id("wladmin2"), w.ids.id("wladmin3"));
    v.push(Msg { kind: "update_admins", json: json!({"update_admins": {"admins": ["wladmin2", "wladmin3"]}}), funds: 0, coq: format!("(WM (WUpdateAdmins {}))", l), complete: true });
    v.push(Msg { kind: "freeze", json: json!({"freeze": {}}), funds: 0, coq: "(WM WFreeze)".into(), complete: true });
    v
}

fn wl_obs(w: &mut World, kind: WlKind) -> String {
    if kind == WlKind::Immutable {
        return "(AWl WImmutable (mkWS [] false))".into();
    }
    let v = query_json(&w.app, &w.target.clone(), &json!({"admin_list": {}})).unwrap_or(Value::Null);
    let admins: Vec<String> = v
        .get("admins")
        .and_then(|a| a.as_array())
        .map(|a| a.iter().filter_map(|x| x.as_str()).map(|s| w.ids.id(s).to_string()).collect())
        .unwrap_or_default();
    let mutable = v.get("mutable").and_then(|b| b.as_bool()).unwrap_or(false);
    format!("(AWl {} (mkWS [{}] {}))", kind.coq(), admins.join("; "), mutable)
}

// ------------------------------------------------------------------ splits
fn splits_world(with_admin: bool, state: &str) -> Result<World, String> {
    let mut app = chain::new_app();
    fund_all(&mut app);
    let gcode = app.store_code(chain::cw4_group());
    let scode = app.store_code(chain::splits());
    let group = instantiate_json(
        &mut app,
        gcode,
        "groupadmin",
        &json!({"admin": "groupadmin", "members": [{"addr": "member1", "weight": 1}, {"addr": "member2", "weight": 2}]}),
        "group",
    )?;
    let admin: Option<&str> = if with_admin { Some("spadmin") } else { None };
    let splits = instantiate_admin(&mut app, scode, "creator", Some("creator"), &json!({"admin": admin, "group": {"cw4_address": group}}), 0, "splits")?;
    chain::mint_coins(&mut app, splits.as_str(), 3_000_000, NATIVE);
    let mut w = World {
        app,
        ck: CK::Splits(with_admin),
        state: state.to_string(),
        target: splits.clone(),
        roles: vec![
            ("group-admin".to_string(), "groupadmin".to_string()),
            ("stranger".to_string(), "stranger".to_string()),
            ("non-member".to_string(), "nonmember".to_string()),
            ("governance".to_string(), GOV.to_string()),
            ("group-contract".to_string(), group.to_string()),
            ("splits-itself".to_string(), splits.to_string()),
            ("creator".to_string(), CREATOR.to_string()),
            ("later-admin".to_string(), "spadmin2".to_string()),
            ("member-one".to_string(), "member1".to_string()),
            ("member-two".to_string(), "member2".to_string()),
            ("admin".to_string(), "spadmin".to_string()),
        ],
        contracts: vec![splits.clone(), group.clone()],
        accounts: ACCOUNTS.iter().map(|s| s.to_string()).collect(),
        principals: BTreeMap::new(),
        aux: BTreeMap::new(),
        ids: fresh_ids(),
        gov_status: None,
        gov_params: None,
        wasm_admin: None,
    };
    w.aux.insert("group".into(), group.to_string());
    w.wasm_admin = Some("creator".to_string());
    let members = vec!["member1".to_string(), "member2".to_string()];
    if with_admin {
        w.principals.insert(P::SplitsDistributor, vec!["spadmin".to_string()]);
        w.principals.insert(P::SplitsAdmin, vec!["spadmin".to_string()]);
    } else {
        w.principals.insert(P::SplitsDistributor, members.clone());
        w.principals.insert(P::SplitsAdmin, vec![]);
    }
    match state {
        "fresh" => {}
        "admin-updated" => {
            w.must("update admin", "spadmin", &splits, &json!({"update_admin": {"admin": "spadmin2"}}), 0)?;
            w.principals.insert(P::SplitsDistributor, vec!["spadmin2".to_string()]);
            w.principals.insert(P::SplitsAdmin, vec!["spadmin2".to_string()]);
        }
        "admin-removed" => {
            w.must("remove admin", "spadmin", &splits, &json!({"update_admin": {"admin": null}}), 0)?;
            w.principals.insert(P::SplitsDistributor, members);
            w.principals.insert(P::SplitsAdmin, vec![]);
        }
        s => return Err(format!("no splits state {}", s)),
    }
    Ok(w)
}

fn splits_msgs(w: &mut World) -> Vec<Msg> {
    let a2 = w.ids.id("spadmin2");
    vec![
        Msg { kind: "distribute", json: json!({"distribute": {"denom_list": null}}), funds: 0, coq: "(SM SDistribute)".into(), complete: true },
        Msg { kind: "update_admin", json: json!({"update_admin": {"admin": "spadmin2"}}), funds: 0, coq: format!("(SM (SUpdateAdmin (Some {})))", a2), complete: true },
        Msg { kind: "update_admin_none", json: json!({"update_admin": {"admin": null}}), funds: 0, coq: "(SM (SUpdateAdmin None))".into(), complete: true },
    ]
}

fn splits_obs(w: &mut World) -> String {
    let t = w.target.clone();
    let adm = query_json(&w.app, &t, &json!({"admin": {}})).unwrap_or(Value::Null);
    let a = adm.get("admin").and_then(|a| a.as_str()).map(|a| w.ids.id(a));
    let ml = query_json(&w.app, &t, &json!({"list_members": {"start_after": null, "limit": 30}})).unwrap_or(Value::Null);
    let members: Vec<String> = ml
        .get("members")
        .and_then(|m| m.as_array())
        .map(|m| m.iter().filter_map(|x| x.get("addr").and_then(|s| s.as_str())).map(|s| w.ids.id(s).to_string()).collect())
        .unwrap_or_default();
    format!("(ASplits (mkSS {} [{}]))", coq_opt(a), members.join("; "))
}

// ------------------------------------------------------------------ factories: messages and observation
fn factory_msgs(w: &mut World, kind: FactoryKind) -> Vec<Msg> {
    let code: u64 = w.num("sg721_code");
    let fee: u128 = w.addr("creation_fee").parse().unwrap();
    let req = CreateReq::standard(kind, code, &(NATIVE.to_string(), fee));
    // the creator named in the collection parameters is the sender's business: each role
    // asks for a minter of its own
    let msg = create_msg_json(&w.app, kind, "creator", &req);
    vec![Msg { kind: "create_minter", json: msg, funds: fee, coq: "FCreateMinter".into(), complete: false }]
}
fn factory_obs(w: &mut World) -> String {
    let params = q_params(&w.app, &w.target.clone()).map(|p| p.to_string()).unwrap_or_else(|e| format!("error {}", e));
    format!("(AFactory {})", w.ids.id(&format!("params:{}", params)))
}

// ------------------------------------------------------------------ dispatch
pub fn messages(w: &mut World) -> Vec<Msg> {
    match w.ck {
        CK::Factory(k) => factory_msgs(w, k),
        CK::Minter(k) => minter_msgs(w, k),
        CK::Coll(k) => coll_msgs(w, k),
        CK::Wl(k) => wl_msgs(w, k),
        CK::Splits(_) => splits_msgs(w),
        CK::Airdrop => vec![],
    }
}
pub fn observe(w: &mut World) -> String {
    match w.ck {
        CK::Factory(_) => factory_obs(w),
        CK::Minter(k) => minter_obs(w, k),
        CK::Coll(k) => coll_obs(w, k),
        CK::Wl(k) => wl_obs(w, k),
        CK::Splits(_) => splits_obs(w),
        CK::Airdrop => "AAirdrop".into(),
    }
}

/// sudo-shaped messages: what governance sends through `sudo`, sent through `execute`
pub fn sudo_shaped(ck: CK) -> Vec<(&'static str, Value)> {
    match ck {
        CK::Factory(k) => {
            let mut m = json!({"code_id": 77, "add_sg721_code_ids": [5], "rm_sg721_code_ids": null, "frozen": true,
                "creation_fee": jcoin(NATIVE, 1), "max_trading_offset_secs": 1});
            if k != FactoryKind::TokenMerge {
                m["min_mint_price"] = jcoin(NATIVE, 1);
                m["mint_fee_bps"] = json!(1);
            }
            m["extension"] = match k {
                FactoryKind::Base => Value::Null,
                FactoryKind::OpenEdition => json!({"max_token_limit": 1, "max_per_address_limit": 1, "min_mint_price": null,
                    "airdrop_mint_price": null, "airdrop_mint_fee_bps": null, "dev_fee_address": null}),
                _ => json!({"max_token_limit": 1, "max_per_address_limit": 1, "airdrop_mint_price": null,
                    "airdrop_mint_fee_bps": null, "shuffle_fee": null}),
            };
            vec![("sudo_update_params", json!({"update_params": m}))]
        }
        CK::Minter(_) => vec![
            ("sudo_update_status", json!({"update_status": {"is_verified": true, "is_blocked": true, "is_explicit": true}})),
            ("sudo_update_params", json!({"update_params": {"frozen": true}})),
        ],
        _ => vec![],
    }
}
