//! C17 — token-merge deposits.  Histories of SendNft deposits, direct ReceiveNft calls and
//! admin messages are run on the real token-merge factory/minter and sg721-base
//! collections; after every step the queries the property names and the ownership of
//! every source/target token are recorded as a Coq case for the model comparison, and the
//! property sentence is evaluated on those observations by the monitors below (which
//! keep their own count of accepted deposits and share nothing with the model).
#[path = "c17_world.rs"]
mod world;
use crate::chain;
use crate::util::*;
use crate::Args;
use serde::Deserialize;
use std::collections::{BTreeMap, BTreeSet};
use world::*;

const NACC: usize = ACCOUNTS.len();

struct StepOut {
    /// the pick handed to the model: the id the minter reported, or -- when the call failed -- some id that
    /// was still mintable, so that a call the model would accept is not hidden behind an illegal pick
    oracle: u64,
    pre_cw2: (String, String),
    ok: bool,
    err: String,
    pick: u64,
    post: Obs,
}
struct RunOut {
    init: Obs,
    steps: Vec<StepOut>,
    violations: Vec<(String, String, usize)>, // key, what, step index
    notes: Vec<String>,
}

/// what the monitors remember: deposits accepted for (recipient, collection) since the
/// recipient's last deposit-mint
#[derive(Default)]
struct Shadow {
    credited: BTreeMap<(usize, usize), u32>,
    /// target tokens seen arriving at each account since the last accepted Purge (the monitors' own mint count)
    received: BTreeMap<usize, u64>,
    // supply side (C01 clauses on this minter)
    minted: BTreeSet<u64>,
    burned: u64,
    started: bool,
    /// the start time the admin last set (the creation value until an UpdateStartTime is accepted)
    start: Option<u64>,
}

fn recipient_index(user: usize, recip: &Recip) -> Option<usize> {
    match recip {
        Recip::None => Some(user),
        Recip::Addr(i) => Some(*i),
        Recip::Invalid => None,
    }
}

/// The property text on one step.  `pre`/`post` are query results before/after.
#[allow(clippy::too_many_arguments)]
fn monitor(
    case: &Case,
    st: &Step,
    ok: bool,
    pre: &Obs,
    post: &Obs,
    digest_same: bool,
    sh: &mut Shadow,
    notes: &mut Vec<String>,
) -> Vec<(String, String)> {
    let mut v: Vec<(String, String)> = vec![];
    let nc = case.ncolls;
    let start_ledger = *sh.start.get_or_insert(pre.start);
    macro_rules! bad {
        ($k:expr, $w:expr) => {
            v.push((format!("C17:{}", $k), $w))
        };
    }
    if !ok {
        // a rejected call changes nothing anywhere; in particular a rejected deposit leaves the token with its owner
        if let Op::Send { coll, tok, .. } = &st.op {
            if let Some(i) = case.src.iter().position(|(c, t, _)| c == coll && t == tok) {
                if pre.src[i] != post.src[i] {
                    bad!("rejected-not-returned", format!("rejected deposit of token {} of collection {}: owner {} -> {}", tok, coll, pre.src[i], post.src[i]));
                }
            }
        }
        if pre != post || !digest_same {
            bad!("rejected-changed-state", format!("rejected {:?} changed observable state or minter storage", st.op));
        }
        // a well-formed deposit by the token's owner that completes the recipient's set, after the start time, with
        // the recipient under its limit and tokens left, must mint -- whatever governance did to the factory since
        if let Op::Send { coll, user, tok, garbage: false, recip } = &st.op {
            if let (Some(r), true, Some(amt)) = (recipient_index(*user, recip), case.regular(), case.required_amount(*coll)) {
                let owned = case.src.iter().position(|(c, t, _)| c == coll && t == tok).map(|i| pre.src[i] == ACCOUNTS[*user].1).unwrap_or(false);
                let had = *sh.credited.get(&(r, *coll)).unwrap_or(&0);
                let completes = had + 1 == amt && case.req.iter().all(|(c, a)| c == coll || *sh.credited.get(&(r, *c)).unwrap_or(&0) >= *a);
                if owned && completes && st.at > start_ledger && pre.counts[r] < pre.limit && pre.mintable > 0 {
                    bad!("complete-but-no-mint", format!("the deposit completing the set of recipient {} (after start, under its limit, {} tokens left) was rejected", r, pre.mintable));
                }
            }
        }
        return v;
    }
    let new_tgt: Vec<usize> = (0..pre.tgt.len()).filter(|i| pre.tgt[*i] == 0 && post.tgt[*i] != 0).collect();
    match &st.op {
        Op::Send { coll, user, tok, recip, .. } => {
            let amt = case.required_amount(*coll);
            if st.at <= start_ledger {
                bad!("deposit-not-after-start", format!("deposit accepted at {} with start time {} (as last set by the admin)", st.at, start_ledger));
            }
            if amt.is_none() {
                bad!("foreign-collection-accepted", format!("deposit from collection {} which is not required was accepted", coll));
            }
            let Some(r) = recipient_index(*user, recip) else {
                bad!("invalid-recipient-accepted", "deposit with an invalid recipient string accepted".into());
                return v;
            };
            let had = *sh.credited.get(&(r, *coll)).unwrap_or(&0);
            if case.regular() {
                if let Some(a) = amt {
                    if had >= a {
                        bad!("beyond-requirement-accepted", format!("recipient {} already had {} of required {} from collection {}, one more accepted", r, had, a, coll));
                    }
                }
            }
            if pre.counts[r] >= pre.limit {
                bad!("deposit-at-limit", format!("recipient {} has mint count {} with per-address limit {}, deposit accepted", r, pre.counts[r], pre.limit));
            }
            let got = *sh.received.get(&r).unwrap_or(&0);
            if got >= pre.limit && pre.mintable > 0 {
                bad!("deposit-at-limit", format!("recipient {} was minted {} tokens (per-address limit {}), tokens remain, deposit accepted", r, got, pre.limit));
            }
            // the deposited token is burned
            if let Some(i) = case.src.iter().position(|(c, t, _)| c == coll && t == tok) {
                if post.src[i] != 0 {
                    bad!("deposit-not-burned", format!("deposited token {} of collection {} still exists, owner {}", tok, coll, post.src[i]));
                }
                for j in 0..pre.src.len() {
                    if j != i && pre.src[j] != post.src[j] {
                        bad!("source-token-changed", format!("another source token changed owner {} -> {}", pre.src[j], post.src[j]));
                    }
                }
            }
            if post.src_supply[*coll] + 1 != pre.src_supply[*coll] {
                bad!("deposit-not-burned", format!("NumTokens of collection {}: {} -> {}", coll, pre.src_supply[*coll], post.src_supply[*coll]));
            }
            if !v.is_empty() {
                return v;
            }
            sh.credited.insert((r, *coll), had + 1);
            let complete = case.req.iter().all(|(c, a)| *sh.credited.get(&(r, *c)).unwrap_or(&0) >= *a);
            if complete && new_tgt.is_empty() {
                bad!("complete-but-no-mint", format!("recipient {} has every required deposit, nothing was minted", r));
            } else if !complete && !new_tgt.is_empty() {
                bad!("mint-without-complete-deposits", format!("token minted for recipient {} whose deposits are {:?}", r, sh.credited));
            } else if complete {
                if new_tgt.len() != 1 || post.tgt[new_tgt[0]] != ACCOUNTS[r].1 {
                    bad!("mint-wrong-recipient", format!("expected one new token owned by {}, new tokens {:?} owners {:?}", ACCOUNTS[r].1, new_tgt, post.tgt));
                }
                if post.counts[r] != pre.counts[r] + 1 {
                    bad!("mint-count", format!("MintCount of recipient {} -> {}", pre.counts[r], post.counts[r]));
                }
                if post.mintable + 1 != pre.mintable {
                    bad!("mintable-count", format!("MintableNumTokens {} -> {}", pre.mintable, post.mintable));
                }
                if (0..nc).any(|c| post.ledger[r * nc + c] != 0) {
                    bad!("ledger-not-reset", format!("DepositedTokens of recipient {} after the mint: {:?}", r, &post.ledger[r * nc..(r + 1) * nc]));
                }
                for c in 0..nc {
                    sh.credited.remove(&(r, c));
                }
            } else {
                if post.counts != pre.counts || post.mintable != pre.mintable {
                    bad!("counters-changed-without-mint", "mint count / mintable changed by a deposit that minted nothing".into());
                }
                if pre.mintable == 0 {
                    notes.push(format!("{}: deposit burned after sell-out (no mint can follow)", case.name));
                }
            }
        }
        Op::Direct { user, .. } => {
            bad!("direct-call-accepted", format!("ReceiveNft called directly by account {} was accepted", account_id(*user)));
        }
        _ => {
            if pre.src != post.src {
                bad!("source-token-changed", format!("{:?} changed a source token", st.op));
            }
        }
    }
    for i in &new_tgt {
        if let Some(a) = ACCOUNTS.iter().position(|(_, id)| *id == post.tgt[*i]) {
            *sh.received.entry(a).or_insert(0) += 1;
        }
    }
    if let Op::Purge { .. } = &st.op {
        if pre.mintable == 0 {
            sh.received.clear(); // the documented reset once the sale is sold out
        }
    }
    // the start time reported is the one the admin last set
    if let Op::UpdStart { t, .. } = &st.op {
        sh.start = Some(*t);
    }
    let want_start = sh.start.unwrap_or(pre.start);
    if (post.start != want_start || post.start_query != cosmwasm_std::Timestamp::from_nanos(want_start).to_string()) && v.is_empty() {
        v.push(("C17:start-time-differs-from-ledger".into(), format!("Config.start_time {} / StartTime {:?}, the admin last set {}", post.start, post.start_query, want_start)));
    }
    // MintCount shows exactly the tokens an address was minted (since the sold-out purge, if any)
    for a in 0..NACC {
        let want = *sh.received.get(&a).unwrap_or(&0);
        if post.counts[a] != want && v.is_empty() {
            v.push(("C17:mint-count-mismatch".into(), format!("MintCount({}) = {} after {:?}, tokens minted to it = {}", ACCOUNTS[a].0, post.counts[a], st.op, want)));
        }
    }
    // DepositedTokens shows exactly the accepted, not yet consumed deposits
    for a in 0..NACC {
        for c in 0..nc {
            let want = *sh.credited.get(&(a, c)).unwrap_or(&0) as u64;
            if post.ledger[a * nc + c] != want && v.is_empty() {
                v.push(("C17:ledger-mismatch".into(), format!("DepositedTokens({})[{}] = {}, accepted deposits since last mint = {}", ACCOUNTS[a].0, c, post.ledger[a * nc + c], want)));
            }
        }
    }
    let nonzero = post.ledger.iter().filter(|x| **x != 0).count() as u64;
    if (post.ledger_extra != 0 || post.raw_ledger_entries != nonzero) && v.is_empty() {
        v.push(("C17:ledger-mismatch".into(), format!("raw RECEIVED_TOKENS has {} entries, queries show {} (+{} unknown collections)", post.raw_ledger_entries, nonzero, post.ledger_extra)));
    }
    v
}

/// C01 on the token-merge minter, evaluated on every step: every minted id lies in
/// 1..=num_tokens and is minted at most once, never id 0, MintableNumTokens =
/// num_tokens - minted - burned, the mintable ids are exactly the ids neither minted nor
/// burned (raw MINTABLE_TOKEN_POSITIONS), Shuffle keeps positions and id set.
fn monitor_supply(case: &Case, st: &Step, ok: bool, pick: u64, burned_evt: Option<u64>, pre: &Obs, post: &Obs, sh: &mut Shadow) -> Vec<(String, String)> {
    let mut v: Vec<(String, String)> = vec![];
    macro_rules! bad {
        ($k:expr, $w:expr) => {
            v.push((format!("C01tm:{}", $k), $w))
        };
    }
    let n = case.num_tokens as u64;
    if !sh.started {
        sh.started = true;
        let mut ids: Vec<u64> = pre.positions.iter().map(|(_, t)| *t as u64).collect();
        ids.sort();
        let pos: Vec<u64> = pre.positions.iter().map(|(p, _)| *p as u64).collect();
        if ids != (1..=n).collect::<Vec<_>>() || pos != (1..=n).collect::<Vec<_>>() || pre.mintable != n {
            bad!("initial-positions", format!("after creation: {} positions, MintableNumTokens {}, num_tokens {}", pre.positions.len(), pre.mintable, n));
        }
    }
    if !ok {
        return v; // "rejected => nothing changed" is checked by the C17 monitor on the whole observation
    }
    if pick != 0 || post.tgt_supply != pre.tgt_supply {
        if post.tgt_supply != pre.tgt_supply + 1 {
            bad!("supply-mismatch", format!("target NumTokens {} -> {} in one call", pre.tgt_supply, post.tgt_supply));
        }
        if pick == 0 || pick > n {
            bad!("id-out-of-range", format!("minted id {} with num_tokens {}", pick, n));
        }
        if !sh.minted.insert(pick) {
            bad!("re-mint", format!("id {} minted a second time", pick));
        }
        if !post.tgt_all.contains(&pick.to_string()) {
            bad!("supply-mismatch", format!("minted id {} is not in AllTokens of the collection", pick));
        }
    }
    if let Op::BurnRemaining { .. } = &st.op {
        let gone = pre.positions.len() as u64;
        if burned_evt != Some(gone) || !post.positions.is_empty() {
            bad!("burn-remaining", format!("BurnRemaining reported {:?}, {} positions before, {} after", burned_evt, gone, post.positions.len()));
        }
        sh.burned += gone;
    }
    if let Op::Shuffle { .. } = &st.op {
        let mut a: Vec<u32> = pre.positions.iter().map(|x| x.1).collect();
        let mut b: Vec<u32> = post.positions.iter().map(|x| x.1).collect();
        a.sort();
        b.sort();
        if a != b || pre.positions.iter().map(|x| x.0).ne(post.positions.iter().map(|x| x.0)) {
            bad!("shuffle-changed-ids", "Shuffle changed the set of mintable ids or positions".to_string());
        }
    }
    if post.tgt_all.iter().any(|t| t == "0") {
        bad!("mint-zero", "token id 0 exists in the collection".to_string());
    }
    let mut all: Vec<u64> = post.tgt_all.iter().filter_map(|t| t.parse().ok()).collect();
    all.sort();
    if all != sh.minted.iter().cloned().collect::<Vec<_>>() || post.tgt_supply != sh.minted.len() as u64 {
        bad!("supply-mismatch", format!("collection holds {:?} (NumTokens {}), minted so far {:?}", post.tgt_all, post.tgt_supply, sh.minted));
    }
    if post.mintable + sh.minted.len() as u64 + sh.burned != n {
        bad!("mintable-count", format!("MintableNumTokens {} != num_tokens {} - minted {} - burned {}", post.mintable, n, sh.minted.len(), sh.burned));
    }
    let mut left: Vec<u64> = post.positions.iter().map(|x| x.1 as u64).collect();
    left.sort();
    let want: Vec<u64> = if post.positions.is_empty() && sh.burned > 0 { vec![] } else { (1..=n).filter(|t| !sh.minted.contains(t)).collect() };
    if left != want || post.positions.len() as u64 != post.mintable {
        bad!("positions-mismatch", format!("mintable ids {:?}, expected {:?}, MintableNumTokens {}", left, want, post.mintable));
    }
    v
}

fn run_case(case: &Case) -> Result<RunOut, String> {
    let mut w = build(case)?;
    let init = observe(&w, case);
    let mut out = RunOut { init: init.clone(), steps: vec![], violations: vec![], notes: vec![] };
    let mut sh = Shadow::default();
    let mut pre = init;
    let mut dead = false; // after a violation the monitors' own bookkeeping is no longer meaningful
    for (i, st) in case.steps.iter().enumerate() {
        chain::set_time(&mut w.app, st.at);
        prepare(&mut w, &st.op);
        pre.cw2 = crate::w_migrate::get_cw2(&w.app, &w.minter);
        let d0 = chain::storage_digest(&w.app, &w.minter);
        let r = apply(&mut w, &st.op);
        let d1 = chain::storage_digest(&w.app, &w.minter);
        let post = observe(&w, case);
        let (ok, err, pick, burned_evt) = match &r {
            Ok(res) => (true, String::new(), minted_pick(&w, res), burned_attr(res)),
            Err(e) => (false, e.clone(), 0, None),
        };
        if !dead {
            let mut vs = monitor(case, st, ok, &pre, &post, d0 == d1, &mut sh, &mut out.notes);
            vs.extend(monitor_supply(case, st, ok, pick, burned_evt, &pre, &post, &mut sh));
            // a wrong start-time report does not invalidate the monitors' own bookkeeping: keep judging deposits
            if vs.iter().any(|(k, _)| k != "C17:start-time-differs-from-ledger") {
                dead = true;
            }
            for (k, what) in vs {
                out.violations.push((k, what, i));
            }
        }
        let oracle = if ok { pick } else { pre.positions.first().map(|p| p.1 as u64).unwrap_or(0) };
        out.steps.push(StepOut { oracle, pre_cw2: pre.cw2.clone(), ok, err, pick, post: post.clone() });
        pre = post;
    }
    Ok(out)
}

fn case_coq(case: &Case, r: &RunOut) -> String {
    let steps = case
        .steps
        .iter()
        .zip(r.steps.iter())
        .map(|(s, o)| format!("({}, {}, {})", s.at, op_coq(&s.op, o.oracle, &o.pre_cw2), obs_coq(o.ok, &o.post, cw2_after(&s.op, &o.post).as_ref())))
        .collect::<Vec<_>>()
        .join("; ");
    format!("C17Case {} {} [{}]", cfg_coq(case), obs_coq(true, &r.init, None), steps)
}

// ------------------------------------------------------------------ generators

struct B {
    case: Case,
    t: u64,
    next_tok: BTreeMap<(usize, usize), u64>,
}
impl B {
    /// `req` amounts for collections 0..req.len(); one more collection exists and is foreign
    fn new(name: &str, req: &[u32], num_tokens: u32, limit: u32) -> B {
        B {
            case: Case {
                name: name.to_string(),
                req: req.iter().enumerate().map(|(i, a)| (i, *a)).collect(),
                ncolls: req.len() + 1,
                num_tokens,
                limit,
                airdrop_price: 0,
                shuffle_fee: 500,
                src: vec![],
                steps: vec![],
            },
            t: START + 1,
            next_tok: BTreeMap::new(),
        }
    }
    fn foreign(&self) -> usize {
        self.case.ncolls - 1
    }
    fn at(&mut self, t: u64) -> &mut Self {
        self.t = t;
        self
    }
    fn tick(&mut self) {
        self.t += 1_000_000_000;
    }
    /// a token of collection `coll` owned by `user`, minted before the history starts
    fn fresh(&mut self, coll: usize, user: usize) -> u64 {
        let n = self.next_tok.entry((coll, user)).or_insert(0);
        *n += 1;
        let tok = user as u64 * 100 + *n;
        self.case.src.push((coll, tok, user));
        tok
    }
    fn push(&mut self, op: Op) -> &mut Self {
        let at = self.t;
        self.case.steps.push(Step { at, op });
        self.tick();
        self
    }
    fn dep(&mut self, coll: usize, user: usize, recip: Recip) -> u64 {
        let tok = self.fresh(coll, user);
        self.push(Op::Send { coll, user, tok, garbage: false, recip });
        tok
    }
    fn pay(&self) -> Vec<(u8, u128)> {
        if self.case.airdrop_price == 0 {
            vec![]
        } else {
            vec![(0, self.case.airdrop_price)]
        }
    }
}

fn perms(n: usize) -> Vec<Vec<usize>> {
    match n {
        1 => vec![vec![0]],
        2 => vec![vec![0, 1], vec![1, 0]],
        _ => vec![vec![0, 1, 2], vec![0, 2, 1], vec![1, 0, 2], vec![1, 2, 0], vec![2, 0, 1], vec![2, 1, 0]],
    }
}

fn vectors() -> Vec<Vec<u32>> {
    let mut v = vec![];
    for a in 1..=3 {
        v.push(vec![a]);
        for b in 1..=3 {
            v.push(vec![a, b]);
            for c in 1..=3 {
                v.push(vec![a, b, c]);
            }
        }
    }
    v
}

fn corpus() -> Vec<Case> {
    let mut out = vec![];
    // the smallest merge: one collection, one token
    let mut b = B::new("corpus-1x1", &[1], 3, 3);
    b.dep(0, 1, Recip::None);
    b.dep(0, 1, Recip::None);
    out.push(b.case);
    // two collections (2,1): order A A B, then a second cycle B A A; beyond-requirement attempts in between
    let mut b = B::new("corpus-2-1", &[2, 1], 3, 3);
    b.dep(0, 1, Recip::None);
    b.dep(0, 1, Recip::None);
    b.dep(0, 1, Recip::None); // third of A: beyond
    b.dep(1, 1, Recip::None); // completes -> mint
    b.dep(1, 1, Recip::None);
    b.dep(1, 1, Recip::None); // beyond
    b.dep(0, 1, Recip::None);
    b.dep(0, 1, Recip::None); // completes
    out.push(b.case);
    // explicit recipient: user1 and user2 both deposit for recipient01
    let mut b = B::new("corpus-recipient", &[1, 1], 3, 3);
    b.dep(0, 1, Recip::Addr(4));
    b.dep(1, 2, Recip::None); // user2's own ledger, not recipient01's
    b.dep(1, 2, Recip::Addr(4)); // completes recipient01
    b.dep(0, 2, Recip::None); // completes user2
    b.dep(0, 3, Recip::Invalid);
    out.push(b.case);
    // foreign collection, garbage payload, someone else's token, a token that does not exist, direct calls
    let mut b = B::new("corpus-rejections", &[2], 3, 3);
    let f = b.foreign();
    b.dep(f, 1, Recip::None);
    let tok = b.fresh(0, 1);
    b.push(Op::Send { coll: 0, user: 1, tok, garbage: true, recip: Recip::None });
    b.push(Op::Send { coll: 0, user: 2, tok, garbage: false, recip: Recip::None }); // not the owner
    b.push(Op::Send { coll: 0, user: 1, tok: 9999, garbage: false, recip: Recip::None });
    b.push(Op::Direct { user: 1, cw_sender: 1, tok, recip: Recip::None });
    b.push(Op::Direct { user: 1, cw_sender: 2, tok, recip: Recip::Addr(1) });
    b.push(Op::Direct { user: PUPPET, cw_sender: 1, tok, recip: Recip::None });
    b.push(Op::Direct { user: CREATOR, cw_sender: 1, tok: 777, recip: Recip::None });
    b.push(Op::Send { coll: 0, user: 1, tok, garbage: false, recip: Recip::None });
    b.push(Op::Send { coll: 0, user: 1, tok, garbage: false, recip: Recip::None }); // already burned
    out.push(b.case);
    // start time: start-1ns, start, start+1ns
    let mut b = B::new("corpus-start", &[1], 3, 3);
    let tok = b.fresh(0, 1);
    for t in [START - 1, START, START + 1] {
        b.at(t).push(Op::Send { coll: 0, user: 1, tok, garbage: false, recip: Recip::None });
    }
    out.push(b.case);
    // sell-out: one token; user1 mints it; user2's partial deposit is still burned, the completing one is refused
    let mut b = B::new("corpus-sellout", &[2], 1, 3);
    b.dep(0, 1, Recip::None);
    b.dep(0, 1, Recip::None);
    b.dep(0, 2, Recip::None);
    b.dep(0, 2, Recip::None);
    b.push(Op::Purge { caller: 5, funds: vec![] });
    b.dep(0, 2, Recip::None);
    out.push(b.case);
    // per-address limit 1
    let mut b = B::new("corpus-limit", &[1], 3, 1);
    b.dep(0, 1, Recip::None);
    b.dep(0, 1, Recip::None); // at limit
    b.dep(0, 2, Recip::Addr(1)); // recipient at limit, sender not
    b.dep(0, 1, Recip::Addr(2)); // sender at limit, recipient not: accepted
    out.push(b.case);
    // admin messages interleaved
    let mut b = B::new("corpus-admin", &[2], 3, 2);
    b.case.airdrop_price = 1000;
    b.at(START - 50_000_000_000).push(Op::UpdStart { caller: 1, t: START + 5, funds: vec![] });
    b.push(Op::UpdStart { caller: 0, t: START + 5_000_000_000, funds: vec![] });
    b.at(START + 6_000_000_000);
    b.dep(0, 1, Recip::None);
    let p = b.pay();
    b.push(Op::MintTo { caller: 0, recip: Recip::Addr(1), funds: p.clone() });
    b.push(Op::MintTo { caller: 1, recip: Recip::Addr(1), funds: p.clone() });
    b.push(Op::MintTo { caller: 0, recip: Recip::Addr(1), funds: vec![] });
    b.push(Op::UpdLimit { caller: 0, l: 1, funds: vec![] });
    b.dep(0, 1, Recip::None); // count 1, limit 1: refused
    b.push(Op::UpdLimit { caller: 0, l: 3, funds: vec![] });
    b.dep(0, 1, Recip::None); // completes
    b.push(Op::Shuffle { caller: 2, funds: vec![(0, 500)] });
    b.push(Op::Shuffle { caller: 2, funds: vec![(0, 499)] });
    b.push(Op::MintFor { caller: 0, tid: 4, recip: Recip::Addr(3), funds: p.clone() });
    b.push(Op::BurnRemaining { caller: 2, funds: vec![] });
    b.push(Op::Purge { caller: 2, funds: vec![] });
    b.push(Op::BurnRemaining { caller: 0, funds: vec![] });
    b.dep(0, 2, Recip::None);
    b.dep(0, 2, Recip::None);
    b.push(Op::Purge { caller: 2, funds: vec![] });
    b.push(Op::BurnRemaining { caller: 0, funds: vec![] });
    out.push(b.case);
    // irregular requirement lists the factory does not refuse: repeated collection, zero amount, empty list
    let mut b = B::new("corpus-irregular-dup", &[1], 3, 3);
    b.case.req = vec![(0, 1), (0, 2)];
    b.dep(0, 1, Recip::None);
    b.dep(0, 1, Recip::None);
    out.push(b.case);
    let mut b = B::new("corpus-irregular-zero", &[0, 1], 3, 3);
    b.dep(0, 1, Recip::None);
    b.dep(1, 1, Recip::None);
    out.push(b.case);
    let mut b = B::new("corpus-irregular-empty", &[], 3, 3);
    b.dep(0, 1, Recip::None);
    out.push(b.case);
    out.extend(migrate_cases());
    out.extend(freeze_and_subsecond_cases());
    out
}

/// governance freezes / unfreezes the factory around partial deposits, completing deposits and airdrops (a freeze
/// forbids creating minters, not minting); UpdateStartTime with sub-second values and deposits around the new start
fn freeze_and_subsecond_cases() -> Vec<Case> {
    let mut out = vec![];
    let mut b = B::new("corpus-freeze", &[2, 1], 3, 2);
    b.case.airdrop_price = 1000;
    let p = b.pay();
    b.dep(0, 1, Recip::None);
    b.push(sudo_frozen(true)); // between partial deposits
    b.dep(0, 1, Recip::None);
    b.dep(1, 1, Recip::None); // completes while frozen: must mint
    b.push(Op::MintTo { caller: 0, recip: Recip::Addr(2), funds: p.clone() }); // airdrop while frozen
    b.push(Op::Shuffle { caller: 2, funds: vec![(0, 500)] });
    b.push(Op::UpdLimit { caller: 0, l: 3, funds: vec![] });
    b.push(sudo_frozen(false));
    b.dep(0, 2, Recip::Addr(3));
    b.dep(1, 2, Recip::Addr(3));
    b.push(sudo_frozen(true)); // right before the completing deposit
    b.dep(0, 2, Recip::Addr(3));
    b.push(sudo_frozen(true));
    b.push(Op::MintTo { caller: 0, recip: Recip::Addr(2), funds: p.clone() }); // nothing left
    out.push(b.case);
    for (vi, vec) in [vec![2u32], vec![1, 1], vec![3, 1], vec![1, 2, 1]].into_iter().enumerate() {
        let mut b = B::new(&format!("probe-freeze-{:?}", vec), &vec, 3, 3);
        let total: u32 = vec.iter().sum();
        for round in 0..2 {
            let mut k = 0;
            for c in 0..vec.len() {
                for _ in 0..vec[c] {
                    k += 1;
                    if k == total || (k == 1 && vi % 2 == 0) {
                        b.push(sudo_frozen(true));
                    }
                    b.dep(c, 1 + round, Recip::None);
                }
            }
            if round == 0 {
                b.push(sudo_frozen(false));
            }
        }
        b.push(Op::MintTo { caller: 0, recip: Recip::Addr(3), funds: vec![] });
        out.push(b.case);
    }
    // sub-second start times: S + f for f = 1 ns, 0.9 s, 999 999 999 ns
    let s0 = chain::GENESIS_NS + 10_000_000_000;
    for f in [1u64, 900_000_000, 999_999_999] {
        let mut b = B::new(&format!("probe-substart-{}", f), &[1], 3, 3);
        let new = s0 + f;
        let tok = b.fresh(0, 1);
        let send = Op::Send { coll: 0, user: 1, tok, garbage: false, recip: Recip::None };
        b.at(s0 + f / 2).push(Op::UpdStart { caller: 0, t: new, funds: vec![] });
        b.at(s0 + f / 2).push(send.clone()); // same block as the update
        b.at(s0 + f * 7 / 9).push(Op::UpdStart { caller: 0, t: new, funds: vec![] }); // again, later inside the second
        b.at(s0 + f * 7 / 9).push(send.clone());
        b.at(new - 1).push(send.clone());
        b.at(new).push(send.clone());
        b.at(new).push(Op::UpdStart { caller: 0, t: new + 5, funds: vec![] }); // already started
        b.at(new + 1).push(send.clone());
        b.at(new + 1).push(send.clone()); // burned
        out.push(b.case);
    }
    out
}

/// the minter's cw2 info right after creation (name, version)
fn current_cw2() -> (String, String) {
    let b = B::new("cw2-probe", &[1], 1, 1);
    let w = build(&b.case).expect("probe world");
    crate::w_migrate::get_cw2(&w.app, &w.minter)
}

/// stored versions around the code's version (each component +-1), far below, malformed, and a foreign name
fn cw2_grid() -> Vec<(String, String)> {
    let (name, ver) = current_cw2();
    let p: Vec<u64> = ver.split('.').map(|x| x.parse().unwrap_or(0)).collect();
    let (ma, mi, pa) = (p[0], p[1], p[2]);
    let mut vs: Vec<String> = vec![
        ver.clone(),
        format!("{}.{}.{}", ma, mi, pa + 1),
        format!("{}.{}.{}", ma, mi + 1, 0),
        format!("{}.{}.{}", ma + 1, 0, 0),
        format!("{}.{}.{}", ma, mi.saturating_sub(1), 99),
        format!("{}.{}.{}", ma.saturating_sub(1), 99, 99),
        "0.0.1".into(),
        format!("{}.{}", ma, mi),
        format!("v{}", ver),
        "".into(),
    ];
    if pa > 0 {
        vs.push(format!("{}.{}.{}", ma, mi, pa - 1));
    }
    // every literal of the minter's migrate function as a version component, +-1
    for l in harvest_literals(&["contracts/minters/token-merge-minter/src/contract.rs"]) {
        if l < 40 {
            vs.push(format!("{}.{}.{}", l, l.saturating_sub(1), l + 1));
        }
    }
    vs.sort();
    vs.dedup();
    let mut out: Vec<(String, String)> = vs.into_iter().map(|v| (name.clone(), v)).collect();
    out.push(("crates.io:vending-minter".into(), ver.clone()));
    out.push(("crates.io:token-merge-minter".into(), "0.1.0".into()));
    out
}

fn mig(who: usize, stored: Option<(String, String)>) -> Op {
    Op::Migrate { who, stored }
}
fn sudo(max_limit: Option<u32>, airdrop_price: Option<u128>, shuffle_fee: Option<u128>) -> Op {
    Op::SudoParams { max_limit, airdrop_price, shuffle_fee, add_code_id: None, offset: None, frozen: None, code_id: None, rm_code_id: None, creation_fee: None, max_token_limit: None, airdrop_fee_bps: None }
}

/// migrations and factory governance between partial deposits, after a completed merge,
/// after an airdrop, before and after the start time; every monitor keeps running
fn migrate_cases() -> Vec<Case> {
    let mut out = vec![];
    let grid = cw2_grid();
    let (name, ver) = current_cw2();
    let older = (name.clone(), "0.0.1".to_string());
    let newer = (name.clone(), "99.0.0".to_string());
    // (a) the places the lead named, with an older stored version (the migrate does its real work)
    let mut b = B::new("corpus-migrate-places", &[2, 1], 3, 2);
    b.case.airdrop_price = 1000;
    b.at(START - 10_000_000_000);
    b.push(mig(CREATOR, Some(older.clone()))); // before the start time
    b.push(mig(5, Some(older.clone()))); // not the wasm admin
    b.push(mig(CREATOR, Some(newer.clone()))); // refused: stored version is ahead of the code
    b.dep(0, 1, Recip::None); // still before start
    b.at(START + 1);
    b.dep(0, 1, Recip::None);
    b.push(mig(CREATOR, Some(older.clone()))); // between partial deposits
    b.dep(0, 1, Recip::None);
    b.push(mig(CREATOR, None)); // same version: nothing to do
    b.dep(0, 1, Recip::None); // beyond the requirement: the ledger survived
    b.dep(1, 1, Recip::None); // completes -> mint
    b.push(mig(CREATOR, Some(older.clone()))); // after a completed merge
    b.dep(0, 2, Recip::Addr(1));
    let p = b.pay();
    b.push(Op::MintTo { caller: 0, recip: Recip::Addr(1), funds: p.clone() }); // user1 reaches its limit 2
    b.push(mig(CREATOR, Some(older.clone()))); // after an airdrop
    b.dep(0, 1, Recip::None); // at limit: refused (the counts survived)
    b.dep(0, 3, Recip::Addr(1)); // at limit through an explicit recipient
    b.push(Op::MintFor { caller: 0, tid: 1, recip: Recip::Addr(2), funds: p.clone() });
    b.push(Op::MintFor { caller: 0, tid: 2, recip: Recip::Addr(2), funds: p.clone() });
    b.push(Op::MintFor { caller: 0, tid: 3, recip: Recip::Addr(2), funds: p.clone() }); // one of the three fails: already minted
    b.push(mig(CREATOR, Some(older.clone()))); // sold out
    b.push(Op::MintTo { caller: 0, recip: Recip::Addr(3), funds: p.clone() }); // nothing left (the count survived)
    b.dep(1, 3, Recip::None);
    out.push(b.case);
    // (b) the version grid: each stored pair once, by the admin, between two partial deposits of a 3-token requirement
    for chunk in grid.chunks(6) {
        let mut b = B::new(&format!("probe-migrate-grid-{}", chunk[0].1), &[3], 3, 3);
        for c in chunk {
            b.dep(0, 1, Recip::None);
            b.push(mig(CREATOR, Some(c.clone())));
            b.push(mig(2, Some(c.clone())));
        }
        out.push(b.case);
    }
    // (c) governance: factory UpdateParams between deposits; an existing minter keeps its own limit
    let mut b = B::new("corpus-sudo", &[1], 5, 3);
    b.case.airdrop_price = 1000;
    let p = b.pay();
    b.dep(0, 1, Recip::None);
    b.dep(0, 1, Recip::None); // count 2, limit 3
    b.push(sudo(Some(1), None, None)); // factory max_per_address_limit 50 -> 1
    b.dep(0, 1, Recip::None); // still accepted: own limit 3 is what counts
    b.dep(0, 1, Recip::None); // at own limit
    b.push(Op::UpdLimit { caller: 0, l: 2, funds: vec![] }); // above the new factory maximum
    b.push(Op::UpdLimit { caller: 0, l: 1, funds: vec![] });
    b.push(sudo(Some(50), Some(700), Some(0)));
    b.push(Op::MintTo { caller: 0, recip: Recip::Addr(2), funds: p.clone() }); // old price
    b.push(Op::MintTo { caller: 0, recip: Recip::Addr(2), funds: vec![(0, 700)] });
    b.push(Op::Shuffle { caller: 2, funds: vec![] });
    b.push(Op::SudoParams { max_limit: None, airdrop_price: None, shuffle_fee: None, add_code_id: Some(77), offset: Some(5), frozen: None, code_id: Some(999), rm_code_id: Some(77), creation_fee: Some(7), max_token_limit: Some(2), airdrop_fee_bps: Some(5000) });
    b.dep(0, 2, Recip::None); // count 1, limit now 1
    b.push(mig(CREATOR, Some((name.clone(), ver.clone()))));
    b.push(Op::UpdLimit { caller: 0, l: 3, funds: vec![] });
    b.dep(0, 2, Recip::None);
    out.push(b.case);
    out
}

fn probes(rng: &mut Rng) -> Vec<Case> {
    let mut out = vec![];
    for (vi, vec) in vectors().into_iter().enumerate() {
        let n = vec.len();
        let ps = perms(n);
        // P1: one user fills the collections in a permuted order, tries one beyond each, mints, starts a second cycle
        let p = &ps[vi % ps.len()];
        let mut b = B::new(&format!("probe-fill-{:?}", vec), &vec, 3, 3);
        for (k, &c) in p.iter().enumerate() {
            let last = k + 1 == p.len();
            for j in 0..vec[c] {
                if last && j + 1 == vec[c] {
                    // one foreign and one direct attempt right before completion
                    let f = b.foreign();
                    b.dep(f, 1, Recip::None);
                    let tok = b.fresh(c, 1);
                    b.push(Op::Direct { user: 1, cw_sender: 1, tok, recip: Recip::None });
                    b.push(Op::Send { coll: c, user: 1, tok, garbage: false, recip: Recip::None });
                } else {
                    b.dep(c, 1, Recip::None);
                }
            }
            if !last {
                b.dep(c, 1, Recip::None); // beyond the requirement
            }
        }
        b.dep(p[0], 1, Recip::None); // the ledger starts again from zero
        for _ in 1..vec[p[0]] {
            b.dep(p[0], 1, Recip::None);
        }
        b.dep(p[0], 1, Recip::None); // beyond (or, for a single collection, further cycles)
        out.push(b.case);
        // P2: two users interleaved, user2 deposits for recipient01; a different permutation
        let p = &ps[(vi + 1) % ps.len()];
        let mut b = B::new(&format!("probe-two-{:?}", vec), &vec, 3, 2);
        let total: u32 = vec.iter().sum();
        let mut seq: Vec<usize> = vec![];
        for &c in p.iter() {
            for _ in 0..vec[c] {
                seq.push(c);
            }
        }
        for i in 0..total as usize {
            b.dep(seq[i], 1, Recip::None);
            b.dep(seq[seq.len() - 1 - i], 2, Recip::Addr(4));
            if i == 0 {
                b.dep(seq[0], 3, Recip::Addr(1)); // user3 helps user1: counts toward user1's requirement
            }
        }
        b.dep(seq[0], 2, Recip::None);
        out.push(b.case);
        // P3: time boundary, limit boundary and sell-out for this vector
        let limit = 1 + (vi as u32 % 2);
        let nt = 1 + (vi as u32 % 3);
        let mut b = B::new(&format!("probe-bounds-{:?}-l{}-n{}", vec, limit, nt), &vec, nt, limit);
        let tok = b.fresh(0, 1);
        for t in [START - 1, START] {
            b.at(t).push(Op::Send { coll: 0, user: 1, tok, garbage: false, recip: Recip::None });
        }
        b.at(START + 1);
        let users = [1usize, 2, 3];
        let mut first = Some(tok);
        for round in 0..(nt + 1) {
            let u = users[(round as usize) % 3];
            // each round tries a full set for one user (explicit recipient = self on odd rounds)
            for c in 0..n {
                for _ in 0..vec[c] {
                    let recip = if round % 2 == 1 { Recip::Addr(u) } else { Recip::None };
                    if u == 1 && c == 0 && first.is_some() {
                        let tok = first.take().unwrap();
                        b.push(Op::Send { coll: 0, user: 1, tok, garbage: false, recip });
                    } else {
                        b.dep(c, u, recip);
                    }
                }
            }
            if rng.chance(1, 3) {
                b.push(Op::Purge { caller: 5, funds: vec![] });
            }
        }
        // user1 again: at limit when limit = 1, otherwise sold out or fine
        for c in 0..n {
            b.dep(c, 1, Recip::None);
        }
        out.push(b.case);
    }
    // admin mints and supply burns around deposits, for a few vectors
    for (vi, vec) in [vec![1u32], vec![2], vec![1, 1], vec![2, 1], vec![1, 2, 1]].into_iter().enumerate() {
        for price in [0u128, 1000] {
            let mut b = B::new(&format!("probe-admin-{:?}-p{}", vec, price), &vec, 3, 2);
            b.case.airdrop_price = price;
            let p = b.pay();
            let n = vec.len();
            b.dep(0, 1, Recip::None);
            b.push(Op::MintTo { caller: 0, recip: Recip::Addr(1), funds: p.clone() });
            b.push(Op::MintTo { caller: 0, recip: Recip::Addr(1), funds: vec![(0, price + 1)] });
            b.push(Op::MintTo { caller: 0, recip: Recip::Addr(1), funds: vec![(1, price.max(1))] });
            b.push(Op::MintTo { caller: 5, recip: Recip::Addr(1), funds: p.clone() });
            b.push(Op::MintTo { caller: 0, recip: Recip::Invalid, funds: p.clone() });
            for c in 0..n {
                for _ in 0..vec[c] {
                    b.dep(c, 1, Recip::None);
                }
            }
            b.push(Op::MintFor { caller: 0, tid: 0, recip: Recip::Addr(2), funds: p.clone() });
            b.push(Op::MintFor { caller: 0, tid: 4, recip: Recip::Addr(2), funds: p.clone() });
            for tid in 1..=3 {
                b.push(Op::MintFor { caller: 0, tid, recip: Recip::Addr(2), funds: p.clone() });
            }
            if vi % 2 == 0 {
                b.push(Op::BurnRemaining { caller: 0, funds: vec![] });
            }
            b.dep(0, 3, Recip::None);
            b.push(Op::Purge { caller: 3, funds: vec![(0, 1)] });
            b.push(Op::Purge { caller: 3, funds: vec![] });
            for c in 0..n {
                for _ in 0..vec[c] {
                    b.dep(c, 2, Recip::None);
                }
            }
            out.push(b.case);
        }
    }
    // UpdatePerAddressLimit / UpdateStartTime guards
    let mut lits: Vec<u32> = vec![0, 1, 2, 3, 4, 5, 6, 7, 8, MAX_PER_ADDRESS_LIMIT - 1, MAX_PER_ADDRESS_LIMIT, MAX_PER_ADDRESS_LIMIT + 1];
    for l in harvest_literals(&["contracts/minters/token-merge-minter/src/contract.rs", "contracts/minters/token-merge-minter/src/validation.rs"]) {
        if l < 200 {
            for d in [l.saturating_sub(1), l, l + 1] {
                lits.push(d as u32);
            }
        }
    }
    lits.sort();
    lits.dedup();
    for nt in [3u32, 99, 100, 101, 134, 167, 1700] {
        let mut b = B::new(&format!("probe-updlimit-n{}", nt), &[1], nt, 1);
        b.push(Op::UpdLimit { caller: 1, l: 2, funds: vec![] });
        b.push(Op::UpdLimit { caller: 0, l: 2, funds: vec![(0, 1)] });
        for &l in &lits {
            b.push(Op::UpdLimit { caller: 0, l, funds: vec![] });
        }
        b.dep(0, 1, Recip::None);
        out.push(b.case);
    }
    let mut b = B::new("probe-updstart", &[1], 3, 3);
    let g = chain::GENESIS_NS;
    let t0 = g + 2_000_000_000;
    b.at(t0);
    for t in [t0 + 10, t0 + 1, t0, t0 - 1, g, g - 1, START - 1, START, START + 1] {
        b.at(t0).push(Op::UpdStart { caller: 0, t, funds: vec![] });
    }
    // the last accepted value is START+1; deposits at START+1 (not after) and START+2
    let tok = b.fresh(0, 1);
    b.at(START).push(Op::UpdStart { caller: 0, t: START + 1, funds: vec![] });
    b.at(START + 1).push(Op::Send { coll: 0, user: 1, tok, garbage: false, recip: Recip::None });
    b.at(START + 1).push(Op::UpdStart { caller: 0, t: START + 10, funds: vec![] });
    b.at(START + 2).push(Op::UpdStart { caller: 0, t: START + 10, funds: vec![] });
    b.at(START + 2).push(Op::Send { coll: 0, user: 1, tok, garbage: false, recip: Recip::None });
    out.push(b.case);
    out
}

fn random_history(rng: &mut Rng, idx: usize, grid: &[(String, String)]) -> Case {
    let n = rng.range(1, 3) as usize;
    let vec: Vec<u32> = (0..n).map(|_| rng.range(1, 3) as u32).collect();
    let nt = *rng.pick(&[1u32, 2, 3, 4, 6, 8]);
    let limit = rng.range(1, 3) as u32;
    let mut b = B::new(&format!("random-{}", idx), &vec, nt, limit);
    b.case.airdrop_price = *rng.pick(&[0u128, 0, 1000]);
    let len = rng.range(20, 45);
    // generator-side guess of the ledger (only used to bias toward useful deposits)
    let mut guess: BTreeMap<(usize, usize), u32> = BTreeMap::new();
    if rng.chance(1, 4) {
        b.at(START - 2_000_000_000);
    }
    let mut burned: Vec<(usize, usize, u64)> = vec![];
    for _ in 0..len {
        if rng.chance(1, 6) {
            b.t += rng.range(0, 3) * 1_000_000_000;
        }
        let k = rng.below(100);
        if k < 68 {
            let user = rng.range(1, 3) as usize;
            let recip = match rng.below(20) {
                0 => Recip::Invalid,
                1..=4 => Recip::Addr(rng.range(1, 4) as usize),
                _ => Recip::None,
            };
            let r = recipient_index(user, &recip).unwrap_or(user);
            let open: Vec<usize> = (0..n).filter(|c| *guess.get(&(r, *c)).unwrap_or(&0) < vec[*c]).collect();
            let coll = if !open.is_empty() && rng.chance(4, 5) { *rng.pick(&open) } else { rng.below(n as u64 + 1) as usize };
            if coll < n && *guess.get(&(r, coll)).unwrap_or(&0) < vec[coll] {
                *guess.entry((r, coll)).or_insert(0) += 1;
                if (0..n).all(|c| *guess.get(&(r, c)).unwrap_or(&0) >= vec[c]) {
                    for c in 0..n {
                        guess.remove(&(r, c));
                    }
                }
            }
            if !burned.is_empty() && rng.chance(1, 12) {
                let (c, u, tok) = *rng.pick(&burned);
                b.push(Op::Send { coll: c, user: u, tok, garbage: false, recip });
            } else {
                let tok = b.dep(coll, user, recip);
                burned.push((coll, user, tok));
            }
        } else if k < 76 {
            let user = *rng.pick(&[1usize, 2, 3, 0, PUPPET]);
            let cw_sender = rng.range(1, 3) as usize;
            let tok = if !burned.is_empty() && rng.chance(1, 2) { rng.pick(&burned).2 } else { b.fresh(0, cw_sender) };
            b.push(Op::Direct { user, cw_sender, tok, recip: if rng.chance(1, 3) { Recip::Addr(rng.range(1, 4) as usize) } else { Recip::None } });
        } else if k < 84 {
            let caller = if rng.chance(5, 6) { 0 } else { rng.range(1, 5) as usize };
            let funds = if rng.chance(5, 6) { b.pay() } else { vec![(0, rng.range(1, 1001) as u128)] };
            let recip = Recip::Addr(rng.range(1, 5) as usize);
            if rng.chance(2, 3) {
                b.push(Op::MintTo { caller, recip, funds });
            } else {
                b.push(Op::MintFor { caller, tid: rng.range(0, nt as u64 + 1) as u32, recip, funds });
            }
        } else if k < 88 {
            b.push(Op::Purge { caller: rng.range(0, 5) as usize, funds: vec![] });
        } else if k < 90 {
            b.push(Op::BurnRemaining { caller: if rng.chance(3, 4) { 0 } else { 2 }, funds: vec![] });
        } else if k < 94 {
            b.push(Op::UpdLimit { caller: if rng.chance(5, 6) { 0 } else { 1 }, l: rng.range(0, 4) as u32, funds: vec![] });
        } else if k < 97 {
            let t = b.t + rng.range(0, 4) * 1_000_000_000;
            b.push(Op::UpdStart { caller: if rng.chance(5, 6) { 0 } else { 1 }, t, funds: vec![] });
        } else if k < 98 {
            let fee = b.case.shuffle_fee;
            b.push(Op::Shuffle { caller: rng.range(0, 5) as usize, funds: if rng.chance(3, 4) { vec![(0, fee)] } else { vec![] } });
        } else if k < 99 {
            if rng.chance(1, 2) {
                b.push(sudo_frozen(rng.chance(2, 3)));
            } else {
                b.push(sudo(if rng.chance(1, 2) { Some(rng.range(1, 4) as u32) } else { None }, if rng.chance(1, 3) { Some(b.case.airdrop_price) } else { None }, None));
            }
        } else {
            let stored = if rng.chance(1, 3) { None } else { Some(rng.pick(grid).clone()) };
            b.push(mig(if rng.chance(3, 4) { CREATOR } else { rng.range(1, 5) as usize }, stored));
        }
        if rng.chance(1, 12) {
            let stored = if rng.chance(1, 3) { None } else { Some(rng.pick(grid).clone()) };
            b.push(mig(if rng.chance(4, 5) { CREATOR } else { rng.range(1, 5) as usize }, stored));
        }
    }
    b.case
}

fn malformed(rng: &mut Rng, idx: usize) -> Case {
    let mut b = B::new(&format!("malformed-{}", idx), &[1, 2], 2, 2);
    for _ in 0..12 {
        let user = rng.range(1, 3) as usize;
        let tok = b.fresh(rng.below(3) as usize, user);
        let coll = rng.below(3) as usize; // often not the token's collection
        match rng.below(6) {
            0 => b.push(Op::Send { coll, user, tok, garbage: true, recip: Recip::None }),
            1 => b.push(Op::Send { coll, user, tok, garbage: false, recip: Recip::Invalid }),
            2 => b.push(Op::Send { coll, user: 5, tok, garbage: false, recip: Recip::None }),
            3 => b.push(Op::Send { coll, user, tok: tok + 50, garbage: false, recip: Recip::None }),
            4 => b.push(Op::Purge { caller: user, funds: vec![(1, 5)] }),
            _ => b.push(Op::MintTo { caller: 0, recip: Recip::Addr(user), funds: vec![(0, 1), (1, 1)] }),
        };
    }
    b.case
}

fn gen_cases(a: &Args) -> Vec<Case> {
    let mut rng = Rng::new(a.seed);
    let mut cases = corpus();
    cases.extend(probes(&mut rng));
    let (nr, nm) = if a.thorough() { (2500, 200) } else { (150, 12) };
    let grid = cw2_grid();
    for i in 0..nr {
        cases.push(random_history(&mut rng, i, &grid));
    }
    for i in 0..nm {
        cases.push(malformed(&mut rng, i));
    }
    cases
}

/// remove steps one at a time while the same violation key is still produced
fn shrink(case: &Case, key: &str) -> Case {
    let mut cur = case.clone();
    let mut i = cur.steps.len();
    while i > 0 {
        i -= 1;
        let mut t = cur.clone();
        t.steps.remove(i);
        if let Ok(r) = run_case(&t) {
            if r.violations.iter().any(|(k, _, _)| k == key) {
                cur = t;
            }
        }
    }
    // drop source tokens no remaining step mentions
    let used: BTreeSet<(usize, u64)> = cur
        .steps
        .iter()
        .filter_map(|s| match &s.op {
            Op::Send { coll, tok, .. } => Some((*coll, *tok)),
            _ => None,
        })
        .collect();
    let mut t = cur.clone();
    t.src.retain(|(c, k, _)| used.contains(&(*c, *k)));
    if let Ok(r) = run_case(&t) {
        if r.violations.iter().any(|(k, _, _)| k == key) {
            cur = t;
        }
    }
    cur
}

fn describe(case: &Case, r: &RunOut) -> Vec<String> {
    case.steps
        .iter()
        .zip(r.steps.iter())
        .map(|(s, o)| {
            format!(
                "t={:+}ns {:?} -> {}{}",
                s.at as i128 - START as i128,
                s.op,
                if o.ok { "ok".to_string() } else { {
                    let e: Vec<char> = o.err.replace('\n', " ").chars().collect();
                    format!("err(..{})", e[e.len().saturating_sub(70)..].iter().collect::<String>())
                } },
                if o.pick != 0 { format!(" minted #{}", o.pick) } else { String::new() }
            )
        })
        .collect()
}

pub fn run(a: &Args) {
    let out = OutDir::new(&a.out);
    let mut rep = Report { property: "C17".into(), tier: a.tier.clone(), seed: a.seed, ..Default::default() };
    let cases: Vec<Case> = if let Some(p) = &a.replay {
        #[derive(Deserialize)]
        struct ReplayFile {
            case: Case,
        }
        let txt = std::fs::read_to_string(p).expect("replay file");
        let rf: ReplayFile = serde_json::from_str(&txt).expect("replay json");
        vec![rf.case]
    } else {
        gen_cases(a)
    };
    let mut coq_cases = vec![];
    let mut distinct: BTreeSet<String> = BTreeSet::new();
    let mut nviol = 0;
    let mut seen_keys: BTreeSet<String> = BTreeSet::new();
    let mut notes: BTreeMap<String, u64> = BTreeMap::new();
    for (ci, case) in cases.iter().enumerate() {
        let r = match run_case(case) {
            Ok(r) => r,
            Err(e) => {
                // the world could not be built: the factory/minter refuse a creation this harness relies on
                nviol += 1;
                let body = format!(
                    "{{\n \"property\": \"C17\",\n \"case\": {},\n \"violation\": {}\n}}\n",
                    serde_json::to_string(case).unwrap(),
                    serde_json::to_string(&format!("world setup failed: {}", e)).unwrap()
                );
                let path = out.write_replay(&format!("C17-{}.json", nviol), &body);
                rep.violations.push(Violation { key: "C17:setup".into(), what: format!("{}: world setup failed: {}", case.name, e), replay: path });
                continue;
            }
        };
        for (s, o) in case.steps.iter().zip(r.steps.iter()) {
            rep.evaluations += 1;
            rep.bump(&format!("{}:{}", s.op.kind(), if o.ok { "ok" } else { "err" }));
            if o.pick != 0 {
                rep.bump("mints");
            }
        }
        for n in &r.notes {
            let k = n.splitn(2, ": ").nth(1).unwrap_or(n).to_string();
            *notes.entry(k).or_insert(0) += 1;
        }
        // non-trivial: at least one accepted deposit
        if case.steps.iter().zip(r.steps.iter()).any(|(s, o)| o.ok && matches!(s.op, Op::Send { .. })) {
            let mut c = case.clone();
            c.name.clear();
            distinct.insert(serde_json::to_string(&c).unwrap());
        }
        for (key, what, step) in &r.violations {
            if seen_keys.contains(key) && nviol >= 5 {
                continue;
            }
            seen_keys.insert(key.clone());
            nviol += 1;
            let small = shrink(case, key);
            let sr = run_case(&small).expect("shrunk case runs");
            let body = format!(
                "{{\n \"property\": \"C17\",\n \"key\": {},\n \"violation\": {},\n \"history\": {},\n \"case\": {}\n}}\n",
                serde_json::to_string(key).unwrap(),
                serde_json::to_string(&sr.violations.iter().find(|(k, _, _)| k == key).map(|x| x.1.clone()).unwrap_or(what.clone())).unwrap(),
                serde_json::to_string_pretty(&describe(&small, &sr)).unwrap(),
                serde_json::to_string(&small).unwrap()
            );
            let path = out.write_replay(&format!("C17-{}.json", nviol), &body);
            rep.violations.push(Violation { key: key.clone(), what: format!("{} step {}: {}", case.name, step, what), replay: path });
        }
        if rep.samples.len() < 3 && (ci % 97 == 1 || a.replay.is_some()) {
            rep.samples.push(serde_json::json!({"case": case.name, "requirements": format!("{:?}", case.req), "num_tokens": case.num_tokens, "limit": case.limit, "history": describe(case, &r)}));
        }
        coq_cases.push(case_coq(case, &r));
    }
    if a.replay.is_some() {
        // a replay prints what happened, step by step
        for (case, _) in cases.iter().zip(0..) {
            if let Ok(r) = run_case(case) {
                for l in describe(case, &r) {
                    println!("  {}", l);
                }
                for (k, w, s) in &r.violations {
                    println!("  VIOLATION {} at step {}: {}", k, s, w);
                }
            }
        }
    }
    rep.distinct_nontrivial = distinct.len() as u64;
    rep.rule = "evaluations = operations executed on the real contracts (each followed by a full observation); a history counts as distinct non-trivial when it differs from every other as data and contains at least one accepted deposit".into();
    for (k, n) in notes {
        rep.notes.push(format!("{} x {}", n, k));
    }
    rep.notes.push(format!("{} histories", cases.len()));
    out.write_cases("C17", "From Coq Require Import String. From LP Require Import Num Pay Sg1 TokenMerge TokenMergeMigrate C17Corr.", "c17_case", "c17_check", &coq_cases, 6, &mut rep);
    out.finish(&rep);
    println!("C17 harness: {} histories, {} steps, {} monitor violations", cases.len(), rep.evaluations, nviol);
}
