//! C06 — fee splits.  Calls the real sg1 functions on swept inputs, records their
//! outputs as Coq terms for the model comparison, and evaluates the property text
//! (documented ratios, conservation) directly on the outputs as monitors.
use crate::util::*;
use crate::Args;
use cosmwasm_std::testing::mock_env;
use cosmwasm_std::{coin, Addr, Coin, MessageInfo, Response};
use serde::{Deserialize, Serialize};
use std::collections::BTreeSet;

#[path = "c06_sites.rs"]
mod sites;

#[derive(Clone, Debug, Serialize, Deserialize, PartialEq, Eq, PartialOrd, Ord)]
pub enum Case {
    FairBurn { fee: u128, dev: bool },
    Checked { funds: Vec<(String, u128)>, fee: u128, dev: bool },
    Ibc { fee: u128, dev: bool },
    MintFees { native: bool, fee: u128, featured: bool, dev: bool },
    Dao { funds: Vec<(String, u128)>, fee: u128, native: bool },
}

const SENDER: &str = "contract0";
const DEV: &str = "developer";
const IBC: &str = "ibc/C4CFF46FD6DE35CA4CF4CE031E643C8FDC9BA4B99AE598E9B0ED98FE3A2319F9";

fn funds_of(v: &[(String, u128)]) -> Vec<Coin> {
    v.iter().map(|(d, a)| coin(*a, d.clone())).collect()
}

struct Outcome {
    out: Result<Vec<BMsg>, String>,
    coq: String,
}

fn run_case(c: &Case) -> Outcome {
    let mut addrs = addr_ids();
    let mut denoms = denom_ids();
    let sender_id = addrs.id(SENDER);
    let dev_id = addrs.id(DEV);
    let ibc_id = denoms.id(IBC);
    let _ = denoms.id("uother");
    let devo = |d: bool| if d { Some(Addr::unchecked(DEV)) } else { None };
    let devid = |d: bool| coq_opt_n(if d { Some(dev_id) } else { None });
    let coq_funds = |fs: &[(String, u128)], denoms: &mut Ids| {
        coq_list(&fs.iter().map(|(d, a)| format!("mkCoin {} {}", denoms.id(d), a)).collect::<Vec<_>>())
    };
    match c {
        Case::FairBurn { fee, dev } => {
            let r = catch(|| {
                let mut res = Response::new();
                sg1::fair_burn(SENDER.to_string(), *fee, devo(*dev), &mut res);
                res
            });
            let out = r.map(|res| classify_msgs(&res.messages, &mut addrs, &mut denoms));
            let coq = format!("CFairBurn {} {} {} {}", sender_id, fee, devid(*dev), coq_result_msgs(&out));
            Outcome { out, coq }
        }
        Case::Checked { funds, fee, dev } => {
            let info = MessageInfo { sender: Addr::unchecked("payer"), funds: funds_of(funds) };
            let mut env = mock_env();
            env.contract.address = Addr::unchecked(SENDER);
            let r = catch(|| {
                let mut res = Response::new();
                sg1::checked_fair_burn(&info, &env, *fee, devo(*dev), &mut res).map(|_| res)
            });
            let out = match r {
                Ok(Ok(res)) => Ok(classify_msgs(&res.messages, &mut addrs, &mut denoms)),
                Ok(Err(e)) => Err(e.to_string()),
                Err(p) => Err(p),
            };
            let cf = coq_funds(funds, &mut denoms);
            let coq = format!("CChecked {} {} {} {} {}", sender_id, cf, fee, devid(*dev), coq_result_msgs(&out));
            Outcome { out, coq }
        }
        Case::Ibc { fee, dev } => {
            let r = catch(|| {
                let mut res = Response::new();
                sg1::ibc_denom_fair_burn(coin(*fee, IBC), devo(*dev), &mut res).map(|_| res)
            });
            let out = match r {
                Ok(Ok(res)) => Ok(classify_msgs(&res.messages, &mut addrs, &mut denoms)),
                Ok(Err(e)) => Err(e.to_string()),
                Err(p) => Err(p),
            };
            let coq = format!("CIbc {} {} {} {}", ibc_id, fee, devid(*dev), coq_result_msgs(&out));
            Outcome { out, coq }
        }
        Case::MintFees { native, fee, featured, dev } => {
            let d = if *native { NATIVE } else { IBC };
            let r = catch(|| {
                let mut res = Response::new();
                sg1::distribute_mint_fees(coin(*fee, d), &mut res, *featured, devo(*dev)).map(|_| res)
            });
            let out = match r {
                Ok(Ok(res)) => Ok(classify_msgs(&res.messages, &mut addrs, &mut denoms)),
                Ok(Err(e)) => Err(e.to_string()),
                Err(p) => Err(p),
            };
            let coq = format!(
                "CMintFees {} {} {} {} {}",
                denoms.id(d),
                fee,
                coq_bool(*featured),
                devid(*dev),
                coq_result_msgs(&out)
            );
            Outcome { out, coq }
        }
        Case::Dao { funds, fee, native } => {
            let d = if *native { NATIVE } else { IBC };
            let info = MessageInfo { sender: Addr::unchecked("payer"), funds: funds_of(funds) };
            let r = catch(|| {
                let mut res = Response::new();
                sg1::transfer_funds_to_launchpad_dao(&info, *fee, d, &mut res).map(|_| res)
            });
            let out = match r {
                Ok(Ok(res)) => Ok(classify_msgs(&res.messages, &mut addrs, &mut denoms)),
                Ok(Err(e)) => Err(e.to_string()),
                Err(p) => Err(p),
            };
            let cf = coq_funds(funds, &mut denoms);
            let coq = format!("CDao {} {} {} {}", cf, fee, denoms.id(d), coq_result_msgs(&out));
            Outcome { out, coq }
        }
    }
}

/// The property text, evaluated with the documented numbers on what the code produced.
/// Returns Some(description) on a violation.  Shares nothing with the Coq model.
fn monitor(c: &Case, out: &Result<Vec<BMsg>, String>) -> Option<String> {
    let mut addrs = addr_ids();
    let mut denoms = denom_ids();
    let sender_id = addrs.id(SENDER);
    let dev_id = addrs.id(DEV);
    let ibc_id = denoms.id(IBC);
    let ceil_div = |a: u128, d: u128| a / d + if a % d != 0 { 1 } else { 0 };
    let expect = |want: Vec<BMsg>| -> Option<String> {
        match out {
            Ok(ms) if *ms == want => None,
            other => Some(format!("expected {:?}, got {:?}", want, other)),
        }
    };
    match c {
        Case::FairBurn { fee, dev } => {
            let burn = fee / 2;
            let rest = fee - burn;
            let second = if *dev {
                BMsg::Send { to: dev_id, denom: 0, amt: rest }
            } else {
                BMsg::FundPool { sender: sender_id, denom: 0, amt: rest }
            };
            expect(vec![BMsg::Burn { denom: 0, amt: burn }, second])
        }
        Case::Checked { funds, fee, dev } => {
            // payment: nothing => 0, exactly one native coin => its amount, else malformed
            let payment = if funds.is_empty() {
                Some(0)
            } else if funds.len() == 1 && funds[0].0 == NATIVE {
                Some(funds[0].1)
            } else {
                None
            };
            match payment {
                None => out.as_ref().ok().map(|ms| format!("malformed funds accepted: {:?}", ms)),
                Some(p) if p < *fee => out.as_ref().ok().map(|ms| format!("payment {} below fee {} accepted: {:?}", p, fee, ms)),
                Some(0) => expect(vec![]),
                Some(_) => {
                    let burn = fee / 2;
                    let rest = fee - burn;
                    let second = if *dev {
                        BMsg::Send { to: dev_id, denom: 0, amt: rest }
                    } else {
                        BMsg::FundPool { sender: sender_id, denom: 0, amt: rest }
                    };
                    expect(vec![BMsg::Burn { denom: 0, amt: burn }, second])
                }
            }
        }
        Case::Ibc { fee, dev } => {
            if *dev {
                let d = ceil_div(*fee, 2);
                expect(vec![
                    BMsg::Send { to: dev_id, denom: ibc_id, amt: d },
                    BMsg::Send { to: 1, denom: ibc_id, amt: fee - d },
                ])
            } else {
                expect(vec![BMsg::Send { to: 1, denom: ibc_id, amt: *fee }])
            }
        }
        Case::MintFees { native, fee, featured, dev } => {
            let den = if *native { 0 } else { ibc_id };
            let div = if *featured { 8 } else { 5 };
            let mut want = vec![];
            let mut rem = *fee;
            if *dev {
                let d = ceil_div(*fee, 2);
                want.push(BMsg::Send { to: dev_id, denom: den, amt: d });
                rem -= d;
            }
            let liq = ceil_div(rem, div);
            want.push(BMsg::Send { to: 3, denom: den, amt: liq });
            want.push(BMsg::Send { to: 2, denom: den, amt: rem - liq });
            let total: u128 = want.iter().map(|m| m.amount()).sum();
            assert_eq!(total, *fee);
            expect(want)
        }
        Case::Dao { funds, fee, native } => {
            let d = if *native { NATIVE } else { IBC };
            let den = if *native { 0 } else { ibc_id };
            let payment = if funds.len() == 1 && funds[0].0 == d && funds[0].1 > 0 { Some(funds[0].1) } else { None };
            match payment {
                None => out.as_ref().ok().map(|ms| format!("malformed funds accepted: {:?}", ms)),
                Some(p) if p < *fee => out.as_ref().ok().map(|ms| format!("payment {} below fee {} accepted: {:?}", p, fee, ms)),
                Some(p) => expect(vec![BMsg::Send { to: 2, denom: den, amt: p }]),
            }
        }
    }
}

fn boundary_values() -> Vec<u128> {
    let mut v = BTreeSet::new();
    for k in 0..128u32 {
        let p = 1u128 << k;
        for d in [p.wrapping_sub(1), p, p + 1] {
            v.insert(d);
        }
    }
    v.insert(u128::MAX);
    v.insert(u128::MAX - 1);
    let mut t = 1u128;
    for _ in 0..39 {
        for d in [t - 1, t, t + 1] {
            v.insert(d);
        }
        match t.checked_mul(10) {
            Some(x) => t = x,
            None => break,
        }
    }
    v.into_iter().collect()
}

fn gen_cases(a: &Args) -> Vec<Case> {
    let mut rng = Rng::new(a.seed);
    let (dense, nrand) = if a.thorough() { (40_000u128, 40_000usize) } else { (1_000u128, 1_000usize) };
    let mut fees: Vec<u128> = (0..=dense).collect();
    fees.extend(boundary_values());
    // every integer literal in the modelled source (and its neighbours): a change that
    // special-cases one input has to name it
    for l in harvest_literals(&["packages/sg1/src/lib.rs"]) {
        for d in [l.saturating_sub(1), l, l.saturating_add(1), l.saturating_mul(2), l.saturating_mul(2).saturating_add(1)] {
            fees.push(d);
        }
    }
    for _ in 0..nrand {
        fees.push(rng.u128_any_size());
    }
    let mut cases = vec![];
    // corpus first: the values the repo's own tests use plus the smallest ones
    for fee in [0u128, 1, 2, 3, 9, 1420, 10_000_000, u128::MAX] {
        for dev in [false, true] {
            cases.push(Case::FairBurn { fee, dev });
            for featured in [false, true] {
                cases.push(Case::MintFees { native: true, fee, featured, dev });
            }
        }
    }
    for &fee in &fees {
        for dev in [false, true] {
            cases.push(Case::FairBurn { fee, dev });
            cases.push(Case::Ibc { fee, dev });
            for featured in [false, true] {
                cases.push(Case::MintFees { native: rng.chance(1, 2), fee, featured, dev });
            }
        }
    }
    // payment-carrying entry points: structured (mostly valid) stream + malformed stream
    let npay = if a.thorough() { 30_000 } else { 3_000 };
    for i in 0..npay {
        let fee = if i % 3 == 0 { rng.below(2000) as u128 } else { rng.u128_any_size() };
        let dev = rng.chance(1, 2);
        let pay = match rng.below(6) {
            0 => fee.saturating_sub(1),
            1 => fee,
            2 => fee.saturating_add(1),
            3 => 0,
            _ => rng.u128_any_size(),
        };
        let funds = match rng.below(10) {
            0 => vec![],                                              // nothing attached
            1 => vec![(IBC.to_string(), pay)],                        // wrong denom
            2 => vec![(NATIVE.to_string(), pay), (IBC.to_string(), 5)], // extra coin
            3 => vec![(NATIVE.to_string(), pay), (NATIVE.to_string(), 1)], // duplicate denom
            4 => vec![("uother".to_string(), pay)],
            _ => vec![(NATIVE.to_string(), pay)],
        };
        cases.push(Case::Checked { funds: funds.clone(), fee, dev });
        let native = rng.chance(1, 3);
        let funds2 = if native || rng.chance(1, 5) {
            funds
        } else {
            funds.into_iter().map(|(d, x)| (if d == NATIVE { IBC.to_string() } else if d == IBC { NATIVE.to_string() } else { d }, x)).collect()
        };
        cases.push(Case::Dao { funds: funds2, fee, native });
    }
    cases
}

fn kind(c: &Case) -> &'static str {
    match c {
        Case::FairBurn { .. } => "fair_burn",
        Case::Checked { .. } => "checked_fair_burn",
        Case::Ibc { .. } => "ibc_denom_fair_burn",
        Case::MintFees { .. } => "distribute_mint_fees",
        Case::Dao { .. } => "transfer_funds_to_launchpad_dao",
    }
}

/// Every caller of the sg1 fee functions in /repo (grep -rn over contracts/ and packages/),
/// and how the call-site part drives it.
const SITE_NOTES: &[&str] = &[
    "call sites (grep -rn 'fair_burn|checked_fair_burn|distribute_mint_fees|ibc_denom_fair_burn|transfer_funds_to_launchpad_dao' contracts packages, sg1 itself excluded): \
     factories base/vending/open-edition/token-merge execute_create_minter: checked_fair_burn | transfer_funds_to_launchpad_dao chosen by creation_fee.denom [Site::Create]; \
     vending-minter, -featured, -wl-flex, -wl-flex-featured, -merkle-wl, -merkle-wl-featured, token-merge-minter execute_shuffle: checked_fair_burn(shuffle_fee.amount, None) [Site::Shuffle]; \
     the same six vending minters _execute_mint: distribute_mint_fees(fee, featured?, None); open-edition-minter, -wl-flex, -merkle-wl _execute_mint: distribute_mint_fees(fee, false, Some(dev_fee_address)); token-merge-minter _execute_mint (airdrop mints only): distribute_mint_fees(fee, false, None) [Site::Mint public / whitelist / airdrop]; \
     base-minter execute_mint_sender: checked_fair_burn(network_fee, None) [Site::BaseMint]; \
     whitelist, whitelist-flex, tiered-whitelist, tiered-whitelist-flex instantiate and execute_increase_member_limit: checked_fair_burn(fee, None) [Site::WlCreate, Site::WlIncrease]; \
     whitelist-merkletree, tiered-whitelist-merkletree instantiate: checked_fair_burn(CREATION_FEE, None) [Site::WlMerkleCreate]; \
     sg721-updatable execute_enable_updatable: checked_fair_burn(ENABLE_UPDATABLE_FEE, None) [Site::EnableUpdatable, on a collection migrated from sg721-base]; \
     sg-eth-airdrop instantiate: fair_burn(env.contract.address, INSTANTIATION_FEE, None) [Site::AirdropInit]",
    "not driven as fee sites: ibc_denom_fair_burn has no caller in contracts/ or packages/ (direct calls only); sg721-updatable UpdateTokenMetadata is nonpayable in this tree (no fee is charged, so there is nothing to dispose of); no call site passes a developer to fair_burn / checked_fair_burn (always None), the open-edition minters are the only ones that pass one to distribute_mint_fees",
    "prior balance of the calling contract: every site shape is also run at one representative fee with the contract already holding 1 / fee-1 / fee / 10*fee of the fee denom and 1 / 10*fee of the other denom (bank send to its address, for instantiate sites to the address the contract will get) and, for the factories and the shuffle, coins left behind by an earlier accepted over-payment; payments fee-1 / fee / fee+1 / none / wrong denom / two coins; an accepted call must leave the contract's own balance in every denom at least where it was (key contract-balance-used)",
    "open-edition developer: dev_fee_address is a mandatory String of the factory parameters (it cannot be absent; the empty string is the only way to name nobody) that neither instantiate nor sudo UpdateParams validates; the three open-edition minters are run in every mint mode with it set at instantiate and by sudo to a valid account, the creator (= seller), the payment address, and to the upper-case / mixed-case spelling, a 2-character string, the empty string, strings with an inner / trailing space and a 120-character string; the monitor reads the ledger: an accepted mint with a fee pays the configured developer ceil(F/2) (key developer), a rejected one moves nothing; the model takes the chain's own addr_validate answer about the string as an oracle input",
    "governance after creation: base-minter mint, shuffle (7 minters) and every minter's public / whitelist / airdrop mint are also run after a sudo UpdateParams on the factory between the creation of the minter and the probed call: min_mint_price lowered to a fifth and raised threefold under an existing minter (which keeps its stored price), and mint_fee_bps / airdrop price and bps / shuffle fee created higher or lower and then set to the values of the case (the contract reads them at call time); exact payment and payment-1; with the exact payment nothing of it may stay in the contract (key fee-stranded) and the parts must sum to the fee charged (key conservation)",
    "the decoded MsgFundFairburnPool sender is read from the stargate keeper: an accepted message was signed by the emitting contract (the keeper refuses anything else), a refused one names the sender in the refusal",
];

pub fn run(a: &Args) {
    let out = OutDir::new(&a.out);
    let mut rep = Report { property: "C06".into(), tier: a.tier.clone(), seed: a.seed, ..Default::default() };
    #[derive(Deserialize)]
    struct ReplayFile {
        case: Option<Case>,
        site_case: Option<sites::SiteCase>,
    }
    let (cases, site_cases): (Vec<Case>, Vec<sites::SiteCase>) = if let Some(p) = &a.replay {
        let txt = std::fs::read_to_string(p).expect("replay file");
        let rf: ReplayFile = serde_json::from_str(&txt).expect("replay json");
        (rf.case.into_iter().collect(), rf.site_case.into_iter().collect())
    } else {
        let mut srng = Rng::new(a.seed ^ 0x5173_C06);
        (gen_cases(a), sites::gen_cases(a.thorough(), &mut srng))
    };
    let mut coq_cases = Vec::with_capacity(cases.len());
    let mut coq_site_cases = Vec::with_capacity(site_cases.len());
    let mut distinct = BTreeSet::new();
    let mut nviol = 0;
    for (i, c) in cases.iter().enumerate() {
        let o = run_case(c);
        rep.evaluations += 1;
        let ok = o.out.is_ok();
        rep.bump(&format!("{}:{}", kind(c), if ok { "ok" } else { "err" }));
        // non-trivial: produced at least one message with a non-zero amount
        if let Ok(ms) = &o.out {
            if ms.iter().any(|m| m.amount() > 0) {
                distinct.insert(c.clone());
            }
        }
        if let Some(what) = monitor(c, &o.out) {
            nviol += 1;
            if nviol <= 20 {
                // composed by hand: serde_json::Value cannot hold a u128, to_string/from_str can
                let body = format!(
                    "{{\n \"property\": \"C06\",\n \"case\": {},\n \"observed\": {},\n \"violation\": {}\n}}\n",
                    serde_json::to_string(c).unwrap(),
                    serde_json::to_string(&format!("{:?}", o.out)).unwrap(),
                    serde_json::to_string(&what).unwrap()
                );
                let path = out.write_replay(&format!("C06-{}.json", nviol), &body);
                rep.violations.push(Violation { key: format!("C06:{}", kind(c)), what: format!("{} on {:?}: {}", kind(c), c, what), replay: path });
            }
        }
        if rep.samples.len() < 3 && (i % 997 == 5 || a.replay.is_some()) {
            rep.samples.push(serde_json::json!({"case": format!("{:?}", c), "impl_output": format!("{:?}", o.out)}));
        }
        coq_cases.push(o.coq);
    }
    // ---- call sites: the real contracts on the simulated chain
    let mut site_distinct = BTreeSet::new();
    let mut seen_keys: BTreeSet<String> = BTreeSet::new();
    let mut site_sampled = false;
    for c in site_cases.iter() {
        rep.evaluations += 1;
        let k = sites::kind(c);
        let mut found: Vec<(String, String)> = vec![];
        let observed: String;
        match sites::run_case(c) {
            Ok(o) => {
                rep.bump(&format!("{}:{}", k, if o.ok { "ok" } else { "err" }));
                if o.ok && sites::expectation(c).fee > 0 {
                    site_distinct.insert(c.clone());
                }
                found = sites::monitor(c, &o);
                observed = serde_json::to_string(&o).unwrap();
                if !site_sampled && (o.ok || a.replay.is_some()) && matches!(c.site, sites::Site::Mint { .. }) {
                    site_sampled = true;
                    rep.samples.truncate(2);
                    rep.samples.push(serde_json::json!({"case": format!("{:?}", c), "impl_output": format!("ok={} contract={} deltas: pool {} burned {} launchpad {} liquidity {} dev {:?}",
                        o.ok, o.contract, o.delta(crate::chain::FAIRBURN_POOL, NATIVE), o.delta("#burned", NATIVE),
                        o.delta(LAUNCHPAD_DAO, NATIVE), o.delta(LIQUIDITY_DAO, NATIVE), o.dev.as_ref().map(|d| o.delta(d, NATIVE)))}));
                }
                coq_site_cases.push(sites::coq_case(c, &o));
            }
            Err(e) => {
                // the world of the case could not be staged: on the unchanged tree this never
                // happens; on a changed tree the site (or the path to it) no longer accepts
                // what it must accept
                rep.bump(&format!("{}:unreachable", k));
                found.push((format!("C06:{}:unreachable", k), format!("the world of the case cannot be built any more: {}", e)));
                observed = serde_json::to_string(&e).unwrap();
            }
        }
        for (key, what) in found {
            nviol += 1;
            // one replay per distinct shape of failure (the key), the first case that showed it
            if seen_keys.len() < 60 && seen_keys.insert(key.clone()) {
                let body = format!(
                    "{{\n \"property\": \"C06\",\n \"site_case\": {},\n \"observed\": {},\n \"key\": {},\n \"violation\": {}\n}}\n",
                    serde_json::to_string(c).unwrap(),
                    observed,
                    serde_json::to_string(&key).unwrap(),
                    serde_json::to_string(&what).unwrap()
                );
                let path = out.write_replay(&format!("C06-{}.json", nviol), &body);
                rep.violations.push(Violation { key, what: format!("{:?}: {}", c, what), replay: path });
            }
        }
    }
    rep.distinct_nontrivial = (distinct.len() + site_distinct.len()) as u64;
    rep.rule = "sg1 functions called directly on: every fee in a dense initial range, all 2^k,2^k±1,10^k,10^k±1, random u128 of random bit length, x {dev present/absent} x {featured} x {native, IBC}; payment entry points on fee-1/fee/fee+1/0/random payments with valid and malformed coin lists. Non-trivial = distinct input whose output carries a non-zero amount. Call sites: every caller of those functions in the contracts, run on the simulated chain (factories x fee denom x mint denom, 11 minters x public/whitelist/airdrop mint x denom, shuffle, whitelist creation / IncreaseMemberLimit, Merkle whitelists, EnableUpdatable, sg-eth-airdrop instantiate) with fees 1,2,3,odd,even,large and payments fee-1/fee/fee+1/none/wrong denom/two coins; non-trivial = distinct accepted call that charged a non-zero fee.".into();
    rep.notes.extend(SITE_NOTES.iter().map(|s| s.split_whitespace().collect::<Vec<_>>().join(" ")));
    if a.replay.is_none() {
        rep.notes.push(sites::probe_shuffle_fee_in_ibc_denom());
    }
    rep.notes.push(format!("{} direct calls, {} call-site cases ({} accepted with a non-zero fee)", cases.len(), site_cases.len(), site_distinct.len()));
    // the site cases are spread evenly over the direct ones, so that every shard of the
    // model run gets its share of them
    let every = (coq_cases.len() / coq_site_cases.len().max(1)).max(1);
    let mut all = Vec::with_capacity(coq_cases.len() + coq_site_cases.len());
    let mut sit = coq_site_cases.into_iter();
    for (i, c) in coq_cases.into_iter().enumerate() {
        if i % every == 0 {
            all.extend(sit.next());
        }
        all.push(c);
    }
    all.extend(sit);
    let coq_cases = all;
    out.write_cases("C06", "From LP Require Import Num Pay Sg1 Bank FeeSites C06Corr.", "c06_case", "c06_check", &coq_cases, 6, &mut rep);
    out.finish(&rep);
    println!("C06 harness: {} cases, {} monitor violations", rep.evaluations, nviol);
}
