//! C19 — trading cannot be scheduled past the governance offset or into the past.
//!
//! Every minter family (six vending minters through the shared sale world, three
//! open-edition minters, the token-merge minter and the base minter through a small
//! JSON-driven world of its own) is created through its factory with requested trading
//! times none / now-1ns / now / mint start / bound-1ns / bound / bound+1ns / u64::MAX
//! under ordinary, zero, maximal and overflowing governance offsets, then driven through
//! UpdateStartTradingTime requests by admin / buyer / stranger, start-time moves, sudo
//! offset changes, clock moves past the mint start and past the bound, a change of the
//! collection's creator, and direct UpdateStartTradingTime calls on the collection, for
//! sg721-base and sg721-updatable collections.
//!
//! Anchor sweep: every world also carries the configuration dimensions a bound COULD be
//! wrongly anchored at (open editions with no / near / far end time, with and without a token
//! limit; a whitelist attached at creation with a window before or after the mint start),
//! and trading times are requested — at creation and on update — at every candidate anchor
//! (creation time, clock, mint start as last accepted and as created, end time as last
//! accepted and as created, whitelist start / end, genesis) plus the offset (current, as at
//! creation, previous) plus 0 / 1 ns, before and after governance lowered / raised the offset
//! and the admin moved the mint start and the end time.  The monitors judge against a harness
//! LEDGER (mint start as last accepted, offset as governance last set it), never against
//! values read back from the contracts.
//!
//! Times in a case are SYMBOLIC (relative to the clock, the stored mint start and the
//! offset the factory reports when the op is run), so a replay file re-runs exactly.
//! Monitors are written from the property text and use checked u64 arithmetic on the
//! Config.start_time and factory Params read right before each step.
use crate::chain::{self, App};
use crate::util::*;
use crate::w_sale::{self, Op, SaleCfg, SaleWorld, BUYERS, CREATOR, STRANGER, VARIANTS};
use crate::Args;
use cosmwasm_std::{coin, Addr};
use cw_multi_test::Executor;
use serde::{Deserialize, Serialize};
use serde_json::{json, Value};
use std::collections::{BTreeMap, BTreeSet};

const S: u64 = 1_000_000_000;
const T0_DEFAULT: u64 = chain::GENESIS_NS + S;
thread_local! {
    /// chain clock at which the world of the case being run is created
    static T0_CELL: std::cell::Cell<u64> = std::cell::Cell::new(T0_DEFAULT);
}
#[allow(non_snake_case)]
fn T0() -> u64 {
    T0_CELL.with(|c| c.get())
}
const WEEK: u64 = 7 * 24 * 3600;
/// smallest offset whose product with 10^9 leaves u64
const MUL_OVERFLOW: u64 = u64::MAX / S + 1;

#[derive(Clone, Copy, Debug, Serialize, Deserialize, PartialEq, Eq, PartialOrd, Ord)]
pub enum Fam {
    Vending(usize),
    OpenEdition(usize),
    TokenMerge,
    Base,
}
const OE_NAMES: [&str; 3] = ["open-edition-minter", "open-edition-minter-wl-flex", "open-edition-minter-merkle-wl"];
impl Fam {
    fn name(&self) -> &'static str {
        match self {
            Fam::Vending(i) => VARIANTS[*i].name,
            Fam::OpenEdition(i) => OE_NAMES[*i],
            Fam::TokenMerge => "token-merge-minter",
            Fam::Base => "base-minter",
        }
    }
    fn coq(&self) -> &'static str {
        match self {
            Fam::Vending(_) => "FVending",
            Fam::OpenEdition(_) => "FOpenEdition",
            Fam::TokenMerge => "FTokenMerge",
            Fam::Base => "FBase",
        }
    }
    /// the property gives the base minter no upper bound
    fn bounded(&self) -> bool {
        !matches!(self, Fam::Base)
    }
    fn all() -> Vec<Fam> {
        let mut v: Vec<Fam> = (0..6).map(Fam::Vending).collect();
        v.extend((0..3).map(Fam::OpenEdition));
        v.push(Fam::TokenMerge);
        v.push(Fam::Base);
        v
    }
}

/// a requested time, relative to what the contracts hold when the op runs
#[derive(Clone, Copy, Debug, Serialize, Deserialize, PartialEq, Eq)]
pub enum T {
    None,
    Now(i64),
    Start(i64),
    /// stored mint start + offset in force * 10^9 + d (saturating at u64::MAX)
    Bound(i64),
    /// clock + offset in force * 10^9 + d
    NowPlusOffset(i64),
    Abs(u64),
    /// candidate anchor + a governance offset (current / as at creation / the one before the last
    /// change) * 10^9 + d; not applicable (the op is skipped) when the world has no such anchor
    A { anchor: Anchor, off: OffSel, d: i64 },
}
/// every instant of a world that a bound COULD be anchored at (only the stored mint start is right)
#[derive(Clone, Copy, Debug, Serialize, Deserialize, PartialEq, Eq)]
pub enum Anchor {
    Creation,
    Now,
    /// the mint start as last accepted (harness ledger)
    Start,
    /// the mint start given at creation
    OrigStart,
    /// open editions: the end time as last accepted / as given at creation
    End,
    OrigEnd,
    /// start / end of the whitelist attached at creation
    WlStart,
    WlEnd,
    Genesis,
}
const ANCHORS: [Anchor; 9] = [Anchor::Creation, Anchor::Now, Anchor::Start, Anchor::OrigStart, Anchor::End, Anchor::OrigEnd, Anchor::WlStart, Anchor::WlEnd, Anchor::Genesis];
#[derive(Clone, Copy, Debug, Serialize, Deserialize, PartialEq, Eq)]
pub enum OffSel {
    Cur,
    Orig,
    Prev,
}
/// configuration dimensions of a world beyond family / collection type / start / offset
#[derive(Clone, Copy, Debug, Default, Serialize, Deserialize, PartialEq, Eq)]
pub struct Dims {
    /// open editions: end_time = mint start + this many seconds (None: no end time)
    pub end_after_secs: Option<u64>,
    /// open editions: no token limit (needs an end time)
    pub unlimited: bool,
    /// a whitelist attached at creation, window (start_in, end_in) seconds after creation (vending, open editions)
    pub wl: Option<(u64, u64)>,
}
#[derive(Clone, Copy, Debug, Serialize, Deserialize, PartialEq, Eq)]
pub enum Off {
    Abs(u64),
    /// the largest offset for which start + offset*10^9 still fits u64, plus d
    MaxOk(i64),
}

#[derive(Clone, Debug, Serialize, Deserialize, PartialEq, Eq)]
pub enum Cop {
    At { secs: u64, nanos: i64 },
    Trading { who: String, t: T, funds: u128 },
    StartTime { who: String, t: T },
    Offset { offset: Off },
    Direct { who: String, t: T },
    NewCreator { who: String, to: String },
    /// open editions: UpdateEndTime
    EndTime { who: String, t: T },
    /// migrate the minter to its own code id (vending and open-edition families); `stored`
    /// rewrites cw2 first
    Migrate {
        who: String,
        #[serde(default)]
        stored: Option<(String, String)>,
    },
}

#[derive(Clone, Debug, Serialize, Deserialize)]
pub struct Case {
    pub fam: Fam,
    pub updatable: bool,
    pub start_in_secs: u64,
    pub offset: Off,
    pub requested: T,
    pub ops: Vec<Cop>,
    #[serde(default)]
    pub dims: Dims,
    /// chain clock at creation, nanoseconds relative to the genesis mint time (None: genesis + 1 s)
    #[serde(default)]
    pub clock: Option<i64>,
}

fn sat(base: u128, d: i64) -> u64 {
    let v = base as i128 + d as i128;
    v.clamp(0, u64::MAX as i128) as u64
}
/// the harness ledger: what was requested and accepted so far (never read back from the contracts)
#[derive(Clone, Copy, Debug)]
struct Ctx {
    now: u64,
    /// mint start as last accepted by the minter
    start: u64,
    /// offset as governance last set it
    offset: u64,
    orig_start: u64,
    orig_offset: u64,
    prev_offset: u64,
    end: Option<u64>,
    orig_end: Option<u64>,
    wl: Option<(u64, u64)>,
}
/// outer None: the world has no such anchor (skip the op); inner None: "no time" is requested
fn resolve(t: T, c: &Ctx) -> Option<Option<u64>> {
    let (now, start, offset) = (c.now, c.start, c.offset);
    Some(match t {
        T::None => None,
        T::Now(d) => Some(sat(now as u128, d)),
        T::Start(d) => Some(sat(start as u128, d)),
        T::Bound(d) => Some(sat(start as u128 + offset as u128 * S as u128, d)),
        T::NowPlusOffset(d) => Some(sat(now as u128 + offset as u128 * S as u128, d)),
        T::Abs(x) => Some(x),
        T::A { anchor, off, d } => {
            let a = match anchor {
                Anchor::Creation => T0(),
                Anchor::Now => now,
                Anchor::Start => start,
                Anchor::OrigStart => c.orig_start,
                Anchor::End => c.end?,
                Anchor::OrigEnd => c.orig_end?,
                Anchor::WlStart => c.wl?.0,
                Anchor::WlEnd => c.wl?.1,
                Anchor::Genesis => chain::GENESIS_NS,
            };
            let o = match off {
                OffSel::Cur => offset,
                OffSel::Orig => c.orig_offset,
                OffSel::Prev => c.prev_offset,
            };
            Some(sat(a as u128 + o as u128 * S as u128, d))
        }
    })
}
fn resolve_off(o: Off, start: u64) -> u64 {
    match o {
        Off::Abs(x) => x,
        Off::MaxOk(d) => sat(((u64::MAX - start) / S) as u128, d),
    }
}
/// (secs, nanos) relative to T0() for the sale world's op language
fn rel(t: u64) -> (u64, i64) {
    if t >= T0() {
        ((t - T0()) / S, ((t - T0()) % S) as i64)
    } else {
        (0, -((T0() - t) as i64))
    }
}
fn tsj(n: u64) -> Value {
    json!(n.to_string())
}
fn coinv(amount: u128) -> Value {
    json!({"amount": amount.to_string(), "denom": NATIVE})
}

// ---------------------------------------------------------------------------------------
// open-edition / token-merge / base world (creation by JSON through the real factories)
// ---------------------------------------------------------------------------------------
pub struct FamWorld {
    pub app: App,
    pub fam: Fam,
    pub factory: Addr,
    pub minter: Addr,
    pub collection: Addr,
}
const CREATION_FEE: u128 = 5_000;

impl FamWorld {
    fn factory_params(fam: Fam, minter_code: u64, sg721: u64, offset: u64) -> Value {
        match fam {
            Fam::OpenEdition(_) => json!({"params": {
                "code_id": minter_code, "allowed_sg721_code_ids": [sg721], "frozen": false,
                "creation_fee": coinv(CREATION_FEE), "min_mint_price": coinv(50), "mint_fee_bps": 1000,
                "max_trading_offset_secs": offset,
                "extension": {"max_token_limit": 10000, "max_per_address_limit": 50, "airdrop_mint_fee_bps": 100,
                              "airdrop_mint_price": coinv(100), "dev_fee_address": "devaddr"}}}),
            Fam::TokenMerge => json!({"params": {
                "code_id": minter_code, "allowed_sg721_code_ids": [sg721], "frozen": false,
                "creation_fee": coinv(CREATION_FEE), "max_trading_offset_secs": offset,
                "max_token_limit": 10000, "max_per_address_limit": 50,
                "airdrop_mint_price": coinv(0), "airdrop_mint_fee_bps": 10000, "shuffle_fee": coinv(500)}}),
            _ => json!({"params": {
                "code_id": minter_code, "allowed_sg721_code_ids": [sg721], "frozen": false,
                "creation_fee": coinv(CREATION_FEE), "min_mint_price": coinv(50), "mint_fee_bps": 10000,
                "max_trading_offset_secs": offset, "extension": null}}),
        }
    }
    fn collection_params(sg721: u64, requested: Option<u64>) -> Value {
        json!({"code_id": sg721, "name": "Collection", "symbol": "COL",
            "info": {"creator": CREATOR, "description": "d", "image": "https://example.com/image.png",
                     "external_link": "https://example.com/external.html", "explicit_content": false,
                     "start_trading_time": requested.map(tsj),
                     "royalty_info": {"payment_address": CREATOR, "share": "0.1"}}})
    }
    /// the chain and the factory; Err only if the harness itself is wrong
    pub fn new(fam: Fam, updatable: bool, start: u64, offset: u64, requested: Option<u64>, dims: &Dims) -> Result<FamWorld, String> {
        let mut app = chain::new_app();
        if chain::now(&app) != T0() {
            chain::set_time(&mut app, T0());
        }
        for a in [CREATOR, BUYERS[0], BUYERS[1], STRANGER] {
            chain::mint_coins(&mut app, a, 1_000_000_000_000, NATIVE);
        }
        // open editions: a whitelist of the kind the variant talks to, with its own window
        let mut whitelist: Option<Addr> = None;
        if let (Fam::OpenEdition(i), Some((ws, we))) = (fam, dims.wl) {
            let (ws, we) = (T0() + ws * S, T0() + we * S);
            let (code, msg, fee) = match i {
                0 => (chain::whitelist(),
                      json!({"members": [BUYERS[0]], "start_time": tsj(ws), "end_time": tsj(we), "mint_price": coinv(60),
                             "per_address_limit": 2, "member_limit": 1000, "admins": [CREATOR], "admins_mutable": true}),
                      100_000_000u128),
                1 => (chain::whitelist_flex(),
                      json!({"members": [{"address": BUYERS[0], "mint_count": 2}], "start_time": tsj(ws), "end_time": tsj(we),
                             "mint_price": coinv(60), "member_limit": 1000, "admins": [CREATOR], "admins_mutable": true, "whale_cap": null}),
                      100_000_000),
                _ => (chain::whitelist_merkletree(),
                      json!({"merkle_root": "5ab281bca33c9819e0daa0708d20ddd8a8e5b4de2c1dbaa6f1e0d0fcbb4e1b87", "merkle_tree_uri": null,
                             "start_time": tsj(ws), "end_time": tsj(we), "mint_price": coinv(60), "per_address_limit": 2,
                             "admins": [CREATOR], "admins_mutable": true}),
                      1_000_000_000),
            };
            let code_id = app.store_code(code);
            let a = app
                .instantiate_contract(code_id, Addr::unchecked(CREATOR), &msg, &[coin(fee, NATIVE)], "wl", None)
                .map_err(|e| format!("HARNESS whitelist: {:#}", e))?;
            whitelist = Some(a);
        }
        let end_time = dims.end_after_secs.map(|e| start + e * S);
        let num_tokens: Option<u32> = if dims.unlimited && end_time.is_some() { None } else { Some(10) };
        let minter_code = app.store_code(match fam {
            Fam::OpenEdition(0) => chain::open_edition_minter(),
            Fam::OpenEdition(1) => chain::open_edition_minter_wl_flex(),
            Fam::OpenEdition(_) => chain::open_edition_minter_merkle_wl(),
            Fam::TokenMerge => chain::token_merge_minter(),
            _ => chain::base_minter(),
        });
        let factory_code = app.store_code(match fam {
            Fam::OpenEdition(_) => chain::open_edition_factory(),
            Fam::TokenMerge => chain::token_merge_factory(),
            _ => chain::base_factory(),
        });
        let sg721 = app.store_code(if updatable { chain::sg721_updatable() } else { chain::sg721_base() });
        let factory = app
            .instantiate_contract(
                factory_code,
                Addr::unchecked(CREATOR),
                &Self::factory_params(fam, minter_code, sg721, offset),
                &[],
                "factory",
                None,
            )
            .map_err(|e| format!("HARNESS factory: {:#}", e))?;
        let cp = Self::collection_params(sg721, requested);
        let create = match fam {
            Fam::OpenEdition(_) => json!({"create_minter": {
                "init_msg": {
                    "nft_data": {"nft_data_type": "off_chain_metadata", "extension": null,
                                 "token_uri": "ipfs://bafybeiavall5udkxkdtdm4djezoxrmfc6o5fn2ug3ymrlvibvwmwydgrkm/1.jpg"},
                    "start_time": tsj(start), "end_time": end_time.map(tsj), "mint_price": coinv(100), "per_address_limit": 2,
                    "num_tokens": num_tokens, "payment_address": null, "whitelist": whitelist.as_ref().map(|a| a.to_string())},
                "collection_params": cp}}),
            Fam::TokenMerge => json!({"create_minter": {
                "init_msg": {
                    "base_token_uri": "ipfs://bafybeigi3bwpvyvsmnbj46ra4hyffcxdeaj6ntfk5jpic5mx27x6ih2qvq/images",
                    "start_time": tsj(start), "num_tokens": 10,
                    "mint_tokens": [{"collection": "contract9", "amount": 1}], "per_address_limit": 2},
                "collection_params": cp}}),
            _ => json!({"create_minter": {"init_msg": null, "collection_params": cp}}),
        };
        let r = chain::exec(&mut app, CREATOR, &factory, &create, &[coin(CREATION_FEE, NATIVE)]);
        let mut w = FamWorld { app, fam, factory, minter: Addr::unchecked("none"), collection: Addr::unchecked("none") };
        r.map_err(|e| format!("create: {}", e))?;
        // contract<N> in creation order: [whitelist,] factory, minter, collection
        w.minter = Addr::unchecked(if whitelist.is_some() { "contract2" } else { "contract1" });
        let c = w.config();
        let coll = match fam {
            Fam::Base => c["collection_address"].as_str(),
            _ => c["sg721_address"].as_str(),
        };
        w.collection = Addr::unchecked(coll.ok_or_else(|| "HARNESS: no collection address in the minter config".to_string())?);
        Ok(w)
    }
    fn config(&self) -> Value {
        self.app.wrap().query_wasm_smart::<Value>(self.minter.clone(), &json!({"config": {}})).unwrap_or(Value::Null)
    }
}

// ---------------------------------------------------------------------------------------
// one interface over both worlds
// ---------------------------------------------------------------------------------------
enum W {
    Sale(Box<SaleWorld>),
    Fam(Box<FamWorld>),
}
impl W {
    fn app(&self) -> &App {
        match self {
            W::Sale(w) => &w.app,
            W::Fam(w) => &w.app,
        }
    }
    fn app_mut(&mut self) -> &mut App {
        match self {
            W::Sale(w) => &mut w.app,
            W::Fam(w) => &mut w.app,
        }
    }
    fn minter(&self) -> Addr {
        match self {
            W::Sale(w) => w.minter.clone(),
            W::Fam(w) => w.minter.clone(),
        }
    }
    fn collection(&self) -> Addr {
        match self {
            W::Sale(w) => w.collection.clone(),
            W::Fam(w) => w.collection.clone(),
        }
    }
    fn factory(&self) -> Addr {
        match self {
            W::Sale(w) => w.factory.clone(),
            W::Fam(w) => w.factory.clone(),
        }
    }
    fn now(&self) -> u64 {
        chain::now(self.app())
    }
    fn config(&self) -> Value {
        self.app().wrap().query_wasm_smart::<Value>(self.minter(), &json!({"config": {}})).unwrap()
    }
    fn collection_info(&self) -> Value {
        self.app().wrap().query_wasm_smart::<Value>(self.collection(), &json!({"collection_info": {}})).unwrap()
    }
    /// Config.start_time (the base minter has none: its creation time stands in, only to resolve symbolic times)
    fn start(&self) -> u64 {
        match self.config()["start_time"].as_str() {
            Some(s) => s.parse().unwrap(),
            None => T0(),
        }
    }
    fn offset(&self) -> u64 {
        let p = self.app().wrap().query_wasm_smart::<Value>(self.factory(), &json!({"params": {}})).unwrap();
        p["params"]["max_trading_offset_secs"].as_u64().unwrap()
    }
    /// who the minter treats as admin: Config.admin; base minter: the collection's current creator
    fn admin(&self) -> String {
        match self.config()["admin"].as_str() {
            Some(a) => a.to_string(),
            None => self.collection_info()["creator"].as_str().unwrap().to_string(),
        }
    }
    fn trading(&self) -> Option<u64> {
        self.collection_info()["start_trading_time"].as_str().map(|s| s.parse().unwrap())
    }
    fn digests(&self) -> (String, String) {
        (chain::storage_digest(self.app(), &self.minter()), chain::storage_digest(self.app(), &self.collection()))
    }
}

pub struct CaseResult {
    pub coq: Vec<String>,
    pub steps: u64,
    pub nontrivial: Vec<String>,
    pub violations: Vec<(String, String)>,
    pub hist: BTreeMap<String, u64>,
    pub summary: Value,
}

fn checked_bound(start: u64, offset: u64) -> Option<u64> {
    offset.checked_mul(S).and_then(|x| start.checked_add(x))
}

pub fn run_case(c: &Case) -> CaseResult {
    let mut res = CaseResult { coq: vec![], steps: 0, nontrivial: vec![], violations: vec![], hist: BTreeMap::new(), summary: Value::Null };
    let fam = c.fam;
    let name = fam.name();
    let clock0: u64 = match c.clock {
        Some(d) => (chain::GENESIS_NS as i128 + d as i128) as u64,
        None => T0_DEFAULT,
    };
    T0_CELL.with(|x| x.set(clock0));
    let coll_kind = if c.updatable { "sg721-updatable" } else { "sg721-base" };
    let start0 = T0() + c.start_in_secs * S;
    let offset0 = resolve_off(c.offset, start0);
    let dims = c.dims;
    let is_oe = matches!(fam, Fam::OpenEdition(_));
    let end0: Option<u64> = if is_oe { dims.end_after_secs.map(|e| start0 + e * S) } else { None };
    let wl0: Option<(u64, u64)> = if is_oe || matches!(fam, Fam::Vending(_)) { dims.wl.map(|(a, b)| (T0() + a * S, T0() + b * S)) } else { None };
    // the ledger (the base minter has no mint start: its creation time stands in, only to resolve symbolic times)
    let mut led = Ctx {
        now: T0(),
        start: if fam.bounded() { start0 } else { T0() },
        offset: offset0,
        orig_start: if fam.bounded() { start0 } else { T0() },
        orig_offset: offset0,
        prev_offset: offset0,
        end: end0,
        orig_end: end0,
        wl: wl0,
    };
    let Some(requested) = resolve(c.requested, &Ctx { start: start0, orig_start: start0, ..led }) else {
        return res; // the world has no such anchor
    };
    let mut viol = |res: &mut CaseResult, key: &str, what: String| {
        res.violations.push((format!("C19:{}", key), format!("{} / {}: {}", name, coll_kind, what)));
    };

    // ---------------- creation ----------------
    let created: Result<W, String> = match fam {
        Fam::Vending(i) => {
            let mut cfg = SaleCfg::basic(i);
            cfg.updatable_collection = c.updatable;
            cfg.start_in_secs = c.start_in_secs;
            cfg.fp.offset_secs = offset0;
            cfg.start_trading = requested;
            cfg.clock = c.clock.map(|_| clock0);
            if let Some(win) = dims.wl {
                cfg.wl = if VARIANTS[i].flex { w_sale::WlKind::Flex } else { w_sale::WlKind::Plain };
                cfg.wl_windows = vec![win];
            }
            SaleWorld::new(cfg).map(|w| W::Sale(Box::new(w)))
        }
        _ => FamWorld::new(fam, c.updatable, start0, offset0, requested, &dims).map(|w| W::Fam(Box::new(w))),
    };
    res.steps += 1;
    let create_ok = created.is_ok();
    *res.hist.entry(format!("{}:create:{}", name, if create_ok { "ok" } else { "err" })).or_insert(0) += 1;
    // what the property promises about creation (checked u64 arithmetic, documented 10^9)
    let base_for_default = if fam.bounded() { start0 } else { T0() };
    let default = checked_bound(base_for_default, offset0);
    let stored: Option<Option<u64>> = created.as_ref().ok().map(|w| w.trading());
    match (&created, requested) {
        (Err(e), _) if e.starts_with("HARNESS") => {
            viol(&mut res, "harness-setup", e.clone());
        }
        (Ok(_), Some(x)) => {
            if stored != Some(Some(x)) {
                viol(&mut res, "create-stored-differs", format!("requested {} at creation, collection shows {:?}", x, stored));
            }
            if fam.bounded() {
                // (when start + offset*10^9 leaves u64 every u64 time is below the bound: the sentence holds;
                // the code panics there and the model says Err: that is the correspondence's business)
                match default {
                    Some(b) if x > b => viol(&mut res, "create-past-bound", format!("created with trading time {} > mint start {} + offset {} s = {}", x, start0, offset0, b)),
                    _ => {}
                }
            }
        }
        (Ok(_), None) => match default {
            None => viol(&mut res, "create-default-overflow", format!("created without a trading time although {} + {} s leaves u64; collection shows {:?}", base_for_default, offset0, stored)),
            Some(d) => {
                if stored != Some(Some(d)) {
                    viol(&mut res, "create-default", format!("no trading time given: expected exactly {} + {} s = {}, collection shows {:?}", base_for_default, offset0, d, stored));
                }
            }
        },
        (Err(e), r) => {
            // exactness of the bound: a creation the property allows must not be refused
            let allowed = match (fam.bounded(), r) {
                (true, Some(x)) => default.map(|b| x <= b).unwrap_or(false),
                (true, None) => default.is_some(),
                (false, Some(_)) => true,
                (false, None) => default.is_some(),
            };
            // vending / token-merge minters refuse a mint start before the genesis mint time: not a trading-time refusal
            let start_before_genesis = matches!(fam, Fam::Vending(_) | Fam::TokenMerge) && start0 < chain::GENESIS_NS;
            if allowed && !start_before_genesis {
                let tail: String = e.chars().rev().take(160).collect::<Vec<_>>().into_iter().rev().collect();
                viol(&mut res, "valid-creation-rejected", format!("creation with start {}, offset {} s, requested {:?} was refused: ...{}", start0, offset0, r, tail));
            }
        }
    }
    let stored_coq = match &stored {
        Some(v) => format!("(Ok {})", coq_opt_n(*v)),
        None => "Err".to_string(),
    };
    // (a vending / token-merge creation with a mint start before genesis is refused for that reason: the refusal
    // is recorded in the histogram, the trading-time rule has nothing to say about it)
    if !(matches!(fam, Fam::Vending(_) | Fam::TokenMerge) && start0 < chain::GENESIS_NS) {
        res.coq.push(format!("(KCreate {} {} {} {} {} {})", fam.coq(), T0(), start0, offset0, coq_opt_n(requested), stored_coq));
    }
    res.nontrivial.push(format!("{}|{}|create|{}|{}|{:?}|{:?}|{:?}", name, coll_kind, clock0, offset0, c.requested, dims, create_ok));
    let mut w = match created {
        Ok(w) => w,
        Err(_) => {
            res.summary = json!({"family": name, "collection": coll_kind, "creation": "rejected", "clock": clock0, "offset": offset0, "requested": format!("{:?}", c.requested)});
            return res;
        }
    };

    // ---------------- history ----------------
    let (sale_init, sale_bal) = match &mut w {
        W::Sale(sw) => (sw.init_state_coq(), sw.balances_coq()),
        _ => (String::new(), String::new()),
    };
    let mut sale_steps: Vec<String> = vec![];
    // the value the property says must be visible: creation value, then the argument of the last accepted update
    let mut expected: Option<u64> = w.trading();
    let mut ok_updates = 0u64;
    // identical requests in an identical state are run once: (epoch, sender, time, funds); the epoch
    // advances with every other operation and every accepted update
    let mut seen: BTreeSet<(u64, String, Option<u64>, u128)> = BTreeSet::new();
    let mut epoch = 0u64;
    for op in &c.ops {
        let now = w.now();
        led.now = now;
        // what the handler reads (for the model) ...
        let cstart = w.start();
        let coffset = w.offset();
        // ... and what the property speaks about (for the monitors and the symbolic times)
        let start = led.start;
        let offset = led.offset;
        if !matches!(op, Cop::Trading { .. }) {
            epoch += 1;
        }
        let admin = w.admin();
        let before = w.trading();
        let dig = w.digests();
        let mut count = |res: &mut CaseResult, kind: &str, ok: bool| {
            res.steps += 1;
            *res.hist.entry(format!("{}:{}:{}", name, kind, if ok { "ok" } else { "err" })).or_insert(0) += 1;
        };
        match op {
            Cop::At { secs, nanos } => {
                let t = ((T0() + secs * S) as i128 + *nanos as i128) as u64;
                if t > now {
                    match &mut w {
                        W::Sale(sw) => {
                            sw.run(&Op::At { secs: *secs, nanos: *nanos });
                        }
                        W::Fam(fw) => chain::set_time(&mut fw.app, t),
                    }
                }
            }
            Cop::Offset { offset } => {
                let o = resolve_off(*offset, start);
                let r = match &mut w {
                    W::Sale(sw) => {
                        let out = sw.run(&Op::SudoParams { min_price: None, mint_fee_bps: None, airdrop_price: None, airdrop_fee_bps: None, offset: Some(o), max_pal: None, shuffle_fee: None });
                        out.ok
                    }
                    W::Fam(fw) => {
                        let ext = match fam {
                            Fam::OpenEdition(_) => json!({"max_token_limit": null, "max_per_address_limit": null, "min_mint_price": null,
                                                          "airdrop_mint_fee_bps": null, "airdrop_mint_price": null, "dev_fee_address": null}),
                            Fam::TokenMerge => json!({"max_token_limit": null, "max_per_address_limit": null, "airdrop_mint_price": null,
                                                      "airdrop_mint_fee_bps": null, "shuffle_fee": null}),
                            _ => Value::Null,
                        };
                        let msg = match fam {
                            Fam::TokenMerge => json!({"update_params": {"code_id": null, "add_sg721_code_ids": null, "rm_sg721_code_ids": null,
                                "frozen": null, "creation_fee": null, "max_trading_offset_secs": o, "extension": ext}}),
                            _ => json!({"update_params": {"code_id": null, "add_sg721_code_ids": null, "rm_sg721_code_ids": null,
                                "frozen": null, "creation_fee": null, "min_mint_price": null, "mint_fee_bps": null,
                                "max_trading_offset_secs": o, "extension": ext}}),
                        };
                        let f = fw.factory.clone();
                        chain::sudo(&mut fw.app, &f, &msg).is_ok()
                    }
                };
                count(&mut res, "sudo_offset", r);
                if r {
                    led.prev_offset = led.offset;
                    led.offset = o;
                } else {
                    viol(&mut res, "harness-setup", format!("sudo offset {} refused", o));
                }
            }
            Cop::StartTime { who, t } => {
                if let Some(Some(tt)) = resolve(*t, &led) {
                    let ok = match &mut w {
                        W::Sale(sw) => {
                            let (secs, nanos) = rel(tt);
                            let out = sw.run(&Op::UpdateStartTime { who: who.clone(), secs, nanos });
                            if let Some(s) = out.coq {
                                sale_steps.push(s);
                            }
                            out.ok
                        }
                        W::Fam(fw) => {
                            if fam == Fam::Base {
                                false
                            } else {
                                let m = fw.minter.clone();
                                chain::exec(&mut fw.app, who, &m, &json!({"update_start_time": tsj(tt)}), &[]).is_ok()
                            }
                        }
                    };
                    if fam != Fam::Base {
                        count(&mut res, "update_start_time", ok);
                        if ok {
                            led.start = tt;
                        }
                    }
                }
            }
            Cop::EndTime { who, t } => {
                if let (true, Some(Some(tt)), W::Fam(fw)) = (is_oe, resolve(*t, &led), &mut w) {
                    let m = fw.minter.clone();
                    let ok = chain::exec(&mut fw.app, who, &m, &json!({"update_end_time": tsj(tt)}), &[]).is_ok();
                    count(&mut res, "update_end_time", ok);
                    if ok {
                        led.end = Some(tt);
                    }
                }
            }
            Cop::Migrate { who, stored } => match &mut w {
                W::Sale(sw) => {
                    let out = sw.run(&Op::Migrate { who: who.clone(), stored: stored.clone() });
                    if let Some(s) = out.coq {
                        sale_steps.push(s);
                    }
                    count(&mut res, "migrate", out.ok);
                }
                W::Fam(fw) => {
                    if matches!(fam, Fam::OpenEdition(_)) {
                        let m = fw.minter.clone();
                        let own = crate::w_migrate::get_cw2(&fw.app, &m);
                        if let Some((n, v)) = stored {
                            let n = if n == "@own" { own.0.clone() } else { n.clone() };
                            let v = if v == "@own" { own.1.clone() } else { v.clone() };
                            crate::w_migrate::set_cw2(&mut fw.app, &m, &n, &v);
                        }
                        let f = fw.factory.clone();
                        let code_id = fw.app.wrap().query_wasm_smart::<Value>(f, &json!({"params": {}})).ok().and_then(|p| p["params"]["code_id"].as_u64());
                        if let Some(code_id) = code_id {
                            let sender = cosmwasm_std::Addr::unchecked(who.clone());
                            let app = &mut fw.app;
                            let ok = matches!(crate::util::catch(|| cw_multi_test::Executor::migrate_contract(app, sender, m.clone(), &json!({}), code_id)), Ok(Ok(_)));
                            count(&mut res, "migrate", ok);
                        }
                    }
                }
            },
            Cop::NewCreator { who, to } => {
                let msg = json!({"update_collection_info": {"collection_info": {"description": null, "image": null,
                    "external_link": null, "explicit_content": null, "royalty_info": null, "creator": to}}});
                let coll = w.collection();
                let ok = chain::exec(w.app_mut(), who, &coll, &msg, &[]).is_ok();
                count(&mut res, "new_creator", ok);
            }
            Cop::Direct { who, t } => {
                let Some(tt) = resolve(*t, &led) else { continue };
                let coll = w.collection();
                let msg = json!({"update_start_trading_time": tt.map(tsj)});
                // "@minter": the call is made in the minter contract's name (cannot happen on a chain; it
                // exercises the accepting branch of the collection's rule in isolation)
                let who: &String = &(if who == "@minter" { w.minter().to_string() } else { who.clone() });
                let r = chain::exec(w.app_mut(), who, &coll, &msg, &[]);
                let ok = r.is_ok();
                count(&mut res, "direct_on_collection", ok);
                let after = w.trading();
                let is_minter = *who == w.minter().to_string();
                if is_minter {
                    if !ok || after != tt {
                        viol(&mut res, "collection-refuses-minter", format!("UpdateStartTradingTime({:?}) in the minter's name: ok={} collection shows {:?}", tt, ok, after));
                    }
                    expected = after;
                }
                if ok && !is_minter {
                    viol(&mut res, "collection-accepts-non-minter", format!("UpdateStartTradingTime({:?}) sent to the collection by {} (not its minter) was accepted", tt, who));
                    expected = after; // keep looking for independent violations
                }
                if !ok && (after != before || w.digests() != dig) {
                    viol(&mut res, "failed-call-changed-state", format!("rejected direct call by {} changed the collection ({:?} -> {:?})", who, before, after));
                }
                res.coq.push(format!("(KDirect {} {} {} {} {})", coq_bool(is_minter), coq_opt_n(tt), coq_opt_n(before), coq_bool(ok), coq_opt_n(after)));
                res.nontrivial.push(format!("{}|{}|direct|{}|{:?}", name, coll_kind, who, t));
            }
            Cop::Trading { who, t, funds } => {
                let Some(tt) = resolve(*t, &led) else { continue };
                if !seen.insert((epoch, who.clone(), tt, *funds)) {
                    continue;
                }
                let through_sale_world = matches!(w, W::Sale(_)) && *funds == 0;
                let ok = if through_sale_world {
                    let W::Sale(sw) = &mut w else { unreachable!() };
                    let out = sw.run(&Op::UpdateStartTradingTime { who: who.clone(), t: tt.map(rel) });
                    if let Some(e) = &out.err {
                        if e.starts_with("STATE-CHANGED-ON-FAILURE") {
                            viol(&mut res, "failed-call-changed-state", format!("{:?}: {}", op, e));
                        }
                    }
                    if let Some(s) = out.coq {
                        sale_steps.push(s);
                    }
                    out.ok
                } else {
                    // (the sale world's op language attaches no funds: a funded call goes straight to the minter)
                    let m = w.minter();
                    let f = if *funds > 0 { vec![coin(*funds, NATIVE)] } else { vec![] };
                    chain::exec(w.app_mut(), who, &m, &json!({"update_start_trading_time": tt.map(tsj)}), &f).is_ok()
                };
                count(&mut res, "update_start_trading_time", ok);
                let after = w.trading();
                let bound = checked_bound(start, offset);
                if ok {
                    ok_updates += 1;
                    epoch += 1;
                    if *who != admin {
                        viol(&mut res, "update-by-non-admin", format!("{} (admin is {}) set the trading time to {:?}", who, admin, tt));
                    }
                    if let Some(x) = tt {
                        if x < now {
                            viol(&mut res, "update-in-the-past", format!("trading time {} accepted at clock {} ({} ns earlier)", x, now, now - x));
                        }
                        if fam.bounded() {
                            match bound {
                                Some(b) if x > b => viol(&mut res, "update-past-bound", format!("trading time {} accepted; mint start {} (as last accepted) + offset {} s (as governance last set it) = {} ({} ns earlier)", x, start, offset, b, x - b)),
                                _ => {}
                            }
                        }
                    }
                    if after != tt {
                        viol(&mut res, "update-not-applied", format!("accepted update to {:?}, collection shows {:?}", tt, after));
                    }
                    expected = tt;
                } else {
                    if after != before || w.digests() != dig {
                        viol(&mut res, "failed-call-changed-state", format!("rejected {:?} changed state ({:?} -> {:?})", op, before, after));
                    }
                    // exactness of the bound: admin, no funds, now <= t <= start + offset*10^9 must be accepted
                    let allowed = *who == admin
                        && *funds == 0
                        && match (fam.bounded(), tt) {
                            (true, Some(x)) => now <= x && bound.map(|b| x <= b).unwrap_or(false),
                            (true, None) => bound.is_some(),
                            (false, Some(x)) => now <= x,
                            (false, None) => true,
                        };
                    if allowed {
                        viol(&mut res, "valid-request-rejected", format!("admin request {:?} at clock {} with mint start {} and offset {} s was refused", tt, now, start, offset));
                    }
                }
                if !matches!(fam, Fam::Vending(_)) {
                    res.coq.push(format!(
                        "(KUpdate {} {} {} {} {} {} {} {} {} {})",
                        fam.coq(), now, if fam.bounded() { cstart } else { 0 }, coffset, coq_bool(*who == admin), coq_bool(*funds == 0),
                        coq_opt_n(tt), coq_opt_n(before), coq_bool(ok), coq_opt_n(after)
                    ));
                }
                if *funds == 0 {
                    res.nontrivial.push(format!("{}|{}|update|{}|{:?}|{}|{}|{}|{}", name, coll_kind, who, t, now, start, offset, ok));
                }
            }
        }
        // whatever happened: the collection shows the creation value or the last accepted update
        let vis = w.trading();
        if vis != expected {
            viol(&mut res, "visible-value-not-validated", format!("after {:?} the collection shows {:?}; the last value the minter accepted is {:?}", op, vis, expected));
            expected = vis;
        }
        if res.violations.len() > 6 {
            break;
        }
    }
    if let W::Sale(sw) = &mut w {
        let sc = w_sale::case_coq(sw, &sale_init, &sale_bal, &sale_steps);
        res.coq.push(format!("(KSale {})", sc));
    }
    res.summary = json!({"family": name, "collection": coll_kind, "dims": format!("{:?}", dims), "offset": offset0, "requested": format!("{:?}", c.requested),
        "ops": c.ops.len(), "accepted_updates": ok_updates, "first_ops": c.ops.iter().take(6).map(|o| format!("{:?}", o)).collect::<Vec<_>>()});
    res
}

// ---------------------------------------------------------------------------------------
// cases
// ---------------------------------------------------------------------------------------
fn trading(who: &str, t: T) -> Cop {
    Cop::Trading { who: who.into(), t, funds: 0 }
}

/// creation probes: every guard of the creation rule at -1/0/+1, under every offset class
fn creation_probes(fam: Fam, updatable: bool) -> Vec<Case> {
    let mut v = vec![];
    let mut add = |offset: Off, requested: T, ops: Vec<Cop>| {
        v.push(Case { fam, updatable, start_in_secs: 3000, offset, requested, ops, dims: Dims::default(), clock: None });
    };
    let tail = || vec![trading(CREATOR, T::Bound(0)), trading(CREATOR, T::Bound(1))];
    if updatable {
        add(Off::Abs(WEEK), T::None, tail());
        add(Off::Abs(WEEK), T::Bound(0), vec![]);
        add(Off::Abs(WEEK), T::Bound(1), vec![]);
        add(Off::MaxOk(1), T::None, vec![]);
        return v;
    }
    for r in [T::None, T::Now(-1), T::Now(0), T::Start(0), T::Bound(-1), T::Bound(0), T::Bound(1), T::Abs(u64::MAX), T::Abs(0)] {
        add(Off::Abs(WEEK), r, if r == T::None { tail() } else { vec![] });
    }
    for r in [T::None, T::Bound(0), T::Bound(1)] {
        add(Off::Abs(0), r, vec![]);
    }
    for r in [T::None, T::Bound(0), T::Abs(u64::MAX)] {
        add(Off::MaxOk(0), r, vec![]);
    }
    for r in [T::None, T::Start(0)] {
        add(Off::MaxOk(1), r, vec![]);
    }
    for r in [T::None, T::Now(0)] {
        add(Off::Abs(MUL_OVERFLOW), r, vec![]);
    }
    add(Off::Abs(MUL_OVERFLOW - 1), T::None, vec![]);
    add(Off::Abs(u64::MAX), T::None, vec![]);
    v
}

/// creations while the chain clock is before / just before / at the genesis mint time, with the
/// trading time omitted and given at genesis + offset, clock + offset and mint start + offset (+0 / +1 ns)
fn clock_creations(fam: Fam) -> Vec<Case> {
    let mut v = vec![];
    let a = |anchor: Anchor, d: i64| T::A { anchor, off: OffSel::Cur, d };
    for clock in [-(1000 * S as i64), -1, 0] {
        for requested in [T::None, a(Anchor::Genesis, 0), a(Anchor::Genesis, 1), a(Anchor::Creation, 0), a(Anchor::Creation, 1),
                          a(Anchor::Start, 0), a(Anchor::Start, 1)] {
            v.push(Case { fam, updatable: false, start_in_secs: 3000, offset: Off::Abs(WEEK), requested,
                          ops: vec![trading(CREATOR, T::Bound(0)), trading(CREATOR, T::Now(-1))], dims: Dims::default(), clock: Some(clock) });
        }
    }
    // the mint start itself before genesis: vending and token-merge refuse the creation, the others do not
    for requested in [T::None, a(Anchor::Start, 0)] {
        v.push(Case { fam, updatable: false, start_in_secs: 500, offset: Off::Abs(WEEK), requested, ops: vec![], dims: Dims::default(),
                      clock: Some(-(1000 * S as i64)) });
    }
    v
}

/// the guard-boundary history: every guard of the update rule at -1/0/+1 for admin, with
/// the other senders, after start moves and offset changes, before and after the mint start
fn probe_history(fam: Fam, updatable: bool) -> Case {
    let a = CREATOR;
    let mut ops = vec![
        Cop::At { secs: 10, nanos: 0 },
        trading(a, T::Now(-1)),
        trading(a, T::Now(0)),
        trading(a, T::Bound(1)),
        trading(a, T::Bound(0)),
        trading(BUYERS[0], T::Now(5)),
        trading(STRANGER, T::Bound(0)),
        Cop::Trading { who: a.into(), t: T::Now(0), funds: 1 },
        Cop::Direct { who: a.into(), t: T::Now(7) },
        Cop::Direct { who: STRANGER.into(), t: T::None },
        Cop::Direct { who: BUYERS[0].into(), t: T::Bound(0) },
        trading(a, T::None),
        trading(STRANGER, T::None),
        trading(a, T::Bound(-1)),
        // mint start 1000 s later: the old bound + 1 ns is now fine, the new bound is exact
        Cop::StartTime { who: a.into(), t: T::Start(1000 * S as i64) },
        trading(a, T::Bound(-(1000 * S as i64) + 1)),
        trading(a, T::Bound(1)),
        trading(a, T::Bound(0)),
        // mint start 2000 s earlier: the value just accepted would no longer be
        Cop::StartTime { who: a.into(), t: T::Start(-(2000 * S as i64)) },
        trading(a, T::Bound(2000 * S as i64)),
        trading(a, T::Bound(1)),
        trading(a, T::Bound(0)),
        // governance shrinks the offset to one hour
        Cop::Offset { offset: Off::Abs(3600) },
        trading(a, T::Bound((WEEK - 3600) as i64 * S as i64)),
        trading(a, T::Bound(1)),
        trading(a, T::Bound(0)),
        // ... grows it to 30 days
        Cop::Offset { offset: Off::Abs(30 * 24 * 3600) },
        trading(a, T::Bound(0)),
        trading(a, T::Bound(1)),
        // ... to zero: bound = mint start
        Cop::Offset { offset: Off::Abs(0) },
        trading(a, T::Start(1)),
        trading(a, T::Start(0)),
        trading(a, T::Now(0)),
        // offsets whose product / sum leaves u64: nothing is accepted, not even None
        Cop::Offset { offset: Off::Abs(MUL_OVERFLOW) },
        trading(a, T::None),
        trading(a, T::Now(0)),
        Cop::Offset { offset: Off::Abs(u64::MAX) },
        trading(a, T::Now(1)),
        Cop::Offset { offset: Off::MaxOk(1) },
        trading(a, T::None),
        trading(a, T::Start(0)),
        // the largest offset that fits
        Cop::Offset { offset: Off::MaxOk(0) },
        trading(a, T::Abs(u64::MAX)),
        trading(a, T::Bound(0)),
        trading(a, T::None),
        Cop::Offset { offset: Off::Abs(MUL_OVERFLOW - 1) },
        trading(a, T::Now(0)),
        Cop::Offset { offset: Off::Abs(WEEK) },
        // a new collection creator: admin of the base minter, nobody for the others
        Cop::NewCreator { who: a.into(), to: BUYERS[1].into() },
        trading(BUYERS[1], T::Now(3)),
        trading(a, T::Now(4)),
        Cop::NewCreator { who: BUYERS[1].into(), to: a.into() },
        // after the mint start the bound does not move with the clock
        Cop::At { secs: 5000, nanos: 0 },
        trading(a, T::NowPlusOffset(0)),
        trading(a, T::Bound(1)),
        trading(a, T::Bound(0)),
        trading(a, T::Now(-1)),
        trading(a, T::Now(0)),
        Cop::StartTime { who: a.into(), t: T::Now(100) },
        // one minute of offset, clock past the bound: no time is acceptable any more, None still is
        Cop::Offset { offset: Off::Abs(60) },
        Cop::At { secs: 5000, nanos: 1 },
        trading(a, T::Bound(0)),
        Cop::At { secs: 9000, nanos: 0 },
        trading(a, T::Now(0)),
        trading(a, T::Bound(0)),
        trading(a, T::None),
        Cop::Direct { who: a.into(), t: T::Now(0) },
    ];
    if !matches!(fam, Fam::Vending(_)) {
        ops.push(Cop::Direct { who: "@minter".into(), t: T::Now(9) });
        ops.push(Cop::Direct { who: "@minter".into(), t: T::None });
        ops.push(trading(a, T::None));
    }
    if matches!(fam, Fam::Vending(_) | Fam::OpenEdition(_)) {
        // migrations of the minter inside the history: after an accepted update, after a start move, at the end
        let mig = |who: &str, stored: Option<(&str, &str)>| Cop::Migrate { who: who.into(), stored: stored.map(|(x, y)| (x.to_string(), y.to_string())) };
        ops.insert(5, mig(a, Some(("@own", "3.8.9"))));
        ops.insert(15, mig(STRANGER, Some(("@own", "3.0.0"))));
        ops.insert(16, mig(a, None));
        ops.insert(32, mig(a, Some(("@own", "3.9.0"))));
        ops.push(mig(a, Some(("@own", "2.0.0"))));
        ops.push(mig(a, Some(("@own", "99.0.0"))));
        ops.push(trading(a, T::None));
    }
    if updatable {
        // keep the second collection type cheaper: drop the overflow block
        ops.retain(|o| !matches!(o, Cop::Offset { offset: Off::Abs(MUL_OVERFLOW) } | Cop::Offset { offset: Off::Abs(u64::MAX) }));
    }
    Case { fam, updatable, start_in_secs: 3000, offset: Off::Abs(WEEK), requested: T::Bound(0), ops, dims: Dims::default(), clock: None }
}

const DAY: u64 = 24 * 3600;
/// the configuration dimensions a bound could be wrongly anchored at, per family
fn dim_configs(fam: Fam) -> Vec<Dims> {
    let wl = Some((1000u64, 2000u64));
    // a whitelist window that lies AFTER the mint start (start_in_secs = 3000): an anchor later than the right one
    let wl_late = Some((5000u64, 9000u64));
    match fam {
        Fam::OpenEdition(_) => vec![
            Dims { end_after_secs: None, unlimited: false, wl: None },
            Dims { end_after_secs: Some(600), unlimited: false, wl: None },
            Dims { end_after_secs: Some(600), unlimited: true, wl },
            Dims { end_after_secs: Some(30 * DAY), unlimited: false, wl: wl_late },
            Dims { end_after_secs: Some(30 * DAY), unlimited: true, wl: None },
        ],
        Fam::Vending(_) => vec![
            Dims::default(),
            Dims { end_after_secs: None, unlimited: false, wl },
            Dims { end_after_secs: None, unlimited: false, wl: wl_late },
        ],
        _ => vec![Dims::default()],
    }
}

/// creation with the requested trading time at every candidate anchor + offset, +0 and +1 ns
fn anchor_creations(fam: Fam, dims: Dims) -> Vec<Case> {
    let mut v = vec![];
    for anchor in [Anchor::Creation, Anchor::Start, Anchor::End, Anchor::WlStart, Anchor::WlEnd, Anchor::Genesis] {
        for d in [0i64, 1] {
            v.push(Case { fam, updatable: false, start_in_secs: 3000, offset: Off::Abs(WEEK), requested: T::A { anchor, off: OffSel::Cur, d },
                          ops: vec![], dims, clock: None });
        }
    }
    v
}

/// updates at every candidate anchor + {current, original, previous} offset, +0 and +1 ns: with everything
/// as created, after governance lowered the offset and the admin moved the mint start earlier (and the end
/// time later), after governance raised the offset and the start moved later, and after the mint start
fn anchor_history(fam: Fam, dims: Dims) -> Case {
    let a = CREATOR;
    let mut ops = vec![Cop::At { secs: 10, nanos: 0 }];
    let mut sweep = |ops: &mut Vec<Cop>, anchors: &[Anchor], offs: &[OffSel]| {
        for anchor in anchors {
            for off in offs {
                for d in [0i64, 1] {
                    ops.push(trading(a, T::A { anchor: *anchor, off: *off, d }));
                }
            }
        }
    };
    sweep(&mut ops, &ANCHORS, &[OffSel::Cur]);
    ops.push(Cop::Offset { offset: Off::Abs(3 * DAY) });
    ops.push(Cop::StartTime { who: a.into(), t: T::Start(-(500 * S as i64)) });
    ops.push(Cop::EndTime { who: a.into(), t: T::A { anchor: Anchor::End, off: OffSel::Cur, d: -((3 * DAY - 3000) as i64 * S as i64) } });
    sweep(&mut ops, &ANCHORS, &[OffSel::Cur, OffSel::Orig]);
    ops.push(Cop::Offset { offset: Off::Abs(10 * DAY) });
    ops.push(Cop::StartTime { who: a.into(), t: T::Start(2000 * S as i64) });
    sweep(&mut ops, &ANCHORS, &[OffSel::Cur, OffSel::Orig, OffSel::Prev]);
    ops.push(Cop::At { secs: 8000, nanos: 0 });
    sweep(&mut ops, &[Anchor::Now, Anchor::Start, Anchor::OrigStart, Anchor::End, Anchor::OrigEnd, Anchor::Creation], &[OffSel::Cur, OffSel::Orig]);
    Case { fam, updatable: false, start_in_secs: 3000, offset: Off::Abs(WEEK), requested: T::Bound(0), ops, dims, clock: None }
}

fn gen_case(rng: &mut Rng, fam: Fam, lits: &[u64], thorough: bool) -> Case {
    let deltas: [i64; 9] = [-1, 0, 1, -(S as i64), S as i64, 2, -2, 1000 * S as i64, -(1000 * S as i64)];
    let pick_t = |rng: &mut Rng| -> T {
        let d = *rng.pick(&deltas);
        match rng.below(12) {
            0 => T::None,
            1..=3 => T::Now(d),
            4..=7 => T::Bound(d),
            8 => T::Start(d),
            9 => T::NowPlusOffset(d),
            10 => {
                if rng.chance(1, 2) {
                    T::Abs(*rng.pick(&[0u64, 1, T0(), u64::MAX, u64::MAX - 1, chain::GENESIS_NS]))
                } else {
                    T::A { anchor: *rng.pick(&ANCHORS), off: *rng.pick(&[OffSel::Cur, OffSel::Orig, OffSel::Prev]), d: *rng.pick(&[-1i64, 0, 1]) }
                }
            }
            _ => T::Now(rng.below(40 * 24 * 3600) as i64 * S as i64),
        }
    };
    let pick_off = |rng: &mut Rng| -> Off {
        match rng.below(10) {
            0 => Off::Abs(0),
            1 => Off::Abs(1),
            2 => Off::MaxOk(*rng.pick(&[-1i64, 0, 1])),
            3 => Off::Abs(*rng.pick(&[MUL_OVERFLOW - 1, MUL_OVERFLOW, u64::MAX])),
            4 => Off::Abs(*rng.pick(lits)),
            5 => Off::Abs(rng.below(100 * 24 * 3600)),
            _ => Off::Abs(*rng.pick(&[60u64, 3600, WEEK, WEEK - 1, WEEK + 1, 30 * 24 * 3600])),
        }
    };
    let start_in_secs = *rng.pick(&[1u64, 100, 3000, 100_000]);
    let mut ops = vec![];
    let mut clock = 0u64;
    let len = if thorough { rng.range(25, 60) } else { rng.range(15, 30) };
    for _ in 0..len {
        if rng.chance(1, 4) {
            clock += *rng.pick(&[1u64, 50, 2000, 90_000, 700_000]);
            ops.push(Cop::At { secs: clock, nanos: rng.below(3) as i64 });
        }
        let who = if rng.chance(3, 4) { CREATOR } else { *rng.pick(&[BUYERS[0], BUYERS[1], STRANGER]) };
        let op = match rng.below(100) {
            0..=59 => Cop::Trading { who: who.into(), t: pick_t(rng), funds: if rng.chance(1, 25) { 1 } else { 0 } },
            60..=71 => Cop::StartTime {
                who: who.into(),
                t: match rng.below(3) {
                    0 => T::Now(rng.below(5000) as i64 * S as i64),
                    1 => T::Start(*rng.pick(&deltas)),
                    _ => T::Start(rng.below(100_000) as i64 * S as i64),
                },
            },
            72..=86 => Cop::Offset { offset: pick_off(rng) },
            87..=96 => Cop::Direct { who: (*rng.pick(&[CREATOR, BUYERS[0], STRANGER])).into(), t: pick_t(rng) },
            _ => {
                if rng.chance(1, 2) {
                    Cop::NewCreator { who: CREATOR.into(), to: BUYERS[1].into() }
                } else {
                    Cop::NewCreator { who: BUYERS[1].into(), to: CREATOR.into() }
                }
            }
        };
        ops.push(op);
    }
    let requested = match rng.below(4) {
        0 => T::None,
        1 => T::Bound(0),
        _ => pick_t(rng),
    };
    let offset = if rng.chance(2, 3) { Off::Abs(WEEK) } else { pick_off(rng) };
    // migrations of the minter at random places (~3 % of the operations)
    if matches!(fam, Fam::Vending(_) | Fam::OpenEdition(_)) {
        let pool = crate::w_sale::migrate_version_pool();
        let mut i = 0;
        while i <= ops.len() {
            if rng.below(1000) < 30 {
                let (who, stored) = crate::w_sale::gen_migrate_args(rng, &pool);
                ops.insert(i, Cop::Migrate { who, stored });
                i += 1;
            }
            i += 1;
        }
    }
    let cfgs = dim_configs(fam);
    let dims = *rng.pick(&cfgs);
    if dims.end_after_secs.is_some() {
        let at = rng.below(ops.len() as u64 + 1) as usize;
        ops.insert(at, Cop::EndTime { who: CREATOR.into(), t: T::A { anchor: Anchor::End, off: OffSel::Cur, d: (rng.below(20 * DAY) as i64 - (WEEK as i64)) * S as i64 } });
    }
    Case { fam, updatable: rng.chance(1, 3), start_in_secs, offset, requested, ops, dims, clock: None }
}

pub fn run(a: &Args) {
    let out = OutDir::new(&a.out);
    let mut rep = Report { property: "C19".into(), tier: a.tier.clone(), seed: a.seed, ..Default::default() };
    let cases: Vec<Case> = if let Some(p) = &a.replay {
        #[derive(Deserialize)]
        struct ReplayFile {
            case: Case,
        }
        let rf: ReplayFile = serde_json::from_str(&std::fs::read_to_string(p).expect("replay file")).expect("replay json");
        vec![rf.case]
    } else {
        let mut rng = Rng::new(a.seed);
        let lits: Vec<u64> = harvest_literals(&[
            "contracts/minters/vending-minter/src/contract.rs",
            "contracts/minters/open-edition-minter/src/contract.rs",
            "contracts/minters/token-merge-minter/src/contract.rs",
            "contracts/minters/base-minter/src/contract.rs",
            "contracts/collections/sg721-base/src/contract.rs",
        ])
        .into_iter()
        .flat_map(|x| [x.saturating_sub(1), x, x + 1])
        .filter(|x| *x <= u64::MAX as u128)
        .map(|x| x as u64)
        .collect();
        let mut v = vec![];
        for fam in Fam::all() {
            for updatable in [false, true] {
                v.push(probe_history(fam, updatable));
                v.extend(creation_probes(fam, updatable));
            }
            v.extend(clock_creations(fam));
            for dims in dim_configs(fam) {
                v.push(anchor_history(fam, dims));
                v.extend(anchor_creations(fam, dims));
            }
        }
        let per_fam = if a.thorough() { 40 } else { 3 };
        for fam in Fam::all() {
            for _ in 0..per_fam {
                v.push(gen_case(&mut rng, fam, &lits, a.thorough()));
            }
        }
        v
    };
    let mut coq_cases = vec![];
    let mut nviol = 0;
    let mut distinct = BTreeSet::new();
    for (i, c) in cases.iter().enumerate() {
        let r = run_case(c);
        rep.evaluations += r.steps;
        for (k, v) in &r.hist {
            *rep.histogram.entry(k.clone()).or_insert(0) += v;
        }
        for k in r.nontrivial {
            distinct.insert(k);
        }
        // violations of the safety sentences first, refusals of allowed requests (exactness of the bound) after
        let mut vs = r.violations.clone();
        vs.sort_by_key(|(k, _)| k.contains(":valid-"));
        for (key, what) in vs.iter().take(3) {
            nviol += 1;
            if nviol <= 20 {
                let body = format!(
                    "{{\n \"property\": \"C19\",\n \"case\": {},\n \"violation\": {}\n}}\n",
                    serde_json::to_string(c).unwrap(),
                    serde_json::to_string(what).unwrap()
                );
                let path = out.write_replay(&format!("C19-{}.json", nviol), &body);
                rep.violations.push(Violation { key: key.clone(), what: what.clone(), replay: path });
            }
        }
        if rep.samples.len() < 3 && (i % 29 == 0) {
            rep.samples.push(r.summary.clone());
        }
        coq_cases.extend(r.coq);
    }
    rep.distinct_nontrivial = distinct.len() as u64;
    rep.rule = "creations through the real factories and UpdateStartTradingTime / UpdateStartTime / sudo offset / direct collection calls on every minter family (6 vending, 3 open-edition, token-merge, base) x {sg721-base, sg721-updatable}; evaluations = contract calls executed (creations, updates, start moves, sudo, direct calls); distinct_nontrivial = distinct (family, collection type, op, symbolic time, clock, stored start, offset in force, outcome) tuples of creations, funds-free updates and direct calls".into();
    // the sale-world histories are by far the largest terms: deal the terms over the shards by size
    // (write_cases cuts the list into contiguous pieces of ceil(n/6))
    let coq_cases: Vec<String> = {
        let n = coq_cases.len();
        let shards = 6usize;
        let per = (n + shards - 1) / shards.max(1);
        let mut order: Vec<usize> = (0..n).collect();
        order.sort_by_key(|i| std::cmp::Reverse(coq_cases[*i].len()));
        let caps: Vec<usize> = (0..shards).map(|k| per.min(n.saturating_sub(k * per))).collect();
        let mut bins: Vec<Vec<usize>> = vec![vec![]; shards];
        let mut k = 0;
        for i in order {
            let mut tries = 0;
            while bins[k].len() >= caps[k] && tries < shards {
                k = (k + 1) % shards;
                tries += 1;
            }
            bins[k].push(i);
            k = (k + 1) % shards;
        }
        bins.into_iter().flatten().map(|i| coq_cases[i].clone()).collect()
    };
    out.write_cases(
        "C19",
        "From LP Require Import Num Pay Sg1 Bank MinterVending SaleCorr Trading C19Corr.",
        "c19_case",
        "c19_check",
        &coq_cases,
        6,
        &mut rep,
    );
    out.finish(&rep);
    println!("C19 harness: {} cases, {} contract calls, {} coq terms, {} monitor violations", cases.len(), rep.evaluations, coq_cases.len(), nviol);
}
