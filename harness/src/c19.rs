//! C19 — harness module not built yet.
use crate::Args;
pub fn run(_a: &Args) {
    eprintln!("C19: harness module not built yet");
    std::process::exit(2);
}
