//! w_splits: the splits world — real cw4-group + sg-splits + bank on cw-multi-test, an op
//! language over it, and per-step observations.
#![allow(dead_code, unused_imports)]
use crate::chain::{self, App};
use cosmwasm_std::{coins, to_json_binary, Addr, BankMsg, CosmosMsg, Deps, Empty, MessageInfo};
use cw4::Member;
use cw_multi_test::Executor;
use serde::{Deserialize, Serialize};
use std::collections::BTreeSet;

/// denoms in ascending string order; model id = index + 1
pub const DENOMS: [&str; 4] = [
    "factory/stars1xyz/uaaa",
    "ibc/C4CFF46FD6DE35CA4CF4CE031E643C8FDC9BA4B99AE598E9B0ED98FE3A2319F9",
    "ustars",
    "uusdc",
];
pub fn denom_id(ix: usize) -> u64 {
    ix as u64 + 1
}
pub const ADMIN: &str = "admin";
pub const GADMIN: &str = "gadmin";
pub const STRANGER: &str = "stranger";
pub const ADMIN2: &str = "admin2";
/// placeholder for "the splits contract's own address" in member lists / senders
pub const SELF: &str = "SELF";
pub const SELF_ID: u64 = 5;

/// member address strings sort like their ids: m0000 -> 100, m0001 -> 101, ...
pub fn member_name(i: u64) -> String {
    format!("m{:04}", i)
}
pub fn addr_id(s: &str) -> u64 {
    match s {
        ADMIN => 1,
        GADMIN => 2,
        STRANGER => 3,
        ADMIN2 => 4,
        SELF => SELF_ID,
        _ if s.starts_with("contract") => SELF_ID,
        _ if s.starts_with('m') => 100 + s[1..].parse::<u64>().expect("member name"),
        _ => panic!("no id for address {}", s),
    }
}

#[derive(Clone, Debug, Serialize, Deserialize, PartialEq, Eq, PartialOrd, Ord)]
pub enum Op {
    Deposit { denom: usize, amt: u128 },
    UpdateMembers { sender: String, adds: Vec<(String, u64)>, rems: Vec<String> },
    UpdateAdmin { sender: String, new_admin: Option<String> },
    Distribute { sender: String, denoms: Option<Vec<usize>> },
    /// migrate the splits contract to the same code; `stored` = cw2 (name, version) written
    /// into its storage just before (None: whatever is recorded)
    Migrate { who: String, stored: Option<(String, String)> },
}

#[derive(Clone, Copy, Debug, Serialize, Deserialize, PartialEq, Eq, PartialOrd, Ord)]
pub enum Mode {
    /// splits instantiated over an already existing group (checked at instantiate)
    Existing,
    /// splits instantiates the group itself and learns its address in the reply
    Reply,
}

#[derive(Clone, Debug, Serialize, Deserialize, PartialEq, Eq, PartialOrd, Ord)]
pub struct Hist {
    pub mode: Mode,
    pub admin: Option<String>,
    pub gadmin: Option<String>,
    pub members: Vec<(String, u64)>,
    pub ops: Vec<Op>,
    /// coins attached to the splits contract's own instantiate message (denom index, amount)
    #[serde(default)]
    pub inst_funds: Vec<(usize, u128)>,
}

pub struct World {
    pub app: App,
    pub splits: Addr,
    pub group: Addr,
    /// a second cw4 group the splits contract has nothing to do with (always `contract2`):
    /// stranger (weight 1) and admin2 (weight 3)
    pub decoy: Addr,
}
pub const DECOY: &str = "contract2";
/// the wasm-level admin of the splits contract (the only account that can migrate it)
pub const WASM_ADMIN: &str = ADMIN;

fn make_decoy(app: &mut App, gcode: u64) -> Addr {
    let gmsg = cw4_group::msg::InstantiateMsg {
        admin: Some(GADMIN.to_string()),
        members: vec![Member { addr: STRANGER.to_string(), weight: 1 }, Member { addr: ADMIN2.to_string(), weight: 3 }],
    };
    let a = app.instantiate_contract(gcode, Addr::unchecked("creator"), &gmsg, &[], "decoy", None).expect("decoy group");
    assert_eq!(a.as_str(), DECOY);
    a
}

pub fn resolve(s: &str, me: &str) -> String {
    if s == SELF {
        me.to_string()
    } else {
        s.to_string()
    }
}

fn members_msg(ms: &[(String, u64)], me: &str) -> Vec<Member> {
    ms.iter().map(|(a, w)| Member { addr: resolve(a, me), weight: *w }).collect()
}

/// group first, then splits over its address.  Err(stage) tells which instantiate failed.
fn attach(app: &mut App, funds: &[(usize, u128)]) -> Vec<cosmwasm_std::Coin> {
    let mut v: Vec<cosmwasm_std::Coin> = vec![];
    for (d, a) in funds {
        chain::mint_coins(app, "creator", *a, DENOMS[*d]);
        v.push(cosmwasm_std::coin(*a, DENOMS[*d]));
    }
    v.sort_by(|a, b| a.denom.cmp(&b.denom));
    v
}

pub fn instantiate_existing(
    admin: &Option<String>,
    gadmin: &Option<String>,
    members: &[(String, u64)],
    funds: &[(usize, u128)],
) -> Result<World, &'static str> {
    let mut app = chain::new_app();
    let attached = attach(&mut app, funds);
    let gcode = app.store_code(chain::cw4_group());
    let scode = app.store_code(chain::splits());
    let me = "contract1";
    let gmsg = cw4_group::msg::InstantiateMsg { admin: gadmin.clone(), members: members_msg(members, me) };
    let group = match crate::util::catch(|| {
        app.instantiate_contract(gcode, Addr::unchecked("creator"), &gmsg, &[], "group", None)
    }) {
        Ok(Ok(a)) => a,
        _ => return Err("group"),
    };
    let smsg = sg_splits::msg::InstantiateMsg {
        admin: admin.clone(),
        group: sg_splits::msg::Group::Cw4Address(group.to_string()),
    };
    let splits = match crate::util::catch(|| {
        app.instantiate_contract(scode, Addr::unchecked("creator"), &smsg, &attached, "splits", Some(ADMIN.to_string()))
    }) {
        Ok(Ok(a)) => a,
        _ => return Err("splits"),
    };
    assert_eq!(splits.as_str(), me);
    let decoy = make_decoy(&mut app, gcode);
    Ok(World { app, splits, group, decoy })
}

/// splits instantiates the group through a submessage + reply (no group checks on this path)
pub fn instantiate_reply(
    admin: &Option<String>,
    gadmin: &Option<String>,
    members: &[(String, u64)],
    funds: &[(usize, u128)],
) -> Result<World, &'static str> {
    let mut app = chain::new_app();
    let attached = attach(&mut app, funds);
    let gcode = app.store_code(chain::cw4_group());
    let scode = app.store_code(chain::splits());
    let me = "contract0";
    let gmsg = cw4_group::msg::InstantiateMsg { admin: gadmin.clone(), members: members_msg(members, me) };
    let smsg = sg_splits::msg::InstantiateMsg {
        admin: admin.clone(),
        group: sg_splits::msg::Group::Cw4Instantiate(sg_controllers::ContractInstantiateMsg {
            code_id: gcode,
            msg: to_json_binary(&gmsg).unwrap(),
            admin: Some(sg_controllers::Admin::Creator {}),
            label: "group".to_string(),
        }),
    };
    let splits = match crate::util::catch(|| {
        app.instantiate_contract(scode, Addr::unchecked("creator"), &smsg, &attached, "splits", Some(ADMIN.to_string()))
    }) {
        Ok(Ok(a)) => a,
        _ => return Err("splits"),
    };
    assert_eq!(splits.as_str(), me);
    let group: Addr = app.wrap().query_wasm_smart(&splits, &sg_splits::msg::QueryMsg::Group {}).map_err(|_| "group-query")?;
    // the ledger's group address is what creation order dictates, not what splits answers
    let group = if group.as_str() == "contract1" { group } else { return Err("group-query") };
    let decoy = make_decoy(&mut app, gcode);
    Ok(World { app, splits, group, decoy })
}

impl World {
    pub fn me(&self) -> String {
        self.splits.to_string()
    }
    /// what the group itself says (not through splits): all members, paging until exhausted
    pub fn group_members(&self) -> Vec<(String, u64)> {
        let mut out: Vec<(String, u64)> = vec![];
        loop {
            let start_after = out.last().map(|(a, _)| a.clone());
            let r: cw4::MemberListResponse = self
                .app
                .wrap()
                .query_wasm_smart(&self.group, &cw4_group::msg::QueryMsg::ListMembers { start_after, limit: Some(30) })
                .unwrap();
            let n = r.members.len();
            out.extend(r.members.into_iter().map(|m| (m.addr, m.weight)));
            if n < 30 {
                break;
            }
        }
        out
    }
    pub fn group_total(&self) -> u64 {
        let r: cw4::TotalWeightResponse =
            self.app.wrap().query_wasm_smart(&self.group, &cw4_group::msg::QueryMsg::TotalWeight { at_height: None }).unwrap();
        r.weight
    }
    /// splits' own ListMembers with the 30-entry page the contract uses
    pub fn splits_page(&self) -> Vec<(String, u64)> {
        // an unanswerable query (e.g. GROUP pointing nowhere) is reported as an empty page
        self.app
            .wrap()
            .query_wasm_smart::<cw4::MemberListResponse>(&self.splits, &sg_splits::msg::QueryMsg::ListMembers { start_after: None, limit: Some(30) })
            .map(|r| r.members.into_iter().map(|m| (m.addr, m.weight)).collect())
            .unwrap_or_default()
    }
    pub fn splits_group(&self) -> Option<String> {
        self.app.wrap().query_wasm_smart::<Addr>(&self.splits, &sg_splits::msg::QueryMsg::Group {}).ok().map(|a| a.to_string())
    }
    pub fn splits_admin(&self) -> Option<String> {
        let r: cw_controllers::AdminResponse =
            self.app.wrap().query_wasm_smart(&self.splits, &sg_splits::msg::QueryMsg::Admin {}).unwrap();
        r.admin
    }
    pub fn bal(&self, who: &str, denom_ix: usize) -> u128 {
        chain::balance(&self.app, who, DENOMS[denom_ix])
    }
    /// call execute_distribute itself on the current chain state (it takes `Deps`, so it
    /// cannot write): the exact message list the handler returns
    pub fn handler_distribute(&self, sender: &str, denoms: &Option<Vec<usize>>) -> Result<Vec<(String, usize, u128)>, String> {
        let st = self.app.contract_storage(&self.splits);
        let deps = Deps { storage: &*st, api: self.app.api(), querier: self.app.wrap() };
        let mut env = cosmwasm_std::testing::mock_env();
        env.contract.address = self.splits.clone();
        env.block = self.app.block_info();
        let info = MessageInfo { sender: Addr::unchecked(sender), funds: vec![] };
        let dl = denoms.as_ref().map(|v| v.iter().map(|i| DENOMS[*i].to_string()).collect::<Vec<_>>());
        let r = crate::util::catch(|| sg_splits::contract::execute_distribute(deps, env, info, dl));
        match r {
            Ok(Ok(resp)) => {
                let mut out = vec![];
                for sm in &resp.messages {
                    match &sm.msg {
                        CosmosMsg::Bank(BankMsg::Send { to_address, amount }) if amount.len() == 1 => {
                            let ix = DENOMS.iter().position(|d| *d == amount[0].denom).ok_or("unknown denom")?;
                            out.push((to_address.clone(), ix, amount[0].amount.u128()));
                        }
                        other => return Ok(vec![(format!("UNCLASSIFIED {:?}", other), 0, 0)]),
                    }
                }
                Ok(out)
            }
            Ok(Err(e)) => Err(e.to_string()),
            Err(p) => Err(p),
        }
    }
    pub fn apply(&mut self, op: &Op) -> Result<(), String> {
        let me = self.me();
        match op {
            Op::Deposit { denom, amt } => {
                if *amt == 0 {
                    return Ok(());
                }
                chain::mint_coins(&mut self.app, &me, *amt, DENOMS[*denom]);
                Ok(())
            }
            Op::UpdateMembers { sender, adds, rems } => {
                let msg = cw4_group::msg::ExecuteMsg::UpdateMembers {
                    remove: rems.iter().map(|r| resolve(r, &me)).collect(),
                    add: members_msg(adds, &me),
                };
                let group = self.group.clone();
                chain::exec(&mut self.app, &resolve(sender, &me), &group, &msg, &[]).map(|_| ())
            }
            Op::UpdateAdmin { sender, new_admin } => {
                let msg = sg_splits::msg::ExecuteMsg::UpdateAdmin { admin: new_admin.clone() };
                let splits = self.splits.clone();
                chain::exec(&mut self.app, &resolve(sender, &me), &splits, &msg, &[]).map(|_| ())
            }
            Op::Migrate { who, stored } => {
                let splits = self.splits.clone();
                if let Some((name, version)) = stored {
                    crate::w_migrate::set_cw2(&mut self.app, &splits, name, version);
                }
                let code_id = self.app.contract_data(&splits).map_err(|e| e.to_string())?.code_id;
                let who = Addr::unchecked(resolve(who, &me));
                let app = &mut self.app;
                match crate::util::catch(|| app.migrate_contract(who, splits, &Empty {}, code_id)) {
                    Ok(Ok(_)) => Ok(()),
                    Ok(Err(e)) => Err(format!("{:#}", e)),
                    Err(p) => Err(p),
                }
            }
            Op::Distribute { sender, denoms } => {
                let msg = sg_splits::msg::ExecuteMsg::Distribute {
                    denom_list: denoms.as_ref().map(|v| v.iter().map(|i| DENOMS[*i].to_string()).collect()),
                };
                let splits = self.splits.clone();
                chain::exec(&mut self.app, &resolve(sender, &me), &splits, &msg, &[]).map(|_| ())
            }
        }
    }
}

/// every address named anywhere in a history (members ever present, senders, admins), plus
/// the fixed roles; the contract itself is added by the caller
pub fn accounts_of(h: &Hist) -> Vec<String> {
    let mut s: BTreeSet<String> = BTreeSet::new();
    for r in [ADMIN, GADMIN, STRANGER, ADMIN2] {
        s.insert(r.to_string());
    }
    for (a, _) in &h.members {
        s.insert(a.clone());
    }
    for op in &h.ops {
        match op {
            Op::UpdateMembers { sender, adds, rems } => {
                s.insert(sender.clone());
                for (a, _) in adds {
                    s.insert(a.clone());
                }
                for a in rems {
                    s.insert(a.clone());
                }
            }
            Op::UpdateAdmin { sender, new_admin } => {
                s.insert(sender.clone());
                if let Some(a) = new_admin {
                    s.insert(a.clone());
                }
            }
            Op::Distribute { sender, .. } => {
                s.insert(sender.clone());
            }
            Op::Migrate { who, .. } => {
                s.insert(who.clone());
            }
            Op::Deposit { .. } => {}
        }
    }
    s.remove(SELF);
    s.into_iter().collect()
}

// ---- Coq printing ----
pub fn coq_member(a: &str, w: u64) -> String {
    format!("mkMember {} {}", addr_id(a), w)
}
pub fn coq_members(ms: &[(String, u64)]) -> String {
    crate::util::coq_list(&ms.iter().map(|(a, w)| coq_member(a, *w)).collect::<Vec<_>>())
}
pub fn coq_opt_addr(a: &Option<String>) -> String {
    crate::util::coq_opt_n(a.as_ref().map(|s| addr_id(s)))
}
pub fn coq_op(op: &Op) -> String {
    match op {
        Op::Deposit { denom, amt } => format!("Deposit {} {}", denom_id(*denom), amt),
        Op::UpdateMembers { sender, adds, rems } => format!(
            "UpdateMembers {} {} {}",
            addr_id(sender),
            coq_members(adds),
            crate::util::coq_list(&rems.iter().map(|r| addr_id(r).to_string()).collect::<Vec<_>>())
        ),
        Op::UpdateAdmin { sender, new_admin } => format!("UpdateAdmin {} {}", addr_id(sender), coq_opt_addr(new_admin)),
        Op::Migrate { .. } => panic!("a migration is not an `op` of the model; it is printed as an SMig step"),
        Op::Distribute { sender, denoms } => format!(
            "Distribute {} {}",
            addr_id(sender),
            match denoms {
                None => "None".to_string(),
                Some(v) => format!("(Some {})", crate::util::coq_list(&v.iter().map(|i| denom_id(*i).to_string()).collect::<Vec<_>>())),
            }
        ),
    }
}
