//! C17 world: token-merge factory + minter + target collection, 1..3 required source
//! collections and one foreign collection (plain sg721-base instantiated through a tiny
//! puppet contract, owner = the account `srcowner` who mints source tokens at will),
//! six accounts.  Operation language, execution on the real contracts, observation.
#![allow(dead_code)]
use crate::chain::{self, App};
use cosmwasm_std::{coin, to_json_binary, Addr, Binary, Coin, CosmosMsg, Empty, Timestamp, WasmMsg};
use cw721::Cw721ReceiveMsg;
use cw_multi_test::{AppResponse, ContractWrapper, Executor};
use serde::{Deserialize, Serialize};
use std::collections::BTreeMap;

/// harness-only contract: instantiates whatever it is told to and forwards CosmosMsgs
pub mod puppet {
    use cosmwasm_schema::cw_serde;
    use cosmwasm_std::{Binary, CosmosMsg, Deps, DepsMut, Empty, Env, MessageInfo, Response, StdResult};
    #[cw_serde]
    pub struct Forward {
        pub msgs: Vec<CosmosMsg>,
    }
    pub fn instantiate(_d: DepsMut, _e: Env, _i: MessageInfo, _m: Empty) -> StdResult<Response> {
        Ok(Response::new())
    }
    pub fn execute(_d: DepsMut, _e: Env, _i: MessageInfo, m: Forward) -> StdResult<Response> {
        Ok(Response::new().add_messages(m.msgs))
    }
    pub fn query(_d: Deps, _e: Env, _m: Empty) -> StdResult<Binary> {
        Ok(Binary::default())
    }
}

pub const NATIVE: &str = "ustars";
pub const OTHER: &str = "uother";
pub const SRCOWNER: &str = "srcowner";
pub const START: u64 = chain::GENESIS_NS + 100_000_000_000; // genesis + 100 s
pub const CREATION_FEE: u128 = 1_000_000;
pub const MAX_PER_ADDRESS_LIMIT: u32 = 50;
pub const MAX_TOKEN_LIMIT: u32 = 10_000;

/// accounts: index -> (string, model id).  Index 6 is the puppet contract (filled at run time).
pub const ACCOUNTS: [(&str, u64); 6] = [
    ("creator", 5),
    ("user0001", 11),
    ("user0002", 12),
    ("user0003", 13),
    ("recipient01", 14),
    ("stranger", 15),
];
pub const CREATOR: usize = 0;
pub const PUPPET: usize = 6;
pub const PUPPET_ID: u64 = 9;
pub const MINTER_ID: u64 = 7;
pub const UNKNOWN_ID: u64 = 99;
pub const COLL_ID0: u64 = 21; // collection index i -> id 21 + i

#[derive(Clone, Debug, Serialize, Deserialize, PartialEq, Eq, PartialOrd, Ord)]
pub enum Recip {
    None,
    Addr(usize),
    Invalid,
}

#[derive(Clone, Debug, Serialize, Deserialize, PartialEq, Eq, PartialOrd, Ord)]
pub enum Op {
    /// `user` executes SendNft{contract: minter, token_id, msg} on collection `coll`
    Send { coll: usize, user: usize, tok: u64, garbage: bool, recip: Recip },
    /// `user` (an account, or the puppet contract when user == 6) calls the minter's ReceiveNft itself
    Direct { user: usize, cw_sender: usize, tok: u64, recip: Recip },
    MintTo { caller: usize, recip: Recip, funds: Vec<(u8, u128)> },
    MintFor { caller: usize, tid: u32, recip: Recip, funds: Vec<(u8, u128)> },
    Shuffle { caller: usize, funds: Vec<(u8, u128)> },
    Purge { caller: usize, funds: Vec<(u8, u128)> },
    BurnRemaining { caller: usize, funds: Vec<(u8, u128)> },
    UpdStart { caller: usize, t: u64, funds: Vec<(u8, u128)> },
    UpdLimit { caller: usize, l: u32, funds: Vec<(u8, u128)> },
    /// overwrite the minter's cw2 info when `stored` is given, then `who` migrates the minter to the same code
    Migrate { who: usize, stored: Option<(String, String)> },
    /// governance: sudo UpdateParams on the token-merge factory
    SudoParams {
        max_limit: Option<u32>,
        airdrop_price: Option<u128>,
        shuffle_fee: Option<u128>,
        add_code_id: Option<u64>,
        offset: Option<u64>,
        #[serde(default)]
        frozen: Option<bool>,
        #[serde(default)]
        code_id: Option<u64>,
        #[serde(default)]
        rm_code_id: Option<u64>,
        #[serde(default)]
        creation_fee: Option<u128>,
        #[serde(default)]
        max_token_limit: Option<u32>,
        #[serde(default)]
        airdrop_fee_bps: Option<u64>,
    },
}
impl Op {
    pub fn kind(&self) -> &'static str {
        match self {
            Op::Send { garbage: true, .. } => "send-garbage",
            Op::Send { .. } => "send",
            Op::Direct { .. } => "direct",
            Op::MintTo { .. } => "mint_to",
            Op::MintFor { .. } => "mint_for",
            Op::Shuffle { .. } => "shuffle",
            Op::Purge { .. } => "purge",
            Op::BurnRemaining { .. } => "burn_remaining",
            Op::UpdStart { .. } => "update_start_time",
            Op::UpdLimit { .. } => "update_per_address_limit",
            Op::Migrate { .. } => "migrate",
            Op::SudoParams { .. } => "factory_sudo_update_params",
        }
    }
}

#[derive(Clone, Debug, Serialize, Deserialize, PartialEq, Eq, PartialOrd, Ord)]
pub struct Step {
    pub at: u64,
    pub op: Op,
}

#[derive(Clone, Debug, Serialize, Deserialize, PartialEq, Eq, PartialOrd, Ord)]
pub struct Case {
    pub name: String,
    /// mint_tokens as (collection index, amount); collections 0..ncolls-1 exist, those not named here are foreign
    pub req: Vec<(usize, u32)>,
    pub ncolls: usize,
    pub num_tokens: u32,
    pub limit: u32,
    pub airdrop_price: u128,
    pub shuffle_fee: u128,
    /// source tokens minted before the history: (collection index, token number, owner account index)
    pub src: Vec<(usize, u64, usize)>,
    pub steps: Vec<Step>,
}
impl Case {
    /// distinct collections, every amount >= 1: the configurations the property text speaks about
    pub fn regular(&self) -> bool {
        let mut seen = std::collections::BTreeSet::new();
        !self.req.is_empty() && self.req.iter().all(|(c, a)| *a >= 1 && seen.insert(*c))
    }
    pub fn required_amount(&self, coll: usize) -> Option<u32> {
        self.req.iter().find(|(c, _)| *c == coll).map(|(_, a)| *a)
    }
}

pub struct World {
    pub app: App,
    pub factory: Addr,
    pub puppet: Addr,
    pub minter: Addr,
    pub minter_code: u64,
    pub target: Addr,
    pub colls: Vec<Addr>,
}

#[derive(Clone, Debug, PartialEq, Eq)]
pub struct Obs {
    pub ledger: Vec<u64>, // accounts x collections
    pub counts: Vec<u64>,
    pub mintable: u64,
    pub start: u64,
    pub limit: u64,
    pub src: Vec<u64>, // owner id per source token, 0 = does not exist
    pub tgt: Vec<u64>,
    pub src_supply: Vec<u64>, // NumTokens per collection (monitor only)
    pub ledger_extra: u64,    // DepositedTokens entries under a collection string the world does not know
    pub raw_ledger_entries: u64,
    // supply side (monitors of the C01 clauses on this minter; not part of the Coq case)
    pub positions: Vec<(u32, u32)>, // raw MINTABLE_TOKEN_POSITIONS
    pub tgt_all: Vec<String>,       // AllTokens of the target collection
    pub tgt_supply: u64,            // NumTokens of the target collection
    pub cw2: (String, String),      // cw2 contract info of the minter
    pub start_query: String,        // StartTime query
}

pub fn account(i: usize, w: &World) -> String {
    if i == PUPPET {
        w.puppet.to_string()
    } else {
        ACCOUNTS[i].0.to_string()
    }
}
pub fn account_id(i: usize) -> u64 {
    if i == PUPPET {
        PUPPET_ID
    } else {
        ACCOUNTS[i].1
    }
}
pub fn recip_string(r: &Recip) -> Option<String> {
    match r {
        Recip::None => None,
        Recip::Addr(i) => Some(ACCOUNTS[*i].0.to_string()),
        Recip::Invalid => Some("X".to_string()),
    }
}
pub fn recip_coq(r: &Recip) -> String {
    match r {
        Recip::None => "None".into(),
        Recip::Addr(i) => format!("(Some {})", ACCOUNTS[*i].1),
        Recip::Invalid => "(Some 0)".into(),
    }
}

fn instantiated(res: &AppResponse) -> Vec<String> {
    let mut v = vec![];
    for e in &res.events {
        if e.ty == "instantiate" {
            for a in &e.attributes {
                if a.key == "_contract_address" {
                    v.push(a.value.clone());
                }
            }
        }
    }
    v
}

fn collection_info() -> sg721::CollectionInfo<sg721::RoyaltyInfoResponse> {
    sg721::CollectionInfo {
        creator: ACCOUNTS[CREATOR].0.to_string(),
        description: "c17".to_string(),
        image: "https://example.com/image.png".to_string(),
        external_link: None,
        explicit_content: None,
        start_trading_time: None,
        royalty_info: None,
    }
}

pub fn build(case: &Case) -> Result<World, String> {
    let mut app = chain::new_app();
    for (a, _) in ACCOUNTS.iter() {
        chain::mint_coins(&mut app, a, 1_000_000_000_000, NATIVE);
        chain::mint_coins(&mut app, a, 1_000_000_000_000, OTHER);
    }
    let factory_code = app.store_code(chain::token_merge_factory());
    let minter_code = app.store_code(chain::token_merge_minter());
    let sg721_code = app.store_code(chain::sg721_base());
    let puppet_code =
        app.store_code(Box::new(ContractWrapper::new(puppet::execute, puppet::instantiate, puppet::query)));
    let gov = Addr::unchecked("governance");
    let params = token_merge_factory::state::TokenMergeFactoryParams {
        code_id: minter_code,
        allowed_sg721_code_ids: vec![sg721_code],
        frozen: false,
        creation_fee: coin(CREATION_FEE, NATIVE),
        max_trading_offset_secs: 60 * 60 * 24 * 7,
        max_token_limit: MAX_TOKEN_LIMIT,
        max_per_address_limit: MAX_PER_ADDRESS_LIMIT,
        airdrop_mint_price: coin(case.airdrop_price, NATIVE),
        airdrop_mint_fee_bps: 10_000,
        shuffle_fee: coin(case.shuffle_fee, NATIVE),
    };
    let factory = app
        .instantiate_contract(
            factory_code,
            gov.clone(),
            &token_merge_factory::msg::InstantiateMsg { params },
            &[],
            "factory",
            None,
        )
        .map_err(|e| format!("{:#}", e))?;
    let puppet = app
        .instantiate_contract(puppet_code, gov.clone(), &Empty {}, &[], "puppet", None)
        .map_err(|e| format!("{:#}", e))?;
    // source collections (required and foreign alike)
    let mut colls = vec![];
    for i in 0..case.ncolls {
        let m = puppet::Forward {
            msgs: vec![CosmosMsg::Wasm(WasmMsg::Instantiate {
                admin: None,
                code_id: sg721_code,
                msg: to_json_binary(&sg721::InstantiateMsg {
                    name: format!("source{}", i),
                    symbol: format!("SRC{}", i),
                    minter: SRCOWNER.to_string(),
                    collection_info: collection_info(),
                })
                .unwrap(),
                funds: vec![],
                label: format!("source{}", i),
            })],
        };
        let res = chain::exec(&mut app, "governance", &puppet, &m, &[])?;
        let a = instantiated(&res);
        if a.len() != 1 {
            return Err(format!("source collection {}: {} instantiate events", i, a.len()));
        }
        colls.push(Addr::unchecked(a[0].clone()));
    }
    for (c, tok, owner) in &case.src {
        let m = sg721::ExecuteMsg::<Option<Empty>, Empty>::Mint {
            token_id: tok.to_string(),
            owner: ACCOUNTS[*owner].0.to_string(),
            token_uri: None,
            extension: None,
        };
        chain::exec(&mut app, SRCOWNER, &colls[*c], &m, &[])?;
    }
    // the minter, through the factory
    let create = token_merge_factory::msg::ExecuteMsg::CreateMinter(token_merge_factory::msg::CreateMinterMsg {
        init_msg: token_merge_factory::msg::TokenMergeMinterInitMsgExtension {
            base_token_uri: "ipfs://QmYxw1rURvnbQbBRTfmVaZtxSrkrfsbodNzibgBrVrUrtN".to_string(),
            start_time: Timestamp::from_nanos(START),
            num_tokens: case.num_tokens,
            mint_tokens: case
                .req
                .iter()
                .map(|(c, a)| token_merge_factory::msg::MintToken { collection: colls[*c].to_string(), amount: *a })
                .collect(),
            per_address_limit: case.limit,
        },
        collection_params: token_merge_factory::msg::CollectionParams {
            code_id: sg721_code,
            name: "merged".to_string(),
            symbol: "MRG".to_string(),
            info: collection_info(),
        },
    });
    let res = chain::exec(&mut app, ACCOUNTS[CREATOR].0, &factory, &create, &[coin(CREATION_FEE, NATIVE)])?;
    let a = instantiated(&res);
    if a.len() != 2 {
        return Err(format!("CreateMinter: {} instantiate events", a.len()));
    }
    let minter = Addr::unchecked(a[0].clone());
    let cfg: token_merge_minter::msg::ConfigResponse = app
        .wrap()
        .query_wasm_smart(&minter, &token_merge_minter::msg::QueryMsg::Config {})
        .map_err(|e| e.to_string())?;
    let target = Addr::unchecked(cfg.sg721_address);
    Ok(World { app, factory, puppet, minter, minter_code, target, colls })
}

fn funds_of(f: &[(u8, u128)]) -> Vec<Coin> {
    f.iter().map(|(d, a)| coin(*a, if *d == 0 { NATIVE } else { OTHER })).collect()
}
pub fn funds_coq(f: &[(u8, u128)]) -> String {
    format!("[{}]", f.iter().map(|(d, a)| format!("mkCoin {} {}", d, a)).collect::<Vec<_>>().join("; "))
}

/// run one operation on the real contracts
pub fn apply(w: &mut World, op: &Op) -> Result<AppResponse, String> {
    use token_merge_minter::msg::{ExecuteMsg as M, ReceiveNftMsg};
    let minter = w.minter.clone();
    match op {
        Op::Send { coll, user, tok, garbage, recip } => {
            let payload: Binary = if *garbage {
                Binary::from(br#"{"withdraw":{}}"#.to_vec())
            } else {
                to_json_binary(&ReceiveNftMsg::DepositToken { recipient: recip_string(recip) }).unwrap()
            };
            let m = sg721::ExecuteMsg::<Option<Empty>, Empty>::SendNft {
                contract: minter.to_string(),
                token_id: tok.to_string(),
                msg: payload,
            };
            let c = w.colls[*coll].clone();
            let s = account(*user, w);
            chain::exec(&mut w.app, &s, &c, &m, &[])
        }
        Op::Direct { user, cw_sender, tok, recip } => {
            let m = M::ReceiveNft(Cw721ReceiveMsg {
                sender: account(*cw_sender, w),
                token_id: tok.to_string(),
                msg: to_json_binary(&ReceiveNftMsg::DepositToken { recipient: recip_string(recip) }).unwrap(),
            });
            if *user == PUPPET {
                let f = puppet::Forward {
                    msgs: vec![CosmosMsg::Wasm(WasmMsg::Execute {
                        contract_addr: minter.to_string(),
                        msg: to_json_binary(&m).unwrap(),
                        funds: vec![],
                    })],
                };
                let p = w.puppet.clone();
                chain::exec(&mut w.app, "governance", &p, &f, &[])
            } else {
                let s = account(*user, w);
                chain::exec(&mut w.app, &s, &minter, &m, &[])
            }
        }
        Op::MintTo { caller, recip, funds } => {
            let m = M::MintTo { recipient: recip_string(recip).unwrap_or_else(|| "X".into()) };
            let s = account(*caller, w);
            chain::exec(&mut w.app, &s, &minter, &m, &funds_of(funds))
        }
        Op::MintFor { caller, tid, recip, funds } => {
            let m = M::MintFor { token_id: *tid, recipient: recip_string(recip).unwrap_or_else(|| "X".into()) };
            let s = account(*caller, w);
            chain::exec(&mut w.app, &s, &minter, &m, &funds_of(funds))
        }
        Op::Shuffle { caller, funds } => {
            let s = account(*caller, w);
            chain::exec(&mut w.app, &s, &minter, &M::Shuffle {}, &funds_of(funds))
        }
        Op::Purge { caller, funds } => {
            let s = account(*caller, w);
            chain::exec(&mut w.app, &s, &minter, &M::Purge {}, &funds_of(funds))
        }
        Op::BurnRemaining { caller, funds } => {
            let s = account(*caller, w);
            chain::exec(&mut w.app, &s, &minter, &M::BurnRemaining {}, &funds_of(funds))
        }
        Op::UpdStart { caller, t, funds } => {
            let s = account(*caller, w);
            chain::exec(&mut w.app, &s, &minter, &M::UpdateStartTime(Timestamp::from_nanos(*t)), &funds_of(funds))
        }
        Op::UpdLimit { caller, l, funds } => {
            let s = account(*caller, w);
            chain::exec(&mut w.app, &s, &minter, &M::UpdatePerAddressLimit { per_address_limit: *l }, &funds_of(funds))
        }
        Op::Migrate { who, .. } => {
            let s = Addr::unchecked(account(*who, w));
            let code = w.minter_code;
            match crate::util::catch(|| w.app.migrate_contract(s, minter.clone(), &Empty {}, code)) {
                Ok(Ok(r)) => Ok(r),
                Ok(Err(e)) => Err(format!("{:#}", e)),
                Err(p) => Err(p),
            }
        }
        Op::SudoParams { max_limit, airdrop_price, shuffle_fee, add_code_id, offset, frozen, code_id, rm_code_id, creation_fee, max_token_limit, airdrop_fee_bps } => {
            use token_merge_factory::msg::{SudoMsg, TokenMergeUpdateParamsExtension, UpdateMinterParamsMsg};
            let m = SudoMsg::UpdateParams(Box::new(UpdateMinterParamsMsg {
                code_id: *code_id,
                add_sg721_code_ids: add_code_id.map(|c| vec![c]),
                rm_sg721_code_ids: rm_code_id.map(|c| vec![c]),
                frozen: *frozen,
                creation_fee: creation_fee.map(|a| coin(a, NATIVE)),
                max_trading_offset_secs: *offset,
                extension: TokenMergeUpdateParamsExtension {
                    max_token_limit: *max_token_limit,
                    max_per_address_limit: *max_limit,
                    airdrop_mint_price: airdrop_price.map(|a| coin(a, NATIVE)),
                    airdrop_mint_fee_bps: *airdrop_fee_bps,
                    shuffle_fee: shuffle_fee.map(|a| coin(a, NATIVE)),
                },
            }));
            let f = w.factory.clone();
            chain::sudo(&mut w.app, &f, &m)
        }
    }
}

/// a SudoParams step that changes nothing; callers set the fields they want
pub fn sudo_none() -> Op {
    Op::SudoParams {
        max_limit: None,
        airdrop_price: None,
        shuffle_fee: None,
        add_code_id: None,
        offset: None,
        frozen: None,
        code_id: None,
        rm_code_id: None,
        creation_fee: None,
        max_token_limit: None,
        airdrop_fee_bps: None,
    }
}
pub fn sudo_frozen(f: bool) -> Op {
    match sudo_none() {
        Op::SudoParams { max_limit, airdrop_price, shuffle_fee, add_code_id, offset, code_id, rm_code_id, creation_fee, max_token_limit, airdrop_fee_bps, .. } => {
            Op::SudoParams { max_limit, airdrop_price, shuffle_fee, add_code_id, offset, frozen: Some(f), code_id, rm_code_id, creation_fee, max_token_limit, airdrop_fee_bps }
        }
        _ => unreachable!(),
    }
}

/// the harness's own part of a Migrate step: put the chosen cw2 info into the minter's storage
pub fn prepare(w: &mut World, op: &Op) {
    if let Op::Migrate { stored: Some((n, v)), .. } = op {
        let m = w.minter.clone();
        crate::w_migrate::set_cw2(&mut w.app, &m, n, v);
    }
}

/// the token id the minter says it minted in this response (0 = none): the wasm event of
/// the minter whose action is mint_sender / mint_to / mint_for
pub fn minted_pick(w: &World, res: &AppResponse) -> u64 {
    for e in &res.events {
        if e.ty != "wasm" {
            continue;
        }
        let at = |k: &str| e.attributes.iter().find(|a| a.key == k).map(|a| a.value.clone());
        if at("_contract_address").as_deref() != Some(w.minter.as_str()) {
            continue;
        }
        match at("action").as_deref() {
            Some("mint_sender") | Some("mint_to") | Some("mint_for") => {
                if let Some(t) = at("token_id").and_then(|t| t.parse::<u64>().ok()) {
                    return t;
                }
            }
            _ => {}
        }
    }
    0
}

/// `tokens_burned` of the burn-remaining event, if the response carries one
pub fn burned_attr(res: &AppResponse) -> Option<u64> {
    for e in &res.events {
        if e.ty == "wasm-burn-remaining" {
            return e.attributes.iter().find(|a| a.key == "tokens_burned").and_then(|a| a.value.parse().ok());
        }
    }
    None
}

fn owner_id(w: &World, owner: &str) -> u64 {
    if owner == w.minter.as_str() {
        return MINTER_ID;
    }
    if owner == w.puppet.as_str() {
        return PUPPET_ID;
    }
    for (s, i) in ACCOUNTS.iter() {
        if *s == owner {
            return *i;
        }
    }
    UNKNOWN_ID
}

fn owner_of(w: &World, coll: &Addr, tok: &str) -> u64 {
    let r: Result<cw721::OwnerOfResponse, _> = w.app.wrap().query_wasm_smart(
        coll,
        &sg721_base::msg::QueryMsg::OwnerOf { token_id: tok.to_string(), include_expired: None },
    );
    match r {
        Ok(o) => owner_id(w, &o.owner),
        Err(_) => 0,
    }
}

pub fn observe(w: &World, case: &Case) -> Obs {
    use token_merge_minter::msg::{
        ConfigResponse, MintCountResponse, MintTokensResponse, MintableNumTokensResponse, QueryMsg as Q,
    };
    let q = w.app.wrap();
    let mut ledger = vec![];
    let mut counts = vec![];
    let mut extra = 0;
    for (a, _) in ACCOUNTS.iter() {
        let d: MintTokensResponse =
            q.query_wasm_smart(&w.minter, &Q::DepositedTokens { address: a.to_string() }).expect("DepositedTokens");
        let m: BTreeMap<String, u32> = d.mint_tokens.iter().map(|t| (t.collection.clone(), t.amount)).collect();
        for c in &w.colls {
            ledger.push(*m.get(c.as_str()).unwrap_or(&0) as u64);
        }
        extra += d.mint_tokens.iter().filter(|t| !w.colls.iter().any(|c| c.as_str() == t.collection)).count() as u64;
        let c: MintCountResponse =
            q.query_wasm_smart(&w.minter, &Q::MintCount { address: a.to_string() }).expect("MintCount");
        counts.push(c.count as u64);
    }
    let mt: MintableNumTokensResponse = q.query_wasm_smart(&w.minter, &Q::MintableNumTokens {}).expect("mintable");
    let cfg: ConfigResponse = q.query_wasm_smart(&w.minter, &Q::Config {}).expect("config");
    let src = case.src.iter().map(|(c, t, _)| owner_of(w, &w.colls[*c], &t.to_string())).collect();
    let tgt = (1..=case.num_tokens).map(|t| owner_of(w, &w.target, &t.to_string())).collect();
    let src_supply = w
        .colls
        .iter()
        .map(|c| {
            let n: cw721::NumTokensResponse =
                q.query_wasm_smart(c, &sg721_base::msg::QueryMsg::NumTokens {}).expect("NumTokens");
            n.count
        })
        .collect();
    let raw = {
        let st = w.app.contract_storage(&w.minter);
        token_merge_minter::state::RECEIVED_TOKENS
            .range(&*st, None, None, cosmwasm_std::Order::Ascending)
            .count() as u64
    };
    let positions = {
        let st = w.app.contract_storage(&w.minter);
        token_merge_minter::state::MINTABLE_TOKEN_POSITIONS
            .range(&*st, None, None, cosmwasm_std::Order::Ascending)
            .filter_map(|x| x.ok())
            .collect::<Vec<(u32, u32)>>()
    };
    let mut tgt_all: Vec<String> = vec![];
    loop {
        let page: cw721::TokensResponse = q
            .query_wasm_smart(
                &w.target,
                &sg721_base::msg::QueryMsg::AllTokens { start_after: tgt_all.last().cloned(), limit: Some(100) },
            )
            .expect("AllTokens");
        let n = page.tokens.len();
        tgt_all.extend(page.tokens);
        if n < 100 {
            break;
        }
    }
    let tgt_supply = {
        let n: cw721::NumTokensResponse =
            q.query_wasm_smart(&w.target, &sg721_base::msg::QueryMsg::NumTokens {}).expect("NumTokens");
        n.count
    };
    let sq: token_merge_minter::msg::StartTimeResponse = q.query_wasm_smart(&w.minter, &Q::StartTime {}).expect("StartTime");
    Obs {
        start_query: sq.start_time,
        cw2: crate::w_migrate::get_cw2(&w.app, &w.minter),
        positions,
        tgt_all,
        tgt_supply,
        ledger,
        counts,
        mintable: mt.count as u64,
        start: cfg.start_time.nanos(),
        limit: cfg.per_address_limit as u64,
        src,
        tgt,
        src_supply,
        ledger_extra: extra,
        raw_ledger_entries: raw,
    }
}

fn nlist(v: &[u64]) -> String {
    format!("[{}]", v.iter().map(|x| x.to_string()).collect::<Vec<_>>().join("; "))
}
fn cw2_coq(c: &(String, String)) -> String {
    format!("(\"{}\"%string, \"{}\"%string)", c.0, c.1)
}
/// `cw2_after`: Some(info found after the call) on Migrate steps, None otherwise
pub fn obs_coq(ok: bool, o: &Obs, cw2_after: Option<&(String, String)>) -> String {
    format!(
        "(mkObs {} {} {} {} {} {} {} {} {})",
        if ok { "true" } else { "false" },
        nlist(&o.ledger),
        nlist(&o.counts),
        o.mintable,
        o.start,
        o.limit,
        nlist(&o.src),
        nlist(&o.tgt),
        match cw2_after {
            Some(c) => format!("(Some {})", cw2_coq(c)),
            None => "None".to_string(),
        }
    )
}

/// the step as the Coq checker sees it (`xstep`); `pre_cw2` = cw2 info in storage when the call was made
pub fn op_coq(op: &Op, pick: u64, pre_cw2: &(String, String)) -> String {
    match op {
        Op::Migrate { who, .. } => return format!("XMigrate {} {}", if *who == CREATOR { "true" } else { "false" }, cw2_coq(pre_cw2)),
        Op::SudoParams { max_limit, airdrop_price, shuffle_fee, .. } => {
            let o = |x: Option<u128>| match x {
                Some(v) => format!("(Some {})", v),
                None => "None".to_string(),
            };
            return format!("XSudo {} {} {}", o(max_limit.map(|x| x as u128)), o(*airdrop_price), o(*shuffle_fee));
        }
        _ => {}
    }
    format!("XOp ({})", wop_coq(op, pick))
}
pub fn cw2_after(op: &Op, post: &Obs) -> Option<(String, String)> {
    match op {
        Op::Migrate { .. } => Some(post.cw2.clone()),
        _ => None,
    }
}
fn wop_coq(op: &Op, pick: u64) -> String {
    match op {
        Op::Migrate { .. } | Op::SudoParams { .. } => unreachable!(),
        Op::Send { coll, user, tok, garbage, recip } => format!(
            "WSend {} {} {} {} {} {}",
            COLL_ID0 + *coll as u64,
            account_id(*user),
            tok,
            if *garbage { "false" } else { "true" },
            if *garbage { "None".to_string() } else { recip_coq(recip) },
            pick
        ),
        Op::Direct { user, cw_sender, tok, recip } => {
            format!("WDirect {} {} {} {} {}", account_id(*user), account_id(*cw_sender), tok, recip_coq(recip), pick)
        }
        Op::MintTo { caller, recip, funds } => format!(
            "WAdmin (OMintTo {} {} {} {})",
            account_id(*caller),
            match recip {
                Recip::Addr(i) => ACCOUNTS[*i].1,
                _ => 0,
            },
            funds_coq(funds),
            pick
        ),
        Op::MintFor { caller, tid, recip, funds } => format!(
            "WAdmin (OMintFor {} {} {} {})",
            account_id(*caller),
            tid,
            match recip {
                Recip::Addr(i) => ACCOUNTS[*i].1,
                _ => 0,
            },
            funds_coq(funds)
        ),
        Op::Shuffle { caller, funds } => format!("WAdmin (OShuffle {} {})", account_id(*caller), funds_coq(funds)),
        Op::Purge { caller, funds } => format!("WAdmin (OPurge {} {})", account_id(*caller), funds_coq(funds)),
        Op::BurnRemaining { caller, funds } => {
            format!("WAdmin (OBurnRemaining {} {})", account_id(*caller), funds_coq(funds))
        }
        Op::UpdStart { caller, t, funds } => {
            format!("WAdmin (OUpdStart {} {} {})", account_id(*caller), t, funds_coq(funds))
        }
        Op::UpdLimit { caller, l, funds } => {
            format!("WAdmin (OUpdLimit {} {} {})", account_id(*caller), l, funds_coq(funds))
        }
    }
}

/// the configuration part of a Coq case: initial minter state, minter id, initial source
/// tokens, and the grids the observations range over
pub fn cfg_coq(case: &Case) -> String {
    let req = case.req.iter().map(|(c, a)| format!("({}, {})", COLL_ID0 + *c as u64, a)).collect::<Vec<_>>().join("; ");
    let avail = (1..=case.num_tokens).map(|t| t.to_string()).collect::<Vec<_>>().join("; ");
    let st0 = format!(
        "(mkTm {} {} {} {} [{}] {} {} {} {} [{}] [] [])",
        ACCOUNTS[CREATOR].1,
        START,
        case.limit,
        case.num_tokens,
        req,
        MAX_PER_ADDRESS_LIMIT,
        case.airdrop_price,
        case.shuffle_fee,
        case.num_tokens,
        avail
    );
    let src0 = case
        .src
        .iter()
        .map(|(c, t, o)| format!("(({}, {}), {})", COLL_ID0 + *c as u64, t, ACCOUNTS[*o].1))
        .collect::<Vec<_>>()
        .join("; ");
    let addrs = ACCOUNTS.iter().map(|(_, i)| i.to_string()).collect::<Vec<_>>().join("; ");
    let colls = (0..case.ncolls).map(|c| (COLL_ID0 + c as u64).to_string()).collect::<Vec<_>>().join("; ");
    let srctoks =
        case.src.iter().map(|(c, t, _)| format!("({}, {})", COLL_ID0 + *c as u64, t)).collect::<Vec<_>>().join("; ");
    let tgttoks = (1..=case.num_tokens).map(|t| t.to_string()).collect::<Vec<_>>().join("; ");
    format!("{} {} [{}] [{}] [{}] [{}] [{}]", st0, MINTER_ID, src0, addrs, colls, srctoks, tgttoks)
}
