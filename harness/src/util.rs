//! Shared helpers: PRNG, id registries, Coq term printing, report structure.
use serde::Serialize;
use std::collections::BTreeMap;
use std::fmt::Write as _;
use std::path::{Path, PathBuf};

/// splitmix64: every random choice in a run derives from one state seeded by VERIF_SEED.
#[derive(Clone)]
pub struct Rng(pub u64);
impl Rng {
    pub fn new(seed: u64) -> Self {
        Rng(seed ^ 0x9E37_79B9_7F4A_7C15)
    }
    pub fn next_u64(&mut self) -> u64 {
        self.0 = self.0.wrapping_add(0x9E37_79B9_7F4A_7C15);
        let mut z = self.0;
        z = (z ^ (z >> 30)).wrapping_mul(0xBF58_476D_1CE4_E5B9);
        z = (z ^ (z >> 27)).wrapping_mul(0x94D0_49BB_1331_11EB);
        z ^ (z >> 31)
    }
    pub fn next_u128(&mut self) -> u128 {
        ((self.next_u64() as u128) << 64) | self.next_u64() as u128
    }
    /// uniform in 0..n (n>0)
    pub fn below(&mut self, n: u64) -> u64 {
        self.next_u64() % n
    }
    pub fn range(&mut self, lo: u64, hi_incl: u64) -> u64 {
        lo + self.below(hi_incl - lo + 1)
    }
    pub fn chance(&mut self, num: u64, den: u64) -> bool {
        self.below(den) < num
    }
    pub fn pick<'a, T>(&mut self, xs: &'a [T]) -> &'a T {
        &xs[self.below(xs.len() as u64) as usize]
    }
    /// a u128 with a random bit-length (so small and huge values are both common)
    pub fn u128_any_size(&mut self) -> u128 {
        let bits = self.range(0, 128);
        if bits == 0 {
            0
        } else if bits == 128 {
            self.next_u128()
        } else {
            self.next_u128() & ((1u128 << bits) - 1)
        }
    }
}

/// string <-> numeric id tables owned by the harness (model sees only ids)
#[derive(Default, Clone)]
pub struct Ids {
    map: BTreeMap<String, u64>,
    next: u64,
}
impl Ids {
    pub fn with_fixed(fixed: &[(&str, u64)], first_free: u64) -> Self {
        let mut map = BTreeMap::new();
        for (s, i) in fixed {
            map.insert(s.to_string(), *i);
        }
        Ids { map, next: first_free }
    }
    pub fn id(&mut self, s: &str) -> u64 {
        if let Some(i) = self.map.get(s) {
            return *i;
        }
        let i = self.next;
        self.next += 1;
        self.map.insert(s.to_string(), i);
        i
    }
    pub fn table(&self) -> Vec<(String, u64)> {
        self.map.iter().map(|(k, v)| (k.clone(), *v)).collect()
    }
}

pub const FOUNDATION: &str = "stars1xqz6xujjyz0r9uzn7srasle5uynmpa0zkjr5l8";
pub const LAUNCHPAD_DAO: &str = "stars1huqk6ha02jgrm69lxh8xfgl6wch9wlg7s65ujxydwdr725cxvuus423tj0";
pub const LIQUIDITY_DAO: &str = "stars12he2ldxl950wfypvelqwkac4mdul7clzgd8wdlnmjvll8z2cc47qsatvl2";
pub const NATIVE: &str = "ustars";

/// documented protocol addresses -> the model's fixed ids; everything else fresh from 10
pub fn addr_ids() -> Ids {
    Ids::with_fixed(&[(FOUNDATION, 1), (LAUNCHPAD_DAO, 2), (LIQUIDITY_DAO, 3)], 10)
}
pub fn denom_ids() -> Ids {
    Ids::with_fixed(&[(NATIVE, 0)], 1)
}

// ---------- Coq term printing ----------
pub fn coq_opt_n(o: Option<u64>) -> String {
    match o {
        Some(x) => format!("(Some {})", x),
        None => "None".to_string(),
    }
}
pub fn coq_bool(b: bool) -> &'static str {
    if b {
        "true"
    } else {
        "false"
    }
}
pub fn coq_list(items: &[String]) -> String {
    format!("[{}]", items.join("; "))
}

/// Bank-level message as the model sees it.
#[derive(Clone, Debug, PartialEq, Eq, Serialize)]
pub enum BMsg {
    Send { to: u64, denom: u64, amt: u128 },
    Burn { denom: u64, amt: u128 },
    FundPool { sender: u64, denom: u64, amt: u128 },
    Other { tag: u64 },
}
impl BMsg {
    pub fn coq(&self) -> String {
        match self {
            BMsg::Send { to, denom, amt } => format!("Send {} {} {}", to, denom, amt),
            BMsg::Burn { denom, amt } => format!("Burn {} {}", denom, amt),
            BMsg::FundPool { sender, denom, amt } => format!("FundPool {} {} {}", sender, denom, amt),
            BMsg::Other { tag } => format!("OtherMsg {}", tag),
        }
    }
    pub fn amount(&self) -> u128 {
        match self {
            BMsg::Send { amt, .. } | BMsg::Burn { amt, .. } | BMsg::FundPool { amt, .. } => *amt,
            BMsg::Other { .. } => 0,
        }
    }
}
pub fn coq_result_msgs(r: &Result<Vec<BMsg>, String>) -> String {
    match r {
        Ok(ms) => format!("(Ok {})", coq_list(&ms.iter().map(|m| m.coq()).collect::<Vec<_>>())),
        Err(_) => "Err".to_string(),
    }
}

/// Minimal protobuf reader for MsgFundFairburnPool { 1: sender, 2: Coin { 1: denom, 2: amount } }
/// written independently of the encoder in sg1 (anybuf).
pub fn decode_fund_fairburn_pool(bytes: &[u8]) -> Option<(String, String, u128)> {
    fn varint(b: &[u8], i: &mut usize) -> Option<u64> {
        let mut v = 0u64;
        let mut shift = 0;
        loop {
            let x = *b.get(*i)?;
            *i += 1;
            v |= ((x & 0x7f) as u64) << shift;
            if x & 0x80 == 0 {
                return Some(v);
            }
            shift += 7;
            if shift > 63 {
                return None;
            }
        }
    }
    fn fields(b: &[u8]) -> Option<Vec<(u64, Vec<u8>)>> {
        let mut i = 0;
        let mut out = vec![];
        while i < b.len() {
            let key = varint(b, &mut i)?;
            if key & 7 != 2 {
                return None;
            }
            let len = varint(b, &mut i)? as usize;
            if i + len > b.len() {
                return None;
            }
            out.push((key >> 3, b[i..i + len].to_vec()));
            i += len;
        }
        Some(out)
    }
    let top = fields(bytes)?;
    let mut sender = String::new(); // proto3: empty strings are omitted
    let mut coin = None;
    for (k, v) in top {
        match k {
            1 => sender = String::from_utf8(v).ok()?,
            2 => coin = Some(v),
            _ => return None,
        }
    }
    let cf = fields(&coin?)?;
    let mut denom = String::new();
    let mut amount = String::new();
    for (k, v) in cf {
        match k {
            1 => denom = String::from_utf8(v).ok()?,
            2 => amount = String::from_utf8(v).ok()?,
            _ => return None,
        }
    }
    Some((sender, denom, amount.parse::<u128>().ok()?))
}

pub const FUND_POOL_URL: &str = "/publicawesome.stargaze.alloc.v1beta1.MsgFundFairburnPool";

/// Translate the messages of a Response into model-level bank messages.
pub fn classify_msgs(
    msgs: &[cosmwasm_std::SubMsg],
    addrs: &mut Ids,
    denoms: &mut Ids,
) -> Vec<BMsg> {
    use cosmwasm_std::{BankMsg, CosmosMsg};
    let mut out = vec![];
    for (i, sm) in msgs.iter().enumerate() {
        let other = BMsg::Other { tag: i as u64 };
        let m = match &sm.msg {
            CosmosMsg::Bank(BankMsg::Send { to_address, amount }) if amount.len() == 1 => BMsg::Send {
                to: addrs.id(to_address),
                denom: denoms.id(&amount[0].denom),
                amt: amount[0].amount.u128(),
            },
            CosmosMsg::Bank(BankMsg::Burn { amount }) if amount.len() == 1 => BMsg::Burn {
                denom: denoms.id(&amount[0].denom),
                amt: amount[0].amount.u128(),
            },
            CosmosMsg::Stargate { type_url, value } if type_url == FUND_POOL_URL => {
                match decode_fund_fairburn_pool(value.as_slice()) {
                    Some((s, d, a)) => BMsg::FundPool { sender: addrs.id(&s), denom: denoms.id(&d), amt: a },
                    None => other,
                }
            }
            _ => other,
        };
        out.push(m);
    }
    out
}

// ---------- report ----------
#[derive(Serialize, Default)]
pub struct Violation {
    /// stable key used to match known_findings.json entries
    pub key: String,
    pub what: String,
    pub replay: String,
}

#[derive(Serialize, Default)]
pub struct Report {
    pub property: String,
    pub tier: String,
    pub seed: u64,
    pub evaluations: u64,
    pub distinct_nontrivial: u64,
    pub rule: String,
    pub samples: Vec<serde_json::Value>,
    pub histogram: BTreeMap<String, u64>,
    pub case_files: Vec<String>,
    pub cases_per_file: Vec<u64>,
    pub violations: Vec<Violation>,
    pub notes: Vec<String>,
}
impl Report {
    pub fn bump(&mut self, k: &str) {
        *self.histogram.entry(k.to_string()).or_insert(0) += 1;
    }
}

pub struct OutDir {
    pub dir: PathBuf,
}
impl OutDir {
    pub fn new(p: &Path) -> Self {
        std::fs::create_dir_all(p.join("replays")).unwrap();
        OutDir { dir: p.to_path_buf() }
    }
    /// Write Coq case files: `header` (imports), the case list split into shards, and the
    /// evaluation command; returns the file names.
    pub fn write_cases(
        &self,
        prop: &str,
        imports: &str,
        case_ty: &str,
        checker: &str,
        cases: &[String],
        shards: usize,
        report: &mut Report,
    ) {
        let n = cases.len();
        // never more than MAX_PER_FILE cases in one file: coqc's parser overflows its stack on very long list literals
        const MAX_PER_FILE: usize = 3000;
        let shards = shards.max(1).max((n + MAX_PER_FILE - 1) / MAX_PER_FILE).min(n.max(1));
        let per = (n + shards - 1) / shards.max(1);
        for s in 0..shards {
            let lo = s * per;
            let hi = ((s + 1) * per).min(n);
            if lo >= hi {
                break;
            }
            let mut t = String::new();
            writeln!(t, "(* generated by the harness: {} cases {}..{} *)", prop, lo, hi).unwrap();
            writeln!(t, "{}", imports).unwrap();
            writeln!(t, "Import ListNotations. Local Open Scope N_scope.").unwrap();
            writeln!(t, "Definition cases : list {} := [", case_ty).unwrap();
            for (i, c) in cases[lo..hi].iter().enumerate() {
                writeln!(t, "  {}{}", c, if lo + i + 1 == hi { "" } else { ";" }).unwrap();
            }
            writeln!(t, "].").unwrap();
            writeln!(t, "Definition bad := failing {} {} cases.", checker, lo).unwrap();
            writeln!(t, "Eval vm_compute in bad.").unwrap();
            let name = format!("{}_cases_{}.v", prop, s);
            std::fs::write(self.dir.join(&name), t).unwrap();
            report.case_files.push(name);
            report.cases_per_file.push((hi - lo) as u64);
        }
    }
    pub fn write_replay(&self, name: &str, body: &str) -> String {
        let p = self.dir.join("replays").join(name);
        std::fs::write(&p, body).unwrap();
        p.to_string_lossy().to_string()
    }
    pub fn finish(&self, report: &Report) {
        std::fs::write(self.dir.join("report.json"), serde_json::to_string_pretty(report).unwrap()).unwrap();
    }
}

/// run a closure catching panics (a panic inside a handler aborts the call like an error)
pub fn catch<T>(f: impl FnOnce() -> T) -> Result<T, String> {
    let prev = std::panic::take_hook();
    std::panic::set_hook(Box::new(|_| {}));
    let r = std::panic::catch_unwind(std::panic::AssertUnwindSafe(f));
    std::panic::set_hook(prev);
    r.map_err(|e| {
        if let Some(s) = e.downcast_ref::<String>() {
            format!("panic: {}", s)
        } else if let Some(s) = e.downcast_ref::<&str>() {
            format!("panic: {}", s)
        } else {
            "panic".to_string()
        }
    })
}

/// Every integer literal occurring in the given source files of /repo (relative paths),
/// test modules excluded.  Generators add them (and neighbours) to their value pools.
pub fn harvest_literals(files: &[&str]) -> Vec<u128> {
    let repo = std::env::var("VERIF_REPO").unwrap_or_else(|_| "/repo".to_string());
    let mut out = std::collections::BTreeSet::new();
    for f in files {
        let p = Path::new(&repo).join(f);
        let Ok(src) = std::fs::read_to_string(&p) else { continue };
        let src = match src.find("#[cfg(test)]") {
            Some(i) => &src[..i],
            None => &src[..],
        };
        let b = src.as_bytes();
        let mut i = 0;
        while i < b.len() {
            if b[i].is_ascii_digit() && (i == 0 || !(b[i - 1].is_ascii_alphanumeric() || b[i - 1] == b'_')) {
                let mut j = i;
                let mut digits = String::new();
                while j < b.len() && (b[j].is_ascii_digit() || b[j] == b'_') {
                    if b[j] != b'_' {
                        digits.push(b[j] as char);
                    }
                    j += 1;
                }
                if let Ok(v) = digits.parse::<u128>() {
                    out.insert(v);
                }
                i = j;
            } else {
                i += 1;
            }
        }
    }
    out.into_iter().collect()
}
