//! C15 — splits pay members in exact proportion and never more than is held.
//! Runs histories (deposits, group changes, admin changes, distributions) on the real
//! cw4-group + sg-splits, records per-step observations as Coq terms for the model
//! comparison, and evaluates the property text on the observed balances as monitors.
use crate::chain;
use crate::util::*;
use crate::w_splits::*;
use crate::Args;
use serde::{Deserialize, Serialize};
use std::collections::{BTreeMap, BTreeSet};

#[derive(Clone, Debug, Serialize, Deserialize, PartialEq, Eq, PartialOrd, Ord)]
pub enum Case {
    /// instantiate splits over an existing group with these members
    Inst { members: Vec<(String, u64)> },
    Hist(Hist),
}

const MAX_MEMBERS_DOC: usize = 25; // "more than 25" in the property text

struct StepOut {
    kind: &'static str,
    ok: bool,
}
struct Outcome {
    coq: String,
    viol: Vec<(String, String)>,
    steps: Vec<StepOut>,
    paid_something: bool,
}

type Bal = BTreeMap<(String, usize), u128>;

fn snapshot(w: &World, accounts: &[String]) -> Bal {
    let mut m = BTreeMap::new();
    for a in accounts {
        for d in 0..DENOMS.len() {
            m.insert((a.clone(), d), w.bal(a, d));
        }
    }
    m
}

fn run_inst(members: &[(String, u64)]) -> Outcome {
    let (gok, sok) = match instantiate_existing(&Some(ADMIN.to_string()), &Some(GADMIN.to_string()), members, &[]) {
        Ok(_) => (true, true),
        Err("group") => (false, false),
        Err(_) => (true, false),
    };
    Outcome {
        coq: format!("CInst {} {} {}", coq_members(members), coq_bool(gok), coq_bool(sok)),
        viol: vec![],
        steps: vec![StepOut { kind: "instantiate", ok: gok && sok }],
        paid_something: false,
    }
}

fn run_hist(h: &Hist) -> Outcome {
    let made = match h.mode {
        Mode::Existing => instantiate_existing(&h.admin, &h.gadmin, &h.members, &h.inst_funds),
        Mode::Reply => instantiate_reply(&h.admin, &h.gadmin, &h.members, &h.inst_funds),
    };
    let mut w = match made {
        Ok(w) => w,
        Err(stage) => {
            // no contract to drive: record the instantiate outcome itself
            let (gok, sok) = if stage == "group" || h.mode == Mode::Reply { (false, false) } else { (true, false) };
            return Outcome {
                coq: format!("CInst {} {} {}", coq_members(&h.members), coq_bool(gok), coq_bool(sok)),
                viol: vec![],
                steps: vec![StepOut { kind: "instantiate", ok: false }],
                paid_something: false,
            };
        }
    };
    let me = w.me();
    let mut accounts = accounts_of(h);
    accounts.push(me.clone());
    let mut viol: Vec<(String, String)> = vec![];
    let mut steps_coq = vec![];
    let mut steps = vec![];
    let mut paid_something = false;
    // ---- the harness's own ledger of what was set: never read back from the splits contract
    let mut ledger_admin: Option<String> = h.admin.clone();
    let mut ledger_members: BTreeMap<String, u64> = h.members.iter().map(|(a, x)| (resolve(a, &me), *x)).collect();
    let ledger_group = w.group.to_string();
    // coins ever sent to the splits contract (attached to its instantiation or deposited) and
    // coins members received from its distributions, per denom
    let mut ever_sent = [0u128; 4];
    let mut paid_out = [0u128; 4];
    for (d, a) in &h.inst_funds {
        ever_sent[*d] += *a;
    }
    let coins_check = |w: &World, ever_sent: &[u128; 4], paid_out: &[u128; 4], viol: &mut Vec<(String, String)>, at: String| {
        for d in 0..DENOMS.len() {
            let held = w.bal(&me, d);
            if held.saturating_add(paid_out[d]) < ever_sent[d] {
                viol.push(("C15:coins-lost".to_string(), format!("{}: {} {} were sent to the splits contract (instantiation + deposits), it holds {} and members were paid {}", at, ever_sent[d], DENOMS[d], held, paid_out[d])));
            } else if held.saturating_add(paid_out[d]) > ever_sent[d] {
                viol.push(("C15:coins-created".to_string(), format!("{}: {} {} were sent to the splits contract, it holds {} and members were paid {}", at, ever_sent[d], DENOMS[d], held, paid_out[d])));
            }
            for (who, a) in [("the cw4 group", w.group.as_str()), ("the other cw4 group", w.decoy.as_str())] {
                let x = w.bal(a, d);
                if x != 0 {
                    viol.push(("C15:group-holds-coins".to_string(), format!("{}: {} ({}) holds {} {}", at, who, a, x, DENOMS[d])));
                }
            }
        }
    };
    coins_check(&w, &ever_sent, &paid_out, &mut viol, format!("right after instantiating with {:?}", h.inst_funds));
    let used0: BTreeSet<usize> = h.ops.iter().filter_map(|o| if let Op::Deposit { denom, .. } = o { Some(*denom) } else { None }).chain(h.inst_funds.iter().map(|(d, _)| *d)).collect();
    let mut bal0: Vec<String> = vec![];
    for d in used0.iter() {
        bal0.push(format!("({}, {}, {})", SELF_ID, denom_id(*d), w.bal(&me, *d)));
        bal0.push(format!("(6, {}, {})", denom_id(*d), w.bal(w.group.as_str(), *d)));
        bal0.push(format!("(7, {}, {})", denom_id(*d), w.bal(w.decoy.as_str(), *d)));
        for a in accounts.iter().filter(|a| **a != me) {
            bal0.push(format!("({}, {}, {})", addr_id(a), denom_id(*d), w.bal(a, *d)));
        }
    }
    for (i, op) in h.ops.iter().enumerate() {
        // a migration's stored cw2 info is written by the harness before the step proper
        let mut cw2_now = (String::new(), String::new());
        let op_run = match op {
            Op::Migrate { who, stored } => {
                if let Some((n, ver)) = stored {
                    crate::w_migrate::set_cw2(&mut w.app, &w.splits.clone(), n, ver);
                }
                cw2_now = crate::w_migrate::get_cw2(&w.app, &w.splits);
                Op::Migrate { who: who.clone(), stored: None }
            }
            other => other.clone(),
        };
        // ---- before
        let raw_before = crate::w_migrate::raw_storage(&w.app, &w.splits);
        let before = snapshot(&w, &accounts);
        let dig_s = chain::storage_digest(&w.app, &w.splits);
        let dig_g = chain::storage_digest(&w.app, &w.group);
        let members_before: Vec<(String, u64)> = ledger_members.iter().map(|(a, x)| (a.clone(), *x)).collect();
        assert_eq!(members_before, w.group_members(), "harness ledger of the group differs from the cw4 group it drives");
        let admin_before = ledger_admin.clone();
        let handler = match op {
            Op::Distribute { sender, denoms } => Some(w.handler_distribute(&resolve(sender, &me), denoms)),
            _ => None,
        };
        // ---- the step
        let r = w.apply(&op_run);
        let ok = r.is_ok();
        // ---- ledger: what the accepted operation set, by the rules of cw4 / the admin hand-over
        match op {
            Op::UpdateMembers { sender, adds, rems } if ok && Some(resolve(sender, &me)) == h.gadmin => {
                for (a, x) in adds {
                    ledger_members.insert(resolve(a, &me), *x);
                }
                for a in rems {
                    ledger_members.remove(&resolve(a, &me));
                }
            }
            Op::UpdateAdmin { sender, new_admin } if ok && Some(resolve(sender, &me)) == ledger_admin => {
                ledger_admin = new_admin.clone();
            }
            _ => {}
        }
        // ---- after
        let after = snapshot(&w, &accounts);
        if let Op::Deposit { denom, amt } = op {
            ever_sent[*denom] += *amt;
        }
        if let (true, Op::Distribute { .. }) = (ok, op) {
            for d in 0..DENOMS.len() {
                for a in accounts.iter().filter(|a| **a != me) {
                    paid_out[d] += after[&(a.clone(), d)].saturating_sub(before[&(a.clone(), d)]);
                }
            }
        }
        coins_check(&w, &ever_sent, &paid_out, &mut viol, format!("after step {} {:?}", i, op));
        let page = w.splits_page();
        let total = w.group_total();
        let admin_after = w.splits_admin();

        // ---- monitors (property text; documented numbers; nothing shared with the model)
        let mut v = |key: &str, what: String| viol.push((format!("C15:{}", key), format!("step {} {:?}: {}", i, op, what)));
        // whatever happened, the contract must still say what the ledger says
        if admin_after != ledger_admin {
            v("admin-differs-from-ledger", format!("splits Admin{{}} answers {:?}, the admin that was set is {:?}", admin_after, ledger_admin));
        }
        let group_after = w.splits_group();
        if group_after.as_deref() != Some(ledger_group.as_str()) {
            v("group-differs-from-ledger", format!("splits Group{{}} answers {:?}, the group it was given is {}", group_after, ledger_group));
        }
        let ledger_page: Vec<(String, u64)> = ledger_members.iter().take(30).map(|(a, x)| (a.clone(), *x)).collect();
        if page != ledger_page {
            v("members-differ-from-ledger", format!("splits ListMembers answers {:?}, the group holds {:?}", page, ledger_page));
        }
        if let Op::Migrate { who, .. } = op {
            // a migration moves no funds and touches neither the group reference nor the admin
            if before != after {
                v("migrate-moved-coins", format!("balances changed during a migration by {}", who));
            }
            let raw_after = crate::w_migrate::raw_storage(&w.app, &w.splits);
            let moved: BTreeSet<String> = raw_before
                .keys()
                .chain(raw_after.keys())
                .filter(|k| raw_before.get(*k) != raw_after.get(*k) && k.as_slice() != b"contract_info")
                .map(|k| String::from_utf8_lossy(k).to_string())
                .collect();
            if !moved.is_empty() {
                v("migrate-changed-state", format!("storage keys {:?} changed during a migration", moved));
            }
            if ok && resolve(who, &me) != WASM_ADMIN {
                v("migrate-by-non-admin", format!("{} is not the contract's wasm admin", who));
            }
        }
        if !ok {
            if before != after {
                v("rejected-but-coins-moved", "a refused call changed balances".into());
            }
            if dig_s != chain::storage_digest(&w.app, &w.splits) || dig_g != chain::storage_digest(&w.app, &w.group) {
                v("rejected-but-state-changed", "a refused call changed contract storage".into());
            }
        }
        // the contract never creates or loses coins: per denom, the tracked total moves only by deposits
        for d in 0..DENOMS.len() {
            let sum = |b: &Bal| accounts.iter().map(|a| b[&(a.clone(), d)]).fold(0u128, |x, y| x.saturating_add(y));
            let dep = match op {
                Op::Deposit { denom, amt } if *denom == d => *amt,
                _ => 0,
            };
            if sum(&after) != sum(&before).saturating_add(dep) {
                v("coins-not-conserved", format!("denom {}: total {} -> {} (deposit {})", DENOMS[d], sum(&before), sum(&after), dep));
            }
        }
        if let Op::Distribute { sender, denoms } = op {
            let sender = resolve(sender, &me);
            let wsum: u128 = members_before.iter().map(|(_, x)| *x as u128).sum();
            let n = members_before.len();
            let entitled = match &admin_before {
                Some(a) => *a == sender,
                None => members_before.iter().any(|(a, _)| *a == sender),
            };
            let considered: BTreeSet<usize> = match denoms {
                Some(v) => v.iter().cloned().collect(),
                None => (0..DENOMS.len()).collect(),
            };
            let held = |d: usize| before[&(me.clone(), d)];
            let mult = |d: usize| if wsum == 0 { 0 } else { held(d) / wsum };
            let something = considered.iter().any(|d| mult(*d) >= 1);
            let dup_paying = match denoms {
                Some(v) => considered.iter().any(|d| mult(*d) >= 1 && v.iter().filter(|x| *x == d).count() > 1),
                None => false,
            };
            let self_weight = members_before.iter().find(|(x, _)| *x == me).map(|(_, x)| *x).unwrap_or(0);
            if ok && dup_paying && self_weight > 0 {
                // the one shape in which a duplicated denom does not exhaust the balance: the
                // contract's own share flows back to it (reported under its own key)
                paid_something = true;
                let over = accounts.iter().filter(|a| **a != me).any(|a| {
                    let wt = members_before.iter().find(|(x, _)| x == a).map(|(_, x)| *x as u128).unwrap_or(0);
                    considered.iter().any(|d| after[&(a.clone(), *d)].wrapping_sub(before[&(a.clone(), *d)]) != wt * mult(*d))
                });
                if over {
                    v("self-member-duplicate-denom", format!("the contract is a member of its own group (weight {}) and a denom is listed twice: members received more than weight x floor(balance/total)", self_weight));
                }
            } else if ok {
                paid_something = true;
                if !entitled {
                    v("accepted-not-entitled", format!("sender {} is neither the admin nor (without admin) a member", sender));
                }
                if wsum == 0 {
                    v("accepted-zero-weight", "group has no weight".into());
                }
                if n == 0 || n > MAX_MEMBERS_DOC {
                    v("accepted-group-size", format!("group has {} members", n));
                }
                if !something {
                    v("accepted-nothing-to-distribute", "no listed denom holds at least the total weight".into());
                }
                for d in 0..DENOMS.len() {
                    let k = if considered.contains(&d) { mult(d) } else { 0 };
                    let mut total_paid: u128 = 0;
                    for a in accounts.iter().filter(|a| **a != me) {
                        let wt = members_before.iter().find(|(x, _)| x == a).map(|(_, x)| *x as u128).unwrap_or(0);
                        let got = after[&(a.clone(), d)].wrapping_sub(before[&(a.clone(), d)]);
                        total_paid = total_paid.saturating_add(got);
                        match wt.checked_mul(k) {
                            Some(want) if want == got => {}
                            _ => v("wrong-share", format!("{} weight {} of {} holding {} {}: received {}, expected weight x floor(balance/total) = {} x {}", a, wt, wsum, held(d), DENOMS[d], got, wt, k)),
                        }
                    }
                    if total_paid > held(d) {
                        v("overpaid", format!("paid {} of {} held {}", total_paid, DENOMS[d], held(d)));
                    }
                    let self_w = members_before.iter().find(|(x, _)| *x == me).map(|(_, x)| *x as u128).unwrap_or(0);
                    let left = after[&(me.clone(), d)];
                    if considered.contains(&d) && wsum > 0 && self_w == 0 && left >= wsum {
                        v("remainder-not-below-total-weight", format!("{} left {} with total weight {}", DENOMS[d], left, wsum));
                    }
                    if wsum > 0 && left != held(d) - (wsum - self_w) * k {
                        v("wrong-remainder", format!("{}: held {}, left {}, expected {}", DENOMS[d], held(d), left, held(d) - (wsum - self_w) * k));
                    }
                }
            } else if entitled && wsum > 0 && n >= 1 && n <= MAX_MEMBERS_DOC && something && !dup_paying {
                v("refused-valid-distribution", format!("entitled sender {}, {} members, total weight {}, funds present: {}", sender, n, wsum, r.as_ref().unwrap_err()));
            }
        }
        drop(v);

        // ---- observation for the model
        let msgs = match &handler {
            None => "None".to_string(),
            Some(Err(_)) => "(Some Err)".to_string(),
            Some(Ok(ms)) => {
                let mut ms: Vec<(u64, u64, u128)> = ms
                    .iter()
                    .map(|(to, d, a)| if to.starts_with("UNCLASSIFIED") { (0, 0, 0) } else { (addr_id(to), denom_id(*d), *a) })
                    .collect();
                ms.sort();
                format!("(Some (Ok {}))", coq_list(&ms.iter().map(|(t, d, a)| format!("Send {} {} {}", t, d, a)).collect::<Vec<_>>()))
            }
        };
        let used: BTreeSet<usize> = used0.clone();
        let bals = coq_list(
            &after.iter().filter(|((_, d), _)| used.contains(d)).map(|((a, d), x)| format!("({}, {}, {})", addr_id(a), denom_id(*d), x)).collect::<Vec<_>>(),
        );
        let obs = format!("(mkObs {} {} {} {} {} {})", coq_bool(ok), msgs, bals, coq_members(&page), total, coq_opt_addr(&admin_after));
        steps_coq.push(match op {
            Op::Migrate { who, .. } => format!("SMig {} {} {} {}", addr_id(who), coq_string(&cw2_now.0), coq_string(&cw2_now.1), obs),
            _ => format!("SOp ({}) {}", coq_op(op), obs),
        });
        steps.push(StepOut {
            kind: match op {
                Op::Deposit { .. } => "deposit",
                Op::UpdateMembers { .. } => "update_members",
                Op::UpdateAdmin { .. } => "update_admin",
                Op::Distribute { denoms: Some(_), .. } => "distribute_explicit",
                Op::Distribute { denoms: None, .. } => "distribute_all",
                Op::Migrate { .. } => "migrate",
            },
            ok,
        });
    }
    Outcome {
        coq: format!(
            "CHistF {} {} {} {} {} {} {} {}",
            SELF_ID,
            addr_id(WASM_ADMIN),
            coq_opt_addr(&h.admin),
            coq_opt_addr(&h.gadmin),
            coq_members(&h.members),
            coq_list(&h.inst_funds.iter().map(|(d, a)| format!("mkCoin {} {}", denom_id(*d), a)).collect::<Vec<_>>()),
            coq_list(&bal0),
            coq_list(&steps_coq)
        ),
        viol,
        steps,
        paid_something,
    }
}

fn coq_string(s: &str) -> String {
    format!("\"{}\"%string", s.replace('"', "\"\""))
}

fn run_case(c: &Case) -> Outcome {
    match c {
        Case::Inst { members } => run_inst(members),
        Case::Hist(h) => run_hist(h),
    }
}

/// drop ops one at a time while the same violation key still shows
fn shrink(h: &Hist, key: &str) -> Hist {
    let mut cur = h.clone();
    let mut i = cur.ops.len();
    while i > 0 {
        i -= 1;
        let mut t = cur.clone();
        t.ops.remove(i);
        if run_hist(&t).viol.iter().any(|(k, _)| k == key) {
            cur = t;
        }
    }
    cur
}

// ---------------- generators ----------------
fn mem(i: u64, w: u64) -> (String, u64) {
    (member_name(i), w)
}
fn group_of(n: u64, wf: impl Fn(u64) -> u64) -> Vec<(String, u64)> {
    (0..n).map(|i| mem(i, wf(i))).collect()
}
fn some(s: &str) -> Option<String> {
    Some(s.to_string())
}
fn dist(sender: &str, denoms: Option<Vec<usize>>) -> Op {
    Op::Distribute { sender: sender.to_string(), denoms }
}
fn dep(denom: usize, amt: u128) -> Op {
    Op::Deposit { denom, amt }
}
fn upd(adds: Vec<(String, u64)>, rems: Vec<String>) -> Op {
    Op::UpdateMembers { sender: GADMIN.to_string(), adds, rems }
}
fn hist(mode: Mode, admin: Option<String>, members: Vec<(String, u64)>, ops: Vec<Op>) -> Case {
    Case::Hist(Hist { mode, admin, gadmin: some(GADMIN), members, ops, inst_funds: vec![] })
}
fn total(ms: &[(String, u64)]) -> u128 {
    ms.iter().map(|(_, w)| *w as u128).sum()
}


/// the workspace version of the tree under test (splits uses `version.workspace = true`)
fn workspace_version() -> String {
    let repo = std::env::var("VERIF_REPO").unwrap_or_else(|_| "/repo".to_string());
    let txt = std::fs::read_to_string(format!("{}/Cargo.toml", repo)).expect("workspace Cargo.toml");
    let mut in_pkg = false;
    for l in txt.lines() {
        let t = l.trim();
        if t.starts_with('[') {
            in_pkg = t == "[workspace.package]";
        } else if in_pkg && t.starts_with("version") {
            return t.split('"').nth(1).expect("version string").to_string();
        }
    }
    panic!("workspace version not found")
}
const SPLITS_NAME: &str = "crates.io:sg-splits";
fn migr(who: &str, stored: Option<(&str, &str)>) -> Op {
    Op::Migrate { who: who.to_string(), stored: stored.map(|(n, v)| (n.to_string(), v.to_string())) }
}
/// stored cw2 pairs for a migration: accepted ones (older, equal) and refused ones
fn stored_pool(code: &str) -> Vec<Option<(String, String)>> {
    let sv = semver::Version::parse(code).expect("code version");
    let own = |v: String| Some((SPLITS_NAME.to_string(), v));
    vec![
        None,
        own(code.to_string()),
        own(format!("{}.{}.{}", sv.major, sv.minor.saturating_sub(1), 9)),
        own("3.9.0".to_string()),
        own("0.1.0".to_string()),
        own("2.4.0".to_string()),
        own(format!("{}.{}.{}", sv.major, sv.minor, sv.patch + 1)), // refused: newer
        own(format!("{}.0.0", sv.major + 1)),                       // refused: newer
        own("3.16".to_string()),                                     // refused: not a version
        Some(("crates.io:sg-minter".to_string(), "3.0.0".to_string())), // refused: foreign identity
        Some(("crates.io:cw4-group".to_string(), code.to_string())),
    ]
}

/// histories in which migrations sit between funding, group changes, admin changes and
/// distributions, on both instantiate paths
fn migration_corpus(code: &str) -> Vec<Case> {
    let mut c = vec![];
    let g3 = vec![mem(1, 50), mem(2, 30), mem(3, 20)];
    let older = (SPLITS_NAME, "3.9.0");
    let newer_s = {
        let sv = semver::Version::parse(code).unwrap();
        format!("{}.{}.{}", sv.major, sv.minor + 1, 0)
    };
    for mode in [Mode::Existing, Mode::Reply] {
        // admin set: a migration must not open distribution to members, nor move a coin
        c.push(hist(mode, some(ADMIN), g3.clone(), vec![
            dep(2, 1000), migr(WASM_ADMIN, Some(older)), dist(&member_name(1), None), dist(STRANGER, None), dist(ADMIN, None),
            dep(2, 555), migr(WASM_ADMIN, Some((SPLITS_NAME, code))), dist(&member_name(2), Some(vec![2])), dist(ADMIN, Some(vec![2])),
        ]));
        // no admin: members keep the right, outsiders do not get it
        c.push(hist(mode, None, g3.clone(), vec![
            dep(2, 1000), migr(WASM_ADMIN, Some((SPLITS_NAME, "0.1.0"))), dist(STRANGER, None), dist(ADMIN, None), dist(&member_name(3), None),
            dep(0, 321), migr(WASM_ADMIN, None), dist(&member_name(1), None),
        ]));
        // who may migrate, and refused stored pairs: nothing moves either way
        c.push(hist(mode, some(ADMIN), g3.clone(), vec![
            dep(2, 1000), migr(STRANGER, Some(older)), migr(GADMIN, Some(older)), migr(&member_name(1), Some(older)), migr(ADMIN2, None),
            migr(WASM_ADMIN, Some((SPLITS_NAME, &newer_s))), migr(WASM_ADMIN, Some(("crates.io:sg-minter", "3.0.0"))), migr(WASM_ADMIN, Some((SPLITS_NAME, "x.y.z"))),
            dist(ADMIN, None), migr(WASM_ADMIN, Some((SPLITS_NAME, "2.4.0"))), dep(2, 77), dist(ADMIN, None),
        ]));
        // group changes around a migration: shares follow the CURRENT weights
        c.push(hist(mode, some(ADMIN), g3.clone(), vec![
            dep(2, 1000), upd(vec![mem(1, 1), mem(4, 9)], vec![member_name(2)]), migr(WASM_ADMIN, Some(older)), dist(ADMIN, None),
            upd(vec![mem(2, 5)], vec![]), dep(2, 1000), migr(WASM_ADMIN, Some((SPLITS_NAME, code))), dist(ADMIN, None),
            upd(vec![], vec![member_name(1), member_name(4)]), migr(WASM_ADMIN, None), dep(1, 50), dist(ADMIN, Some(vec![1, 2])),
        ]));
        // admin hand-over / renounce around a migration
        c.push(hist(mode, some(ADMIN), g3.clone(), vec![
            dep(2, 600), Op::UpdateAdmin { sender: ADMIN.into(), new_admin: some(ADMIN2) }, migr(WASM_ADMIN, Some(older)),
            dist(ADMIN, None), dist(&member_name(1), None), dist(ADMIN2, None),
            dep(2, 600), Op::UpdateAdmin { sender: ADMIN2.into(), new_admin: None }, migr(WASM_ADMIN, Some((SPLITS_NAME, "3.0.0"))),
            dist(ADMIN2, None), dist(&member_name(2), None),
        ]));
        // group sizes at the cap and the decoy's members as senders
        c.push(hist(mode, some(ADMIN), group_of(25, |i| i % 3), vec![
            dep(2, 5000), migr(WASM_ADMIN, Some(older)), dist(ADMIN2, None), dist(ADMIN, None),
            upd(vec![mem(25, 1)], vec![]), migr(WASM_ADMIN, None), dep(2, 5000), dist(ADMIN, None),
        ]));
    }
    c
}


/// splits instantiated with coins attached (none / one denom / two denoms) on both paths,
/// then the usual life: the attached coins are a deposit like any other
fn funded_corpus(code: &str) -> Vec<Case> {
    let mut c = vec![];
    let g3 = vec![mem(1, 50), mem(2, 30), mem(3, 20)];
    let fundsets: Vec<Vec<(usize, u128)>> = vec![vec![], vec![(2, 479)], vec![(1, 777), (2, 479)], vec![(0, 99)], vec![(3, 100), (0, 101), (2, 1_000_000)]];
    for mode in [Mode::Existing, Mode::Reply] {
        for f in &fundsets {
            for admin in [some(ADMIN), None] {
                let who = if admin.is_some() { ADMIN.to_string() } else { member_name(2) };
                let mut h = Hist {
                    mode,
                    admin: admin.clone(),
                    gadmin: some(GADMIN),
                    members: g3.clone(),
                    ops: vec![
                        dist(&who, None),
                        dist(&who, None),
                        dep(2, 1021),
                        migr(WASM_ADMIN, Some((SPLITS_NAME, "3.9.0"))),
                        dist(&who, Some(vec![2, 1])),
                        upd(vec![mem(4, 7)], vec![member_name(1)]),
                        dep(0, 58),
                        dist(&who, None),
                        migr(WASM_ADMIN, Some((SPLITS_NAME, code))),
                        dist(&who, None),
                    ],
                    inst_funds: f.clone(),
                };
                c.push(Case::Hist(h.clone()));
                // a single member group and the cap
                h.members = vec![mem(1, 1)];
                h.ops.truncate(3);
                c.push(Case::Hist(h));
            }
        }
        c.push(Case::Hist(Hist { mode, admin: some(ADMIN), gadmin: some(GADMIN), members: group_of(25, |i| i + 1), ops: vec![dist(ADMIN, None), dep(2, 5), dist(ADMIN, None)], inst_funds: vec![(2, 324), (1, 650)] }));
    }
    c
}

fn corpus() -> Vec<Case> {
    let mut c = vec![];
    // the repo's own test shape: three members, one denom
    let g3 = vec![mem(1, 50), mem(2, 30), mem(3, 20)];
    c.push(hist(Mode::Existing, some(ADMIN), g3.clone(), vec![dep(2, 1000), dist(ADMIN, None), dep(2, 99), dist(ADMIN, None), dep(2, 1), dist(ADMIN, None)]));
    c.push(hist(Mode::Reply, some(ADMIN), g3.clone(), vec![dep(2, 1234), dep(0, 777), dist(ADMIN, Some(vec![2])), dist(ADMIN, None)]));
    // duplicated denom in an explicit list: sends exceed the balance, everything reverts
    c.push(hist(Mode::Existing, some(ADMIN), g3.clone(), vec![dep(2, 1000), dist(ADMIN, Some(vec![2, 2])), dist(ADMIN, Some(vec![2]))]));
    c.push(hist(Mode::Existing, some(ADMIN), g3.clone(), vec![dep(2, 1000), dep(1, 50), dist(ADMIN, Some(vec![1, 1, 2])), dist(ADMIN, Some(vec![2, 1, 2]))]));
    // zero-weight members get nothing but may trigger a distribution when no admin is set
    let gz = vec![mem(1, 0), mem(2, 7), mem(3, 0), mem(4, 1)];
    c.push(hist(Mode::Existing, None, gz.clone(), vec![dep(2, 100), dist(STRANGER, None), dist(ADMIN, None), dist(&member_name(1), None)]));
    c.push(hist(Mode::Existing, some(ADMIN), gz.clone(), vec![dep(2, 100), dist(&member_name(2), None), dist(ADMIN2, None), dist(ADMIN, None)]));
    // the contract itself as a member
    c.push(hist(Mode::Existing, some(ADMIN), vec![(SELF.to_string(), 3), mem(1, 5)], vec![dep(0, 83), dist(ADMIN, None), dist(ADMIN, None)]));
    c.push(hist(Mode::Reply, None, vec![(SELF.to_string(), 1), mem(1, 1)], vec![dep(3, 9), dist(SELF, None), dist(&member_name(1), Some(vec![3]))]));
    // known finding: the contract in its own group + a denom listed twice => the duplicated sends go through
    c.push(hist(Mode::Existing, some(ADMIN), vec![(SELF.to_string(), 1), mem(1, 1)], vec![dep(2, 10), dist(ADMIN, Some(vec![2, 2]))]));
    // admin hand-over and renounce
    c.push(hist(
        Mode::Existing,
        some(ADMIN),
        g3.clone(),
        vec![
            dep(2, 500),
            Op::UpdateAdmin { sender: STRANGER.into(), new_admin: some(STRANGER) },
            Op::UpdateAdmin { sender: ADMIN.into(), new_admin: some(ADMIN2) },
            dist(ADMIN, None),
            dist(ADMIN2, None),
            dep(2, 500),
            Op::UpdateAdmin { sender: ADMIN2.into(), new_admin: None },
            dist(ADMIN2, None),
            dist(&member_name(3), None),
            Op::UpdateAdmin { sender: ADMIN2.into(), new_admin: some(ADMIN2) },
        ],
    ));
    // weight changes between distributions, incl. to total weight 0 and back
    c.push(hist(
        Mode::Existing,
        some(ADMIN),
        g3.clone(),
        vec![
            dep(2, 1001),
            dist(ADMIN, None),
            upd(vec![mem(1, 0), mem(2, 0), mem(3, 0)], vec![]),
            dep(2, 10),
            dist(ADMIN, None),
            upd(vec![mem(4, 3)], vec![member_name(1)]),
            dist(ADMIN, None),
            upd(vec![], vec![member_name(2), member_name(3), member_name(4)]),
            dist(ADMIN, None),
        ],
    ));
    c
}

fn boundary(rng: &mut Rng) -> Vec<Case> {
    let mut c = vec![];
    // instantiate guards over an existing group: sizes around 25 and the 30-entry page, weights
    for n in [0u64, 1, 2, 24, 25, 26, 27, 29, 30, 31, 32, 40] {
        c.push(Case::Inst { members: group_of(n, |_| 1) });
        c.push(Case::Inst { members: group_of(n, |i| if i == 0 { 0 } else { 2 }) });
        c.push(Case::Inst { members: group_of(n, |_| 0) });
    }
    c.push(Case::Inst { members: vec![mem(1, 1), mem(1, 2)] });
    c.push(Case::Inst { members: vec![mem(1, u64::MAX), mem(2, 1)] });
    c.push(Case::Inst { members: vec![mem(1, u64::MAX - 1), mem(2, 1)] });
    c.push(Case::Inst { members: vec![mem(1, u64::MAX)] });
    // distribute guards: group sizes (reply path: no check at instantiate), both list forms
    for n in [0u64, 1, 2, 24, 25, 26, 29, 30, 31, 33] {
        for (wk, wf) in [(0, Box::new(|_| 1u64) as Box<dyn Fn(u64) -> u64>), (1, Box::new(|i| (i % 3) as u64)), (2, Box::new(|_| 0u64))] {
            let ms = group_of(n, &wf);
            let w = total(&ms).max(1);
            let _ = wk;
            c.push(hist(
                Mode::Reply,
                some(ADMIN),
                ms,
                vec![dep(2, 3 * w + 1), dep(0, w - 1), dist(ADMIN, Some(vec![2, 0])), dep(0, 1), dist(ADMIN, None), dist(ADMIN, None)],
            ));
        }
    }
    // crossing the cap by group changes after instantiate: 25 -> 26 -> 25, 30 -> 31
    c.push(hist(
        Mode::Existing,
        some(ADMIN),
        group_of(25, |_| 2),
        vec![
            dep(2, 1000),
            dist(ADMIN, None),
            upd(vec![mem(25, 2)], vec![]),
            dep(2, 1000),
            dist(ADMIN, None),
            upd(vec![mem(26, 1), mem(27, 1), mem(28, 1), mem(29, 1), mem(30, 1)], vec![]),
            dist(ADMIN, None),
            upd(vec![], (24..31).map(member_name).collect()),
            dist(ADMIN, None),
            upd(vec![mem(24, 0)], vec![]),
            dep(2, 77),
            dist(ADMIN, None),
        ],
    ));
    // balances around multiples of the total weight, per denom, every list form
    for ms in [vec![mem(1, 1)], vec![mem(1, 3), mem(2, 4)], vec![mem(1, 1), mem(2, 0), mem(3, 1_000_000_007)], group_of(25, |i| i + 1)] {
        let w = total(&ms);
        for b in [w - 1, w, w + 1, 2 * w - 1, 2 * w, 2 * w + 1, 1000 * w + w / 2] {
            let other = rng.below(3 * w as u64 + 1) as u128;
            c.push(hist(
                Mode::Existing,
                some(ADMIN),
                ms.clone(),
                vec![dep(2, b), dep(1, other), dist(ADMIN, Some(vec![2])), dist(ADMIN, Some(vec![3, 2, 1, 0])), dist(ADMIN, None)],
            ));
        }
    }
    // large weights and balances: products near u128, total weight near u64
    let big = vec![mem(1, u64::MAX / 2), mem(2, u64::MAX / 2), mem(3, 1)];
    c.push(hist(Mode::Existing, some(ADMIN), big.clone(), vec![dep(2, u128::MAX / 2), dist(ADMIN, None), dep(2, u64::MAX as u128 - 1), dist(ADMIN, None), dist(ADMIN, None)]));
    c.push(hist(Mode::Existing, some(ADMIN), vec![mem(1, u64::MAX)], vec![dep(0, u128::MAX - 5), dist(ADMIN, None), dist(ADMIN, None)]));
    c.push(hist(Mode::Existing, some(ADMIN), vec![mem(1, 1), mem(2, 0)], vec![dep(0, u128::MAX - 5), dist(ADMIN, None), dep(0, 5), dist(ADMIN, None)]));
    // group total overflowing u64 through an update (rejected by the group, nothing changes)
    c.push(hist(Mode::Existing, some(ADMIN), big.clone(), vec![upd(vec![mem(4, 2)], vec![]), upd(vec![mem(3, 2), mem(4, 1)], vec![member_name(1)]), dep(2, u128::MAX / 4), dist(ADMIN, None)]));
    // every sender role, with and without an admin
    for admin in [some(ADMIN), None] {
        let ms = vec![mem(1, 2), mem(2, 0), mem(3, 5)];
        let mut ops = vec![];
        for s in [STRANGER.to_string(), GADMIN.to_string(), ADMIN2.to_string(), member_name(2), member_name(1), ADMIN.to_string(), member_name(4), SELF.to_string()] {
            ops.push(dep(2, 70));
            ops.push(dist(&s, None));
        }
        c.push(hist(Mode::Existing, admin.clone(), ms.clone(), ops.clone()));
        c.push(hist(Mode::Reply, admin, ms, ops));
    }
    // malformed / unauthorised group updates
    c.push(hist(
        Mode::Existing,
        some(ADMIN),
        vec![mem(1, 2), mem(2, 3)],
        vec![
            Op::UpdateMembers { sender: ADMIN.into(), adds: vec![mem(3, 1)], rems: vec![] },
            Op::UpdateMembers { sender: STRANGER.into(), adds: vec![], rems: vec![member_name(1)] },
            upd(vec![mem(3, 1), mem(3, 2)], vec![]),
            upd(vec![mem(3, 1)], vec![member_name(3), member_name(9), member_name(3)]),
            upd(vec![mem(5, 1), mem(4, 1), mem(1, 9)], vec![member_name(2)]),
            dep(2, 100),
            dist(ADMIN, Some(vec![])),
            dist(ADMIN, Some(vec![0, 1, 3])),
            dist(ADMIN, Some(vec![2])),
        ],
    ));
    // immutable group (no group admin)
    c.push(Case::Hist(Hist { mode: Mode::Existing, admin: None, gadmin: None, members: vec![mem(1, 1), mem(2, 2)], ops: vec![upd(vec![mem(3, 1)], vec![]), dep(3, 10), dist(&member_name(2), None)], inst_funds: vec![] }));
    c
}

fn random_hist(rng: &mut Rng, pool: &[u128], stored: &[Option<(String, String)>]) -> Case {
    let n = match rng.below(10) {
        0 => rng.range(26, 30),
        1 => 25,
        2 => 1,
        _ => rng.range(1, 25),
    };
    let wpool: [u64; 9] = [0, 1, 1, 2, 3, 10, 1000, 1_000_000_007, u64::MAX / 64];
    let mut members: Vec<(String, u64)> = (0..n).map(|i| mem(i, *rng.pick(&wpool))).collect();
    if rng.chance(1, 12) {
        members.push((SELF.to_string(), *rng.pick(&wpool)));
    }
    let mode = if n > 25 || total(&members) == 0 || rng.chance(1, 3) { Mode::Reply } else { Mode::Existing };
    let admin = if rng.chance(2, 3) { some(ADMIN) } else { None };
    let nops = rng.range(6, 16);
    let mut ops = vec![];
    let mut cur = members.clone();
    let mut cur_admin = admin.clone();
    let mut supply = [0u128; 4];
    for _ in 0..nops {
        let w = total(&cur).max(1);
        if rng.chance(1, 8) {
            let who = match rng.below(10) {
                0 => STRANGER.to_string(),
                1 => GADMIN.to_string(),
                2 => cur.get(rng.below(cur.len().max(1) as u64) as usize).map(|(a, _)| a.clone()).unwrap_or(ADMIN2.to_string()),
                _ => WASM_ADMIN.to_string(),
            };
            ops.push(Op::Migrate { who, stored: rng.pick(stored).clone() });
            continue;
        }
        match rng.below(10) {
            0..=2 => {
                let d = rng.below(4) as usize;
                let amt = match rng.below(6) {
                    0 => w - 1,
                    1 => w,
                    2 => w * rng.range(1, 50) as u128 + rng.below(w.min(u64::MAX as u128) as u64) as u128,
                    3 => *rng.pick(pool),
                    4 => rng.u128_any_size() >> 2,
                    _ => rng.below(5000) as u128,
                };
                if supply[d].checked_add(amt).map_or(false, |s| s < u128::MAX / 2) && amt > 0 {
                    supply[d] += amt;
                    ops.push(dep(d, amt));
                }
            }
            3..=4 => {
                let mut adds = vec![];
                let mut rems = vec![];
                for _ in 0..rng.below(4) {
                    let i = rng.below(32);
                    if !adds.iter().any(|(a, _): &(String, u64)| *a == member_name(i)) || rng.chance(1, 20) {
                        adds.push(mem(i, *rng.pick(&wpool)));
                    }
                }
                for _ in 0..rng.below(3) {
                    rems.push(member_name(rng.below(32)));
                }
                let sender = if rng.chance(9, 10) { GADMIN } else { STRANGER };
                ops.push(Op::UpdateMembers { sender: sender.into(), adds: adds.clone(), rems: rems.clone() });
                if sender == GADMIN {
                    // track the group for value choice only (the real group is queried by the monitors)
                    let mut names = BTreeSet::new();
                    if adds.iter().all(|(a, _)| names.insert(a.clone())) {
                        for (a, wt) in adds {
                            cur.retain(|(x, _)| *x != a);
                            cur.push((a, wt));
                        }
                        for r in rems {
                            cur.retain(|(x, _)| *x != r);
                        }
                    }
                }
            }
            5 => {
                let sender = *rng.pick(&[ADMIN, ADMIN2, STRANGER]);
                let na = match rng.below(4) {
                    0 => None,
                    1 => some(ADMIN),
                    _ => some(ADMIN2),
                };
                if rng.chance(1, 3) {
                    if cur_admin.as_deref() == Some(sender) {
                        cur_admin = na.clone();
                    }
                    ops.push(Op::UpdateAdmin { sender: sender.into(), new_admin: na });
                }
            }
            _ => {
                let a_member = cur.get(rng.below(cur.len().max(1) as u64) as usize).map(|(a, _)| a.clone()).unwrap_or(STRANGER.to_string());
                let sender = match rng.below(14) {
                    0 => STRANGER.to_string(),
                    1 => ADMIN2.to_string(),
                    2 => a_member,
                    3 => ADMIN.to_string(),
                    _ => cur_admin.clone().unwrap_or(a_member),
                };
                let denoms = match rng.below(5) {
                    0 | 1 => None,
                    2 => Some(vec![rng.below(4) as usize]),
                    3 => {
                        let mut v: Vec<usize> = (0..4).filter(|_| rng.chance(2, 3)).collect();
                        if rng.chance(1, 2) {
                            v.reverse();
                        }
                        Some(v)
                    }
                    _ => Some((0..rng.range(1, 4)).map(|_| rng.below(4) as usize).collect()),
                };
                // mostly make sure there is something to hand out in a listed denom
                if rng.chance(3, 4) {
                    let d = match &denoms {
                        Some(v) if !v.is_empty() => *rng.pick(v),
                        _ => rng.below(4) as usize,
                    };
                    let amt = w * rng.range(1, 9) as u128 + rng.below(w.min(u64::MAX as u128) as u64) as u128;
                    if supply[d].checked_add(amt).map_or(false, |s| s < u128::MAX / 2) {
                        supply[d] += amt;
                        ops.push(dep(d, amt));
                    }
                }
                ops.push(Op::Distribute { sender, denoms });
            }
        }
    }
    let inst_funds = match rng.below(6) {
        0 => vec![(rng.below(4) as usize, total(&members).max(1) * rng.range(1, 7) as u128 + rng.below(50) as u128)],
        1 => vec![(0, 1 + rng.below(5000) as u128), (2, 1 + rng.below(1_000_000) as u128)],
        _ => vec![],
    };
    Case::Hist(Hist { mode, admin, gadmin: some(GADMIN), members, ops, inst_funds })
}

fn gen_cases(a: &Args) -> Vec<Case> {
    let mut rng = Rng::new(a.seed);
    let mut pool: Vec<u128> = vec![];
    for l in harvest_literals(&["contracts/splits/src/contract.rs"]) {
        for d in [l.saturating_sub(1), l, l + 1] {
            pool.push(d);
        }
    }
    pool.extend([1u128 << 64, (1u128 << 64) - 1, (1u128 << 64) + 1, 1u128 << 100]);
    let code = workspace_version();
    let stored = stored_pool(&code);
    let mut cases = corpus();
    cases.extend(migration_corpus(&code));
    cases.extend(funded_corpus(&code));
    cases.extend(boundary(&mut rng));
    let nrand = if a.thorough() { 4000 } else { 220 };
    for _ in 0..nrand {
        cases.push(random_hist(&mut rng, &pool, &stored));
    }
    cases
}

pub fn run(a: &Args) {
    let out = OutDir::new(&a.out);
    let mut rep = Report { property: "C15".into(), tier: a.tier.clone(), seed: a.seed, ..Default::default() };
    let cases: Vec<Case> = if let Some(p) = &a.replay {
        #[derive(Deserialize)]
        struct ReplayFile {
            case: Case,
        }
        let txt = std::fs::read_to_string(p).expect("replay file");
        let rf: ReplayFile = serde_json::from_str(&txt).expect("replay json");
        vec![rf.case]
    } else {
        gen_cases(a)
    };
    let mut coq_cases = vec![];
    let mut distinct = BTreeSet::new();
    let mut nviol = 0;
    let mut seen_keys = BTreeSet::new();
    for (i, c) in cases.iter().enumerate() {
        let o = run_case(c);
        for s in &o.steps {
            rep.evaluations += 1;
            rep.bump(&format!("{}:{}", s.kind, if s.ok { "ok" } else { "err" }));
        }
        if let Case::Hist(h) = c {
            rep.bump(&format!("group_size:{}", match h.members.len() { 0 => "0", 1 => "1", 2..=24 => "2-24", 25 => "25", 26..=30 => "26-30", _ => ">30" }));
        }
        if o.paid_something {
            distinct.insert(c.clone());
        }
        for (key, what) in &o.viol {
            nviol += 1;
            if !seen_keys.insert(key.clone()) || rep.violations.len() >= 20 {
                continue;
            }
            let small = match c {
                Case::Hist(h) => Case::Hist(shrink(h, key)),
                other => other.clone(),
            };
            let body = format!(
                "{{\n \"property\": \"C15\",\n \"key\": {},\n \"case\": {},\n \"violation\": {}\n}}\n",
                serde_json::to_string(key).unwrap(),
                serde_json::to_string(&small).unwrap(),
                serde_json::to_string(what).unwrap()
            );
            let path = out.write_replay(&format!("C15-{}.json", rep.violations.len() + 1), &body);
            rep.violations.push(Violation { key: key.clone(), what: what.clone(), replay: path });
        }
        if rep.samples.len() < 3 && (i % 97 == 3 || a.replay.is_some()) {
            rep.samples.push(serde_json::json!({"case": format!("{:?}", c), "steps": o.steps.iter().map(|s| format!("{}:{}", s.kind, if s.ok {"ok"} else {"err"})).collect::<Vec<_>>()}));
        }
        coq_cases.push(o.coq);
    }
    rep.evaluations = rep.evaluations.max(coq_cases.len() as u64);
    rep.distinct_nontrivial = distinct.len() as u64;
    rep.rule = "histories over real cw4-group + sg-splits (+bank): corpus, guard-boundary probes (group sizes 0,1,24,25,26,29,30,31,33 on the instantiate and distribute paths, balances W-1/W/W+1/2W-1/2W/kW+r per denom, every sender role with and without admin, u64/u128 extremes, duplicated denoms), random histories of deposits/member updates/admin changes/distributions with explicit and implicit denom lists. evaluations = steps executed; non-trivial = distinct history in which at least one Distribute succeeded (coins actually moved).".into();
    // `evaluations` counts steps; the correspondence driver reports failures per case
    rep.notes.push(format!("{} cases (histories / instantiate probes), {} steps", coq_cases.len(), rep.evaluations));
    out.write_cases("C15", "From Coq Require Import String.\nFrom LP Require Import Splits SplitsMigrate C15Corr.", "c15_case", "c15_check", &coq_cases, 6, &mut rep);
    out.finish(&rep);
    println!("C15 harness: {} cases, {} steps, {} monitor violations", coq_cases.len(), rep.evaluations, nviol);
}
