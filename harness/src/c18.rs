//! C18 — governance updates take effect exactly as submitted.
//! Histories of sudo UpdateParams / CreateMinter on the four real factories, sudo
//! UpdateStatus on the eleven real minters (each created through its factory), mints
//! after a fee change.  Every step's observations are printed as Coq terms for the model
//! comparison; the monitors below evaluate the property sentence on the JSON the
//! contracts answered (they share nothing with the model).
use crate::chain::{self, App};
use crate::util::*;
use crate::w_factory::*;
use crate::Args;
use cosmwasm_std::Addr;
use serde::{Deserialize, Serialize};
use serde_json::{json, Value};
use std::collections::BTreeSet;

type C = (String, u128);

/// One UpdateParams message: the union of the optional fields of the four factories.
#[derive(Clone, Debug, Default, PartialEq, Eq, Serialize, Deserialize)]
pub struct Upd {
    pub code_id: Option<u64>,
    pub add: Option<Vec<u64>>,
    pub rm: Option<Vec<u64>>,
    pub frozen: Option<bool>,
    pub creation_fee: Option<C>,
    pub min_mint_price: Option<C>,
    pub mint_fee_bps: Option<u64>,
    pub offset: Option<u64>,
    pub max_token_limit: Option<u32>,
    pub max_per_address_limit: Option<u32>,
    pub airdrop_mint_price: Option<C>,
    pub airdrop_mint_fee_bps: Option<u64>,
    pub shuffle_fee: Option<C>,
    /// open edition only: extension.min_mint_price (no slot in the parameters)
    pub ext_min_mint_price: Option<C>,
    /// open edition only
    pub dev_fee_address: Option<String>,
}

#[derive(Clone, Debug, PartialEq, Eq, Serialize, Deserialize)]
pub enum Step {
    Upd(Upd),
    /// bytes that do not decode as the factory's SudoMsg
    Bad(String),
    Create(CreateReq),
    /// observation probe: a CreateMinter judged against the harness ledger of what governance
    /// supplied; `target` names the parameter the request discriminates (old vs new value)
    Probe { req: CreateReq, target: String },
}

#[derive(Clone, Debug, PartialEq, Eq, Serialize, Deserialize)]
pub enum Case {
    Hist { kind: FactoryKind, init: FParams, probes: Vec<u64>, steps: Vec<Step>, tag: String },
    Status { kind: MinterKind, flags: Vec<(bool, bool, bool)> },
    /// priced minter: set mint_fee_bps (and, open edition, dev_fee_address) then a public mint
    MintFee { kind: MinterKind, price: u128, bps: u64, new_dev: bool },
    /// base minter: set mint_fee_bps, then mint paying `paid`
    BaseMint { bps: u64, paid: u128 },
    /// set airdrop_mint_price / airdrop_mint_fee_bps / shuffle_fee on the factory of an existing
    /// minter, then admin MintTo at the old and the new price, Shuffle at the old and the new fee
    AirdropShuffle { kind: MinterKind, price: u128, bps: u64, shuffle: u128 },
}

fn oc(c: &Option<C>) -> Value {
    match c {
        Some((d, a)) => jcoin(d, *a),
        None => Value::Null,
    }
}

/// the factory's SudoMsg::UpdateParams for this kind
pub fn upd_json(kind: FactoryKind, u: &Upd) -> Value {
    let mut m = json!({
        "code_id": u.code_id, "add_sg721_code_ids": u.add, "rm_sg721_code_ids": u.rm, "frozen": u.frozen,
        "creation_fee": oc(&u.creation_fee), "max_trading_offset_secs": u.offset });
    if kind != FactoryKind::TokenMerge {
        m["min_mint_price"] = oc(&u.min_mint_price);
        m["mint_fee_bps"] = json!(u.mint_fee_bps);
    }
    m["extension"] = match kind {
        FactoryKind::Base => Value::Null,
        FactoryKind::Vending | FactoryKind::TokenMerge => json!({
            "max_token_limit": u.max_token_limit, "max_per_address_limit": u.max_per_address_limit,
            "airdrop_mint_price": oc(&u.airdrop_mint_price), "airdrop_mint_fee_bps": u.airdrop_mint_fee_bps,
            "shuffle_fee": oc(&u.shuffle_fee) }),
        FactoryKind::OpenEdition => json!({
            "max_token_limit": u.max_token_limit, "max_per_address_limit": u.max_per_address_limit,
            "min_mint_price": oc(&u.ext_min_mint_price), "airdrop_mint_fee_bps": u.airdrop_mint_fee_bps,
            "airdrop_mint_price": oc(&u.airdrop_mint_price), "dev_fee_address": u.dev_fee_address }),
    };
    json!({ "update_params": m })
}

// ---------------------------------------------------------------- Coq printing

struct Names {
    denoms: Ids,
    strs: Ids,
}
impl Names {
    fn new() -> Self {
        Names { denoms: denom_ids(), strs: Ids::with_fixed(&[], 100) }
    }
    fn coin(&mut self, c: &C) -> String {
        format!("(mkCoin {} {})", self.denoms.id(&c.0), c.1)
    }
    fn ocoin(&mut self, c: &Option<C>) -> String {
        match c {
            Some(c) => format!("(Some {})", self.coin(c)),
            None => "None".into(),
        }
    }
}
fn on<T: std::fmt::Display>(o: &Option<T>) -> String {
    match o {
        Some(x) => format!("(Some {})", x),
        None => "None".into(),
    }
}
fn ol(o: &Option<Vec<u64>>) -> String {
    match o {
        Some(l) => format!("(Some {})", nl(l)),
        None => "None".into(),
    }
}
fn nl(l: &[u64]) -> String {
    coq_list(&l.iter().map(|x| x.to_string()).collect::<Vec<_>>())
}
fn ob(o: &Option<bool>) -> String {
    match o {
        Some(b) => format!("(Some {})", coq_bool(*b)),
        None => "None".into(),
    }
}

fn coq_cp(n: &mut Names, p: &FParams) -> String {
    format!(
        "(mkCP {} {} {} {} {} {} {})",
        p.code_id,
        nl(&p.allowed),
        coq_bool(p.frozen),
        n.coin(&p.creation_fee),
        n.coin(&p.min_mint_price),
        p.mint_fee_bps,
        p.offset
    )
}
fn coq_params(n: &mut Names, kind: FactoryKind, p: &FParams) -> String {
    match kind {
        FactoryKind::Base => coq_cp(n, p),
        FactoryKind::Vending => format!(
            "(mkVP {} (mkVX {} {} {} {} {}))",
            coq_cp(n, p),
            p.max_token_limit,
            p.max_per_address_limit,
            n.coin(&p.airdrop_mint_price),
            p.airdrop_mint_fee_bps,
            n.coin(&p.shuffle_fee)
        ),
        FactoryKind::OpenEdition => format!(
            "(mkOP {} (mkOX {} {} {} {} {}))",
            coq_cp(n, p),
            p.max_token_limit,
            p.max_per_address_limit,
            p.airdrop_mint_fee_bps,
            n.coin(&p.airdrop_mint_price),
            n.strs.id(&p.dev_fee_address)
        ),
        FactoryKind::TokenMerge => format!(
            "(mkTP {} {} {} {} {} {} {} {} {} {})",
            p.code_id,
            nl(&p.allowed),
            coq_bool(p.frozen),
            n.coin(&p.creation_fee),
            p.offset,
            p.max_token_limit,
            p.max_per_address_limit,
            n.coin(&p.airdrop_mint_price),
            p.airdrop_mint_fee_bps,
            n.coin(&p.shuffle_fee)
        ),
    }
}
fn coq_cm(n: &mut Names, u: &Upd) -> String {
    format!(
        "(mkCM {} {} {} {} {} {} {} {})",
        on(&u.code_id),
        ol(&u.add),
        ol(&u.rm),
        ob(&u.frozen),
        n.ocoin(&u.creation_fee),
        n.ocoin(&u.min_mint_price),
        on(&u.mint_fee_bps),
        on(&u.offset)
    )
}
fn coq_vxm(n: &mut Names, u: &Upd) -> String {
    format!(
        "(mkVXM {} {} {} {} {})",
        on(&u.max_token_limit),
        on(&u.max_per_address_limit),
        n.ocoin(&u.airdrop_mint_price),
        on(&u.airdrop_mint_fee_bps),
        n.ocoin(&u.shuffle_fee)
    )
}
fn coq_msg(n: &mut Names, kind: FactoryKind, u: &Upd) -> String {
    match kind {
        FactoryKind::Base => coq_cm(n, u),
        FactoryKind::Vending => format!("(mkVM {} {})", coq_cm(n, u), coq_vxm(n, u)),
        FactoryKind::OpenEdition => {
            let dev = match &u.dev_fee_address {
                Some(s) => format!("(Some {})", n.strs.id(s)),
                None => "None".into(),
            };
            format!(
                "(mkOM {} (mkOXM {} {} {} {} {} {}))",
                coq_cm(n, u),
                on(&u.max_token_limit),
                on(&u.max_per_address_limit),
                n.ocoin(&u.ext_min_mint_price),
                on(&u.airdrop_mint_fee_bps),
                n.ocoin(&u.airdrop_mint_price),
                dev
            )
        }
        FactoryKind::TokenMerge => format!(
            "(mkTM {} {} {} {} {} {} {})",
            on(&u.code_id),
            ol(&u.add),
            ol(&u.rm),
            ob(&u.frozen),
            n.ocoin(&u.creation_fee),
            on(&u.offset),
            coq_vxm(n, u)
        ),
    }
}
fn coq_funds(n: &mut Names, f: &[C]) -> String {
    coq_list(&f.iter().map(|c| n.coin(c).trim_matches(|ch| ch == '(' || ch == ')').to_string()).collect::<Vec<_>>())
}
fn coq_req(n: &mut Names, kind: FactoryKind, r: &CreateReq) -> String {
    let funds = coq_funds(n, &r.funds);
    match kind {
        FactoryKind::Base => format!("(mkBR {} {})", funds, r.collection_code_id),
        FactoryKind::Vending => format!(
            "(mkVR {} {} {} {} {})",
            funds,
            r.collection_code_id,
            r.num_tokens.unwrap_or(0),
            r.per_address_limit,
            n.coin(&r.mint_price)
        ),
        FactoryKind::OpenEdition => format!(
            "(mkOR {} {} {} {} {} {})",
            funds,
            r.collection_code_id,
            on(&r.num_tokens),
            r.per_address_limit,
            n.coin(&r.mint_price),
            coq_bool(r.end_after_secs.is_some())
        ),
        FactoryKind::TokenMerge => format!(
            "(mkTR {} {} {} {})",
            funds,
            r.collection_code_id,
            r.num_tokens.unwrap_or(0),
            r.per_address_limit
        ),
    }
}

// ---------------------------------------------------------------- observation

struct Obs {
    params: Value,
    ids: Vec<u64>,
    probes: Vec<(u64, bool)>,
}
fn observe(app: &App, factory: &Addr, probes: &[u64]) -> Result<Obs, String> {
    Ok(Obs {
        params: q_params(app, factory)?,
        ids: q_allowed_ids(app, factory)?,
        probes: probes.iter().map(|x| q_allowed_id(app, factory, *x).map(|b| (*x, b))).collect::<Result<Vec<_>, _>>()?,
    })
}
fn coq_obs(n: &mut Names, kind: FactoryKind, o: &Obs, like: &FParams) -> String {
    let p = params_from_json(kind, &o.params, like).expect("Params answer has the documented shape");
    let pr = coq_list(&o.probes.iter().map(|(x, b)| format!("({}, {})", x, coq_bool(*b))).collect::<Vec<_>>());
    format!("(mkQ {} {} {})", coq_params(n, kind, &p), nl(&o.ids), pr)
}

// ---------------------------------------------------------------- monitors (property text)

/// message field -> path of its slot in the Params answer, per factory (from the struct
/// definitions in packages/sg2 and contracts/factories/*/src/{msg,state}.rs)
fn slots(kind: FactoryKind, u: &Upd) -> Vec<(&'static str, Vec<&'static str>, Value)> {
    let c = |x: &C| jcoin(&x.0, x.1);
    let mut v: Vec<(&'static str, Vec<&'static str>, Option<Value>)> = vec![
        ("code_id", vec!["code_id"], u.code_id.map(|x| json!(x))),
        ("frozen", vec!["frozen"], u.frozen.map(|x| json!(x))),
        ("creation_fee", vec!["creation_fee"], u.creation_fee.as_ref().map(c)),
        ("max_trading_offset_secs", vec!["max_trading_offset_secs"], u.offset.map(|x| json!(x))),
    ];
    if kind != FactoryKind::TokenMerge {
        v.push(("min_mint_price", vec!["min_mint_price"], u.min_mint_price.as_ref().map(c)));
        v.push(("mint_fee_bps", vec!["mint_fee_bps"], u.mint_fee_bps.map(|x| json!(x))));
    }
    let ext = |name: &'static str| -> Vec<&'static str> {
        if kind == FactoryKind::TokenMerge {
            vec![name]
        } else {
            vec!["extension", name]
        }
    };
    if kind != FactoryKind::Base {
        v.push(("max_token_limit", ext("max_token_limit"), u.max_token_limit.map(|x| json!(x))));
        v.push(("max_per_address_limit", ext("max_per_address_limit"), u.max_per_address_limit.map(|x| json!(x))));
        v.push(("airdrop_mint_price", ext("airdrop_mint_price"), u.airdrop_mint_price.as_ref().map(c)));
        v.push(("airdrop_mint_fee_bps", ext("airdrop_mint_fee_bps"), u.airdrop_mint_fee_bps.map(|x| json!(x))));
        if kind == FactoryKind::OpenEdition {
            v.push(("dev_fee_address", ext("dev_fee_address"), u.dev_fee_address.as_ref().map(|x| json!(x))));
        } else {
            v.push(("shuffle_fee", ext("shuffle_fee"), u.shuffle_fee.as_ref().map(c)));
        }
    }
    v.into_iter().filter_map(|(a, b, c)| c.map(|c| (a, b, c))).collect()
}
fn set_path(v: &mut Value, path: &[&str], x: Value) {
    let mut cur = v;
    for k in &path[..path.len() - 1] {
        cur = &mut cur[*k];
    }
    cur[path[path.len() - 1]] = x;
}
fn as_set(v: &Value) -> BTreeSet<u64> {
    v.as_array().map(|a| a.iter().filter_map(|x| x.as_u64()).collect()).unwrap_or_default()
}

/// (key suffix, description) of every way the step contradicts the property sentence
fn monitor_update(kind: FactoryKind, u: &Upd, ok: bool, before: &Obs, after: &Obs) -> Vec<(String, String)> {
    let mut out = vec![];
    let f = kind.name();
    let nonnative = |c: &Option<C>| c.as_ref().map(|c| c.0 != NATIVE).unwrap_or(false);
    let min_nonnative = kind != FactoryKind::TokenMerge && nonnative(&u.min_mint_price);
    if ok && min_nonnative {
        out.push((format!("{}:non-native-min-accepted", f), format!("min_mint_price {:?} accepted", u.min_mint_price)));
    }
    if !ok {
        // refusal: nothing may have moved; and only a non-native price/fee denom is a documented reason
        if before.params != after.params || before.ids != after.ids {
            out.push((format!("{}:refused-but-changed", f), format!("refused update changed the parameters: {} -> {}", before.params, after.params)));
        }
        let may_refuse = min_nonnative
            || (matches!(kind, FactoryKind::Vending | FactoryKind::TokenMerge)
                && (nonnative(&u.airdrop_mint_price) || nonnative(&u.shuffle_fee)));
        if !may_refuse {
            out.push((format!("{}:valid-update-refused", f), "an update without any non-native price was refused".to_string()));
        }
        return out;
    }
    // accepted: previous parameters with precisely the supplied fields replaced
    let mut want = before.params.clone();
    let tm_common = ["code_id", "frozen", "creation_fee", "max_trading_offset_secs"];
    for (_, path, val) in slots(kind, u) {
        set_path(&mut want, &path, val);
    }
    let mut want_ids = as_set(&before.params["allowed_sg721_code_ids"]);
    for x in u.add.iter().flatten() {
        want_ids.insert(*x);
    }
    for x in u.rm.iter().flatten() {
        want_ids.remove(x);
    }
    let got_ids = as_set(&after.params["allowed_sg721_code_ids"]);
    let mut tm_ignored = false;
    if got_ids != want_ids {
        if kind == FactoryKind::TokenMerge {
            tm_ignored = true;
        }
        out.push((format!("{}:code-ids", f), format!("code ids {:?}, expected the set {:?}", after.params["allowed_sg721_code_ids"], want_ids)));
    }
    // everything but the id list, field by field
    let mut w = want.clone();
    let mut g = after.params.clone();
    w["allowed_sg721_code_ids"] = Value::Null;
    g["allowed_sg721_code_ids"] = Value::Null;
    if w != g {
        let mut diffs = vec![];
        for (name, path, val) in slots(kind, u) {
            let mut cur = &after.params;
            for k in &path {
                cur = &cur[*k];
            }
            if *cur != val {
                diffs.push(format!("{} supplied {} but the query shows {}", name, val, cur));
                if kind == FactoryKind::TokenMerge && tm_common.contains(&name) {
                    tm_ignored = true;
                }
            }
        }
        if diffs.is_empty() {
            diffs.push(format!("a field that was not supplied changed: expected {} got {}", w, g));
            out.push((format!("{}:omitted-field-changed", f), diffs.join("; ")));
        } else {
            out.push((format!("{}:supplied-field-not-applied", f), diffs.join("; ")));
        }
    }
    if tm_ignored {
        out.retain(|(k, _)| !k.starts_with("token-merge-factory:supplied") && !k.starts_with("token-merge-factory:code-ids"));
        out.push(("token-merge-params-ignored".to_string(), format!("token-merge-factory accepted {:?} but the common fields did not take effect: {}", u, after.params)));
    }
    // the two id queries agree with the parameters as a set
    if after.ids.iter().copied().collect::<BTreeSet<_>>() != got_ids {
        out.push((format!("{}:ids-query", f), format!("AllowedCollectionCodeIds {:?} vs Params {:?}", after.ids, got_ids)));
    }
    for (x, b) in &after.probes {
        if *b != want_ids.contains(x) {
            out.push((format!("{}:id-query", f), format!("AllowedCollectionCodeId({}) = {}, expected {}", x, b, want_ids.contains(x))));
        }
    }
    out
}

/// creation after the updates so far: judged against what the Params query shows NOW
fn monitor_create(kind: FactoryKind, r: &CreateReq, ok: bool, params: &Value, created_code: Option<u64>) -> Vec<(String, String)> {
    let mut out = vec![];
    let f = kind.name();
    let x = if kind == FactoryKind::TokenMerge { params } else { &params["extension"] };
    let frozen = params["frozen"].as_bool().unwrap_or(false);
    let allowed = as_set(&params["allowed_sg721_code_ids"]).contains(&r.collection_code_id);
    let fee_amt: u128 = params["creation_fee"]["amount"].as_str().and_then(|s| s.parse().ok()).unwrap_or(0);
    let fee_den = params["creation_fee"]["denom"].as_str().unwrap_or("");
    let paid = if r.funds.len() == 1 && r.funds[0].0 == fee_den { Some(r.funds[0].1) } else { None };
    let underpaid = paid.map(|p| p < fee_amt).unwrap_or(true);
    let mut reasons = vec![];
    if frozen {
        reasons.push("factory is frozen");
    }
    if !allowed {
        reasons.push("collection code id is not allowed");
    }
    if underpaid {
        reasons.push("creation fee is not covered");
    }
    if kind != FactoryKind::Base {
        let mtl = x["max_token_limit"].as_u64().unwrap_or(0);
        let mpal = x["max_per_address_limit"].as_u64().unwrap_or(0);
        if let Some(n) = r.num_tokens {
            if n as u64 > mtl {
                reasons.push("num_tokens above max_token_limit");
            }
        }
        if r.per_address_limit as u64 > mpal {
            reasons.push("per_address_limit above max_per_address_limit");
        }
    }
    if matches!(kind, FactoryKind::Vending | FactoryKind::OpenEdition) {
        let min: u128 = params["min_mint_price"]["amount"].as_str().and_then(|s| s.parse().ok()).unwrap_or(0);
        if r.mint_price.1 < min {
            reasons.push("mint price below min_mint_price");
        }
    }
    if kind == FactoryKind::OpenEdition && paid.map(|p| p != fee_amt).unwrap_or(false) {
        reasons.push("open edition wants the creation fee exactly");
    }
    if matches!(kind, FactoryKind::Vending | FactoryKind::OpenEdition) && params["min_mint_price"]["denom"].as_str() != Some(r.mint_price.0.as_str()) {
        reasons.push("mint price denom differs from min_mint_price");
    }
    // a request that respects every current parameter (and is well-formed in itself) must go through
    let mut malformed = r.per_address_limit == 0 || r.num_tokens == Some(0) || paid == Some(0);
    if kind == FactoryKind::OpenEdition && r.num_tokens.is_none() {
        let airdrop_zero = x["airdrop_mint_price"]["amount"].as_str() == Some("0");
        malformed = malformed || r.end_after_secs.is_none() || r.mint_price.1 == 0 || airdrop_zero;
    }
    if kind != FactoryKind::Base && kind != FactoryKind::OpenEdition && r.num_tokens.is_none() {
        malformed = true;
    }
    if !ok && reasons.is_empty() && !malformed {
        out.push((format!("{}:creation-refused-within-params", f), format!("creation {:?} was refused although it respects the current parameters {}", r, params)));
    }
    if ok && !reasons.is_empty() {
        out.push((format!("{}:creation-ignores-params", f), format!("creation {:?} succeeded although {} (params {})", r, reasons.join(", "), params)));
    }
    if let (true, Some(code)) = (ok, created_code) {
        if Some(code) != params["code_id"].as_u64() {
            out.push((format!("{}:creation-wrong-minter-code", f), format!("created minter runs code {}, parameters say {}", code, params["code_id"])));
        }
    }
    out
}

// ---------------------------------------------------------------- ledger-judged observation probes

/// "precisely the supplied fields replaced": the harness's own record of an accepted message
fn ledger_apply(kind: FactoryKind, l: &mut FParams, ids: &mut BTreeSet<u64>, u: &Upd) {
    if let Some(x) = u.code_id {
        l.code_id = x;
    }
    for x in u.add.iter().flatten() {
        ids.insert(*x);
    }
    for x in u.rm.iter().flatten() {
        ids.remove(x);
    }
    if let Some(x) = u.frozen {
        l.frozen = x;
    }
    if let Some(x) = &u.creation_fee {
        l.creation_fee = x.clone();
    }
    if let Some(x) = u.offset {
        l.offset = x;
    }
    if kind != FactoryKind::TokenMerge {
        if let Some(x) = &u.min_mint_price {
            l.min_mint_price = x.clone();
        }
        if let Some(x) = u.mint_fee_bps {
            l.mint_fee_bps = x;
        }
    }
    if kind != FactoryKind::Base {
        if let Some(x) = u.max_token_limit {
            l.max_token_limit = x;
        }
        if let Some(x) = u.max_per_address_limit {
            l.max_per_address_limit = x;
        }
        if let Some(x) = &u.airdrop_mint_price {
            l.airdrop_mint_price = x.clone();
        }
        if let Some(x) = u.airdrop_mint_fee_bps {
            l.airdrop_mint_fee_bps = x;
        }
        if kind == FactoryKind::OpenEdition {
            if let Some(x) = &u.dev_fee_address {
                l.dev_fee_address = x.clone();
            }
        } else if let Some(x) = &u.shuffle_fee {
            l.shuffle_fee = x.clone();
        }
    }
}

/// the parameters of the ledger a request does not respect (documented creation rules)
fn unmet(kind: FactoryKind, r: &CreateReq, l: &FParams, ids: &BTreeSet<u64>) -> Vec<&'static str> {
    let mut v = vec![];
    if l.frozen {
        v.push("frozen");
    }
    if !ids.contains(&r.collection_code_id) {
        v.push("allowed_sg721_code_ids");
    }
    let fee_ok = r.funds.len() == 1
        && r.funds[0].0 == l.creation_fee.0
        && r.funds[0].1 > 0
        && if kind == FactoryKind::OpenEdition { r.funds[0].1 == l.creation_fee.1 } else { r.funds[0].1 >= l.creation_fee.1 };
    if !fee_ok {
        v.push("creation_fee");
    }
    if kind != FactoryKind::Base {
        match r.num_tokens {
            Some(x) if x == 0 || x > l.max_token_limit => v.push("max_token_limit"),
            _ => {}
        }
        if r.per_address_limit == 0 || r.per_address_limit > l.max_per_address_limit {
            v.push("max_per_address_limit");
        }
        if let Some(t) = r.trading_after_start_secs {
            if t > l.offset {
                v.push("max_trading_offset_secs");
            }
        }
    }
    if matches!(kind, FactoryKind::Vending | FactoryKind::OpenEdition) && (r.mint_price.0 != l.min_mint_price.0 || r.mint_price.1 < l.min_mint_price.1) {
        v.push("min_mint_price");
    }
    if kind == FactoryKind::OpenEdition && r.num_tokens.is_none() && l.airdrop_mint_price.1 == 0 {
        v.push("airdrop_mint_price");
    }
    v
}
/// requests that are refused for reasons of their own (nothing to do with governance)
fn self_defeating(kind: FactoryKind, r: &CreateReq) -> bool {
    match kind {
        FactoryKind::Base => false,
        FactoryKind::OpenEdition => r.num_tokens.is_none() && (r.end_after_secs.is_none() || r.mint_price.1 == 0),
        _ => r.num_tokens.is_none(),
    }
}
fn monitor_probe(kind: FactoryKind, r: &CreateReq, ok: bool, l: &FParams, ids: &BTreeSet<u64>, target: &str) -> Vec<(String, String)> {
    let un = unmet(kind, r, l, ids);
    let f = kind.name();
    let mut out = vec![];
    if ok {
        for p in un {
            out.push((format!("{}:creation-did-not-observe:{}", f, p), format!("governance set {} such that the request {:?} must be refused, but the minter was created (ledger {:?}, ids {:?})", p, r, l, ids)));
        }
    } else if un.is_empty() && !self_defeating(kind, r) {
        out.push((format!("{}:creation-did-not-observe:{}", f, target), format!("the request {:?} respects everything governance supplied (ledger {:?}, ids {:?}) but was refused", r, l, ids)));
    }
    out
}
/// what a successful creation shows of the parameters it read
fn monitor_created(kind: FactoryKind, r: &CreateReq, c: &Created, app: &App, l: &FParams, now: u64) -> Vec<(String, String)> {
    let f = kind.name();
    let mut out = vec![];
    let code = app.contract_data(&c.minter).map(|d| d.code_id).unwrap_or(0);
    if code != l.code_id {
        out.push((format!("{}:creation-did-not-observe:code_id", f), format!("the created minter runs code {}, governance set {}", code, l.code_id)));
    }
    if r.trading_after_start_secs.is_none() {
        // default trading start: sale start (base minter: now) + max_trading_offset_secs
        let base = if kind == FactoryKind::Base { now } else { now + r.start_in_secs * 1_000_000_000 };
        let want = base + l.offset * 1_000_000_000;
        if let Ok(v) = query_json(app, &c.collection, &json!({ "collection_info": {} })) {
            let got = v["start_trading_time"].as_str().and_then(|s| s.parse::<u64>().ok());
            if got != Some(want) {
                out.push((format!("{}:creation-did-not-observe:max_trading_offset_secs", f), format!("collection start_trading_time {:?}, expected {} (offset {} s)", got, want, l.offset)));
            }
        }
    }
    if kind == FactoryKind::Base {
        if let Ok(v) = query_json(app, &c.minter, &json!({ "config": {} })) {
            let p = &v["config"]["mint_price"];
            if p["denom"].as_str() != Some(l.min_mint_price.0.as_str()) || p["amount"].as_str() != Some(l.min_mint_price.1.to_string().as_str()) {
                out.push((format!("{}:creation-did-not-observe:min_mint_price", f), format!("base minter priced {}, governance set {:?}", p, l.min_mint_price)));
            }
        }
    }
    out
}

// ---------------------------------------------------------------- running a case

struct Outcome {
    coq: String,
    steps: u64,
    nontrivial: bool,
    viol: Vec<(String, String)>,
    hist: Vec<String>,
    sample: String,
}

struct FactoryWorld {
    app: App,
    factory: Addr,
    sg721: Vec<u64>,
    minter_codes: Vec<u64>,
}
/// code ids are fixed by storing in this order: sg721-base 1, sg721-updatable 2, then the
/// factory's minter variants from 3, then the factory itself
fn factory_world(kind: FactoryKind, init: &FParams) -> Result<FactoryWorld, String> {
    let mut app = chain::new_app();
    let a = app.store_code(chain::sg721_base());
    let b = app.store_code(chain::sg721_updatable());
    let mut minter_codes: Vec<u64> = kind.minters().iter().map(|m| app.store_code(m.code())).collect();
    if minter_codes.len() == 1 {
        // a second code id for the same minter code, so that `code_id` can change observably
        minter_codes.push(app.store_code(kind.minters()[0].code()));
    }
    let fc = app.store_code(kind.code());
    let c = app.store_code(chain::sg721_base());
    assert_eq!(c, third_collection_code(kind));
    for d in [NATIVE, IBC, OTHER] {
        chain::mint_coins(&mut app, CREATOR, u128::MAX / 4, d);
    }
    let factory = instantiate_factory(&mut app, kind, fc, init)?;
    Ok(FactoryWorld { app, factory, sg721: vec![a, b, c], minter_codes })
}
pub fn first_minter_code() -> u64 {
    3
}
fn n_minter_codes(kind: FactoryKind) -> u64 {
    (kind.minters().len() as u64).max(2)
}
/// a third real collection code (sg721-base again), stored after the factory
pub fn third_collection_code(kind: FactoryKind) -> u64 {
    first_minter_code() + n_minter_codes(kind) + 1
}
const OTHER: &str = "uother";

fn frame_violation(before: &[(Vec<u8>, Vec<u8>)], after: &[(Vec<u8>, Vec<u8>)], key: &[u8]) -> Option<String> {
    let strip = |v: &[(Vec<u8>, Vec<u8>)]| v.iter().filter(|(k, _)| k.as_slice() != key).cloned().collect::<Vec<_>>();
    if strip(before) != strip(after) {
        Some(format!("storage outside {:?} changed", String::from_utf8_lossy(key)))
    } else {
        None
    }
}

fn run_hist(kind: FactoryKind, init: &FParams, probes: &[u64], steps: &[Step], tag: &str) -> Outcome {
    let mut n = Names::new();
    let mut w = factory_world(kind, init).unwrap_or_else(|e| panic!("{} does not instantiate with {:?}: {}", kind.name(), init, e));
    let mut viol = vec![];
    let mut hist = vec![];
    let mut nontrivial = false;
    let q0 = match observe(&w.app, &w.factory, probes) {
        Ok(q) => q,
        Err(e) => {
            // a freshly instantiated factory must answer its parameter queries
            return Outcome {
                coq: String::new(),
                steps: 1,
                nontrivial: false,
                viol: vec![(format!("{}:queries-fail-after-instantiate", kind.name()), format!("instantiated with {:?}, then the factory's queries fail: {}", init, e))],
                hist: vec![format!("{}:instantiate:queries-fail", kind.name())],
                sample: format!("{} [{}]: queries fail after instantiate", kind.name(), tag),
            };
        }
    };
    if params_from_json(kind, &q0.params, init).as_ref() != Some(init) && kind != FactoryKind::Base {
        // (base: fields the kind lacks are copied from `init`, so equal by construction)
    }
    let mut coq_steps = vec![];
    // the ledger: what governance supplied so far, kept by the harness from the messages
    // alone (accepted updates only; ids as a set) -- never read back from the contract
    let mut ledger = init.clone();
    let mut ledger_ids: BTreeSet<u64> = init.allowed.iter().copied().collect();
    let mut prev = q0;
    let q0s = coq_obs(&mut n, kind, &prev, init);
    'steps: for s in steps {
        match s {
            Step::Upd(u) => {
                let dump0 = storage_dump(&w.app, &w.factory);
                let r = sudo_json(&mut w.app, &w.factory, &upd_json(kind, u));
                let ok = r.is_ok();
                let cur = match observe(&w.app, &w.factory, probes) {
                    Ok(c) => c,
                    Err(e) => {
                        // "the factory's parameter query returns exactly ..." -- it must at least still answer
                        viol.push((format!("{}:queries-fail-after-update", kind.name()), format!("after UpdateParams {:?} (accepted: {}) the factory's queries fail: {}", u, ok, e)));
                        break 'steps;
                    }
                };
                if let Some(x) = frame_violation(&dump0, &storage_dump(&w.app, &w.factory), b"sudo-params") {
                    viol.push((format!("{}:update-touched-other-state", kind.name()), x));
                }
                for v in monitor_update(kind, u, ok, &prev, &cur) {
                    viol.push(v);
                }
                if ok && cur.params != prev.params {
                    nontrivial = true;
                }
                if ok {
                    ledger_apply(kind, &mut ledger, &mut ledger_ids, u);
                }
                hist.push(format!("{}:update:{}", kind.name(), if ok { "ok" } else { "err" }));
                coq_steps.push(format!("SUpd {} {} {}", coq_msg(&mut n, kind, u), coq_bool(ok), coq_obs(&mut n, kind, &cur, init)));
                prev = cur;
            }
            Step::Bad(raw) => {
                let dump0 = storage_dump(&w.app, &w.factory);
                let r = sudo_raw(&mut w.app, &w.factory, raw.as_bytes().to_vec());
                let cur = match observe(&w.app, &w.factory, probes) {
                    Ok(c) => c,
                    Err(e) => {
                        viol.push((format!("{}:queries-fail-after-update", kind.name()), format!("after the undecodable message {} the factory's queries fail: {}", raw, e)));
                        break 'steps;
                    }
                };
                if r.is_ok() {
                    viol.push((format!("{}:undecodable-accepted", kind.name()), format!("{} accepted", raw)));
                }
                if dump0 != storage_dump(&w.app, &w.factory) {
                    viol.push((format!("{}:refused-but-changed", kind.name()), format!("{} refused but storage changed", raw)));
                }
                hist.push(format!("{}:malformed:{}", kind.name(), if r.is_ok() { "ok" } else { "err" }));
                coq_steps.push(format!("SBad {}", coq_obs(&mut n, kind, &cur, init)));
                prev = cur;
            }
            Step::Probe { req: r, target } => {
                let now = chain::now(&w.app);
                let res = create_minter(&mut w.app, kind, &w.factory, CREATOR, r);
                let ok = res.is_ok();
                for v in monitor_probe(kind, r, ok, &ledger, &ledger_ids, target) {
                    viol.push(v);
                }
                if let Ok(c) = &res {
                    nontrivial = true;
                    for v in monitor_created(kind, r, c, &w.app, &ledger, now) {
                        viol.push(v);
                    }
                }
                hist.push(format!("{}:probe-{}:{}", kind.name(), target, if ok { "ok" } else { "err" }));
                match r.trading_after_start_secs {
                    Some(t) => coq_steps.push(format!("SCreateT {} {} {}", coq_req(&mut n, kind, r), t, coq_bool(ok))),
                    None => coq_steps.push(format!("SCreate {} {}", coq_req(&mut n, kind, r), coq_bool(ok))),
                }
            }
            Step::Create(r) => {
                let res = create_minter(&mut w.app, kind, &w.factory, CREATOR, r);
                let ok = res.is_ok();
                let code = res.as_ref().ok().map(|c| w.app.contract_data(&c.minter).map(|d| d.code_id).unwrap_or(0));
                for v in monitor_create(kind, r, ok, &prev.params, code) {
                    viol.push(v);
                }
                if ok {
                    nontrivial = true;
                }
                hist.push(format!("{}:create:{}", kind.name(), if ok { "ok" } else { "err" }));
                coq_steps.push(format!("SCreate {} {}", coq_req(&mut n, kind, r), coq_bool(ok)));
            }
        }
    }
    let ctor = match kind {
        FactoryKind::Base => "CBase",
        FactoryKind::Vending => "CVending",
        FactoryKind::OpenEdition => "COpenEdition",
        FactoryKind::TokenMerge => "CTokenMerge",
    };
    let coq = format!("{} {} {} {}", ctor, coq_params(&mut n, kind, init), q0s, coq_list(&coq_steps));
    Outcome {
        coq,
        steps: steps.len() as u64 + 1,
        nontrivial,
        viol,
        hist,
        sample: format!("{} [{}]: {} steps, final params {}", kind.name(), tag, steps.len(), prev.params),
    }
}

fn coq_flags(f: (bool, bool, bool)) -> String {
    format!("({}, {}, {})", coq_bool(f.0), coq_bool(f.1), coq_bool(f.2))
}

fn run_status(kind: MinterKind, flags: &[(bool, bool, bool)]) -> Outcome {
    let mut w = setup_minter(kind);
    let mut viol = vec![];
    let mut hist = vec![];
    let seen0 = q_status(&w.app, &w.minter).expect("Status query");
    if seen0 != (false, false, false) {
        viol.push(("status-initial".to_string(), format!("{} starts with status {:?}", kind.name(), seen0)));
    }
    let mut items = vec![];
    for f in flags {
        let dump0 = storage_dump(&w.app, &w.minter);
        let r = sudo_update_status(&mut w.app, &w.minter, f.0, f.1, f.2);
        let ok = r.is_ok();
        let seen = q_status(&w.app, &w.minter).expect("Status query");
        if !ok {
            viol.push(("status-refused".to_string(), format!("{} refused UpdateStatus{:?}: {:?}", kind.name(), f, r.err())));
        } else if seen != *f {
            viol.push(("status-dropped".to_string(), format!("{}: sudo UpdateStatus{:?} returned Ok, Status query shows {:?}", kind.name(), f, seen)));
        }
        if let Some(x) = frame_violation(&dump0, &storage_dump(&w.app, &w.minter), b"status") {
            viol.push(("status-touched-other-state".to_string(), format!("{}: {}", kind.name(), x)));
        }
        hist.push(format!("{}:update_status:{}", kind.name(), if ok { "ok" } else { "err" }));
        items.push(format!("({}, {}, {})", coq_flags(*f), coq_bool(ok), coq_flags(seen)));
    }
    Outcome {
        coq: format!("CStatus {} {} {}", kind.index(), coq_flags(seen0), coq_list(&items)),
        steps: flags.len() as u64 + 1,
        nontrivial: !flags.is_empty(),
        viol,
        hist,
        sample: format!("{}: {} status updates, last {:?}", kind.name(), flags.len(), flags.last()),
    }
}

const BUYER: &str = "buyer";
const NEW_DEV: &str = "newdevaddress";

fn run_mint_fee(kind: MinterKind, price: u128, bps: u64, new_dev: bool) -> Outcome {
    let fk = kind.factory();
    let mut w = setup_minter_with(kind, |p, r| {
        p.min_mint_price = (NATIVE.to_string(), 1);
        r.mint_price = (NATIVE.to_string(), price);
        r.num_tokens = Some(100);
        r.per_address_limit = 3;
    })
    .unwrap_or_else(|e| panic!("setup {}: {}", kind.name(), e));
    let mut viol = vec![];
    let mut u = Upd { mint_fee_bps: Some(bps), ..Default::default() };
    let dev = if fk == FactoryKind::OpenEdition {
        if new_dev {
            u.dev_fee_address = Some(NEW_DEV.to_string());
            NEW_DEV.to_string()
        } else {
            DEV_ADDRESS.to_string()
        }
    } else {
        String::new()
    };
    sudo_json(&mut w.app, &w.factory, &upd_json(fk, &u)).expect("update accepted");
    let t = chain::now(&w.app) + 200 * 1_000_000_000;
    chain::set_time(&mut w.app, t);
    chain::mint_coins(&mut w.app, BUYER, price.max(1) * 2, NATIVE);
    let seller0 = chain::balance(&w.app, CREATOR, NATIVE);
    let dev0 = if dev.is_empty() { 0 } else { chain::balance(&w.app, &dev, NATIVE) };
    let r = exec_json(&mut w.app, BUYER, &w.minter, &json!({ "mint": {} }), &[cosmwasm_std::coin(price, NATIVE)]);
    let ok = r.is_ok();
    let seller_delta = chain::balance(&w.app, CREATOR, NATIVE) - seller0;
    let fee = price * bps as u128 / 10_000;
    // property text: the mint observes the NEW mint_fee_bps
    if ok && seller_delta != price - fee {
        viol.push((format!("{}:mint-ignores-new-fee", kind.name()), format!("price {} bps {}: seller received {}, expected {}", price, bps, seller_delta, price - fee)));
    }
    if !ok && fee <= price {
        viol.push((format!("{}:mint-fails-after-update", kind.name()), format!("price {} bps {}: {:?}", price, bps, r.as_ref().err())));
    }
    let mut coq = format!("CMintSeller {} {} {} {}", price, bps, coq_bool(ok), seller_delta);
    let mut extra = 0;
    if ok && !dev.is_empty() {
        let dev_delta = chain::balance(&w.app, &dev, NATIVE) - dev0;
        if dev_delta != (fee + 1) / 2 {
            viol.push((format!("{}:mint-ignores-new-dev-address", kind.name()), format!("dev {} received {}, expected {}", dev, dev_delta, (fee + 1) / 2)));
        }
        // two observations, two cases: caller splits on " ;; "
        coq = format!("{} ;; CMintDev {} {} {}", coq, price, bps, dev_delta);
        extra = 1;
    }
    Outcome {
        coq,
        steps: 2 + extra,
        nontrivial: ok,
        viol,
        hist: vec![format!("{}:mint-after-fee-update:{}", kind.name(), if ok { "ok" } else { "err" })],
        sample: format!("{}: mint at {} under {} bps: seller +{}", kind.name(), price, bps, seller_delta),
    }
}

fn run_base_mint(bps: u64, paid: u128) -> Outcome {
    let mut w = setup_minter(MinterKind::Base);
    let price = w.params.min_mint_price.1;
    let u = Upd { mint_fee_bps: Some(bps), ..Default::default() };
    sudo_json(&mut w.app, &w.factory, &upd_json(FactoryKind::Base, &u)).expect("update accepted");
    let funds: Vec<cosmwasm_std::Coin> = if paid == 0 { vec![] } else { vec![cosmwasm_std::coin(paid, NATIVE)] };
    let r = exec_json(&mut w.app, CREATOR, &w.minter, &json!({ "mint": { "token_uri": "ipfs://example/1" } }), &funds);
    let ok = r.is_ok();
    let fee = price * bps as u128 / 10_000;
    let mut viol = vec![];
    if ok != (paid != 0 && paid == fee) {
        viol.push(("base-minter:mint-ignores-new-fee".to_string(), format!("bps {} => fee {}; paying {} gave ok={} ({:?})", bps, fee, paid, ok, r.err())));
    }
    Outcome {
        coq: format!("CBaseMint {} {} {} {}", price, bps, paid, coq_bool(ok)),
        steps: 2,
        nontrivial: ok,
        viol,
        hist: vec![format!("base-minter:mint-after-fee-update:{}", if ok { "ok" } else { "err" })],
        sample: format!("base-minter: bps {} paid {} ok {}", bps, paid, ok),
    }
}

fn run_airdrop_shuffle(kind: MinterKind, price: u128, bps: u64, shuffle: u128) -> Outcome {
    let fk = kind.factory();
    let f = fk.name();
    let mut w = setup_minter(kind);
    let old = w.params.clone();
    let has_shuffle = fk != FactoryKind::OpenEdition;
    let mut u = Upd { airdrop_mint_price: Some((NATIVE.to_string(), price)), airdrop_mint_fee_bps: Some(bps), ..Default::default() };
    if has_shuffle {
        u.shuffle_fee = Some((NATIVE.to_string(), shuffle));
    }
    sudo_json(&mut w.app, &w.factory, &upd_json(fk, &u)).expect("update accepted");
    let t = chain::now(&w.app) + 200 * 1_000_000_000;
    chain::set_time(&mut w.app, t);
    chain::mint_coins(&mut w.app, BUYER, shuffle.max(old.shuffle_fee.1) * 4 + 10, NATIVE);
    let dev = old.dev_fee_address.clone();
    let recipients = [LIQUIDITY_DAO, LAUNCHPAD_DAO, dev.as_str()];
    let received = |app: &App| recipients.iter().map(|a| chain::balance(app, a, NATIVE)).sum::<u128>();
    let funds = |a: u128| if a == 0 { vec![] } else { vec![cosmwasm_std::coin(a, NATIVE)] };
    let mut viol = vec![];
    let mut coq = vec![];
    let mut hist = vec![];
    let mint_to = json!({ "mint_to": { "recipient": BUYER } });
    // airdrop at the OLD price (exact payment is demanded, so it must be refused when the price moved)
    let old_price = old.airdrop_mint_price.1;
    if old_price != price {
        let r = exec_json(&mut w.app, CREATOR, &w.minter, &mint_to, &funds(old_price));
        if r.is_ok() {
            viol.push((format!("{}:mint-did-not-observe:airdrop_mint_price", f), format!("{}: airdrop paying the old price {} accepted, governance set {}", kind.name(), old_price, price)));
        }
        hist.push(format!("{}:airdrop-old-price:{}", kind.name(), if r.is_ok() { "ok" } else { "err" }));
        coq.push(format!("CPayProbe true {} {} {}", price, old_price, coq_bool(r.is_ok())));
    }
    let before = received(&w.app);
    let r = exec_json(&mut w.app, CREATOR, &w.minter, &mint_to, &funds(price));
    let ok_new = r.is_ok();
    if !ok_new {
        viol.push((format!("{}:mint-did-not-observe:airdrop_mint_price", f), format!("{}: airdrop paying the new price {} refused: {:?}", kind.name(), price, r.err())));
    } else {
        let delta = received(&w.app) - before;
        let want = price * bps as u128 / 10_000;
        if delta != want {
            viol.push((format!("{}:mint-did-not-observe:airdrop_mint_fee_bps", f), format!("{}: airdrop at {} under {} bps: fee recipients received {}, expected {}", kind.name(), price, bps, delta, want)));
        }
        coq.push(format!("CNetFee {} {} {}", price, bps, delta));
    }
    hist.push(format!("{}:airdrop-new-price:{}", kind.name(), if ok_new { "ok" } else { "err" }));
    coq.push(format!("CPayProbe true {} {} {}", price, price, coq_bool(ok_new)));
    if has_shuffle {
        let sh = json!({ "shuffle": {} });
        let old_fee = old.shuffle_fee.1;
        for (label, paid) in [("old", old_fee), ("new", shuffle)] {
            let r = exec_json(&mut w.app, BUYER, &w.minter, &sh, &funds(paid));
            let want_ok = paid >= shuffle;
            if r.is_ok() != want_ok {
                viol.push((format!("{}:mint-did-not-observe:shuffle_fee", f), format!("{}: shuffle paying the {} fee {} gave ok={} although governance set {} ({:?})", kind.name(), label, paid, r.is_ok(), shuffle, r.as_ref().err())));
            }
            hist.push(format!("{}:shuffle-{}-fee:{}", kind.name(), label, if r.is_ok() { "ok" } else { "err" }));
            coq.push(format!("CPayProbe false {} {} {}", shuffle, paid, coq_bool(r.is_ok())));
        }
    }
    Outcome {
        steps: coq.len() as u64 + 1,
        coq: coq.join(" ;; "),
        nontrivial: ok_new,
        viol,
        hist,
        sample: format!("{}: airdrop price {} bps {} shuffle {}", kind.name(), price, bps, shuffle),
    }
}

fn run_case(c: &Case) -> Outcome {
    match c {
        Case::Hist { kind, init, probes, steps, tag } => run_hist(*kind, init, probes, steps, tag),
        Case::Status { kind, flags } => run_status(*kind, flags),
        Case::MintFee { kind, price, bps, new_dev } => run_mint_fee(*kind, *price, *bps, *new_dev),
        Case::BaseMint { bps, paid } => run_base_mint(*bps, *paid),
        Case::AirdropShuffle { kind, price, bps, shuffle } => run_airdrop_shuffle(*kind, *price, *bps, *shuffle),
    }
}

pub fn run(a: &Args) {
    let out = OutDir::new(&a.out);
    let mut rep = Report { property: "C18".into(), tier: a.tier.clone(), seed: a.seed, ..Default::default() };
    let cases: Vec<Case> = if let Some(p) = &a.replay {
        #[derive(Deserialize)]
        struct ReplayFile {
            case: Case,
        }
        let txt = std::fs::read_to_string(p).expect("replay file");
        let rf: ReplayFile = serde_json::from_str(&txt).expect("replay json");
        vec![rf.case]
    } else {
        gen_cases(a)
    };
    let mut coq_cases = vec![];
    let mut distinct = BTreeSet::new();
    let mut nviol = 0;
    for (i, c) in cases.iter().enumerate() {
        let o = run_case(c);
        rep.evaluations += o.steps;
        for h in &o.hist {
            rep.bump(h);
        }
        if o.nontrivial {
            distinct.insert(serde_json::to_string(c).unwrap());
        }
        for (key, what) in &o.viol {
            nviol += 1;
            let fresh = !rep.violations.iter().any(|v| v.key == format!("C18:{}", key));
            if rep.violations.len() < 20 || (fresh && rep.violations.len() < 60) {
                let body = format!(
                    "{{\n \"property\": \"C18\",\n \"case\": {},\n \"violation\": {}\n}}\n",
                    serde_json::to_string(c).unwrap(),
                    serde_json::to_string(what).unwrap()
                );
                let path = out.write_replay(&format!("C18-{}.json", rep.violations.len() + 1), &body);
                rep.violations.push(Violation { key: format!("C18:{}", key), what: what.clone(), replay: path });
            }
        }
        if rep.samples.len() < 3 && (i % 211 == 7 || a.replay.is_some()) {
            rep.samples.push(json!({ "case": o.sample }));
        }
        for part in o.coq.split(" ;; ") {
            if !part.is_empty() {
                coq_cases.push(part.to_string());
            }
        }
    }
    rep.notes.push(format!("{} implementation steps (sudo / execute calls, each followed by the queries) in {} Coq cases", rep.evaluations, coq_cases.len()));
    rep.distinct_nontrivial = distinct.len() as u64;
    rep.rule = RULE.into();
    out.write_cases("C18", "From LP Require Import Params Status C18Corr.", "c18_case", "c18_check", &coq_cases, 6, &mut rep);
    out.finish(&rep);
    println!("C18 harness: {} cases, {} monitor violations", rep.evaluations, nviol);
}

const RULE: &str = "A case is a whole history on one freshly instantiated real factory (UpdateParams / undecodable / CreateMinter steps, the three queries after every step), a status history on one real minter created through its factory, or a mint after a fee update. Generated: corpus (known-finding replays, duplicate/overlapping id lists, non-native coins), every subset of the common optional fields per factory x sampled extension subsets chained in sequences of 1..4, directed creation scripts per guard (freeze, code id, fee, limits, min price) at bound-1/bound/bound+1 for every factory, random histories, eight flag triples in random orders on each of the eleven minters. Non-trivial = distinct case in which an accepted update changed the parameters, a creation succeeded, a status update was sent, or a mint succeeded.";

// ---------------------------------------------------------------- generators

const IBC: &str = "ibc/C4CFF46FD6DE35CA4CF4CE031E643C8FDC9BA4B99AE598E9B0ED98FE3A2319F9";

struct Pools {
    u64s: Vec<u64>,
    u32s: Vec<u32>,
    amounts: Vec<u128>,
}
fn pools() -> Pools {
    let mut u64s: Vec<u64> = vec![0, 1, 2, 999, 1000, 1001, 9_999, 10_000, 10_001, 604_800, u32::MAX as u64, u32::MAX as u64 + 1, u64::MAX - 1, u64::MAX];
    let mut u32s: Vec<u32> = vec![0, 1, 2, 3, 49, 50, 51, 9_999, 10_000, 10_001, u32::MAX - 1, u32::MAX];
    let mut amounts: Vec<u128> = vec![0, 1, 2, 49_999_999, 50_000_000, 50_000_001, 5_000_000_000, u64::MAX as u128, u64::MAX as u128 + 1, u128::MAX - 1, u128::MAX];
    for l in harvest_literals(&[
        "contracts/factories/base-factory/src/contract.rs",
        "contracts/factories/vending-factory/src/contract.rs",
        "contracts/factories/open-edition-factory/src/contract.rs",
        "contracts/factories/open-edition-factory/src/msg.rs",
        "contracts/factories/token-merge-factory/src/contract.rs",
    ]) {
        for d in [l.saturating_sub(1), l, l.saturating_add(1)] {
            amounts.push(d);
            if d <= u64::MAX as u128 {
                u64s.push(d as u64);
            }
            if d <= u32::MAX as u128 {
                u32s.push(d as u32);
            }
        }
    }
    Pools { u64s, u32s, amounts }
}

fn rnd_coin(rng: &mut Rng, p: &Pools, native_in_20: u64) -> C {
    let denom = if rng.chance(native_in_20, 20) {
        NATIVE
    } else {
        *rng.pick(&[IBC, "uother", "USTARS", "ustars ", "ustar", "ustarsx", ""])
    };
    let amt = if rng.chance(1, 3) { rng.u128_any_size() } else { *rng.pick(&p.amounts) };
    (denom.to_string(), amt)
}
fn rnd_ids(rng: &mut Rng) -> Vec<u64> {
    match rng.below(8) {
        0 => vec![],
        1 => vec![5, 5, 7],
        2 => vec![1],
        3 => vec![2, 1, 2],
        4 => vec![9, 1, 9, 9, 1],
        5 => (0..rng.range(1, 20)).map(|_| rng.range(1, 9)).collect(),
        6 => vec![u64::MAX, 0, rng.next_u64()],
        _ => vec![rng.range(1, 9)],
    }
}

const N_COMMON: u32 = 8; // bits 0..7: code_id add rm frozen creation_fee offset | min_mint_price mint_fee_bps
/// ext bits (from 8): max_token_limit max_per_address_limit airdrop_mint_price airdrop_mint_fee_bps shuffle_fee/dev_fee_address ext.min_mint_price
fn ext_bits(kind: FactoryKind) -> u32 {
    match kind {
        FactoryKind::Base => 0,
        FactoryKind::Vending | FactoryKind::TokenMerge => 5,
        FactoryKind::OpenEdition => 6,
    }
}
/// the common bits this kind's message has
fn common_masks(kind: FactoryKind) -> Vec<u32> {
    if kind == FactoryKind::TokenMerge {
        (0..64).collect()
    } else {
        (0..256).collect()
    }
}

/// an update carrying exactly the fields of `mask`, values from the boundary pools
fn upd_of_mask(kind: FactoryKind, mask: u32, rng: &mut Rng, p: &Pools, native_in_20: u64) -> Upd {
    let b = |i: u32| mask & (1 << i) != 0;
    let mut u = Upd::default();
    if b(0) {
        u.code_id = Some(*rng.pick(&p.u64s));
    }
    if b(1) {
        u.add = Some(rnd_ids(rng));
    }
    if b(2) {
        u.rm = Some(rnd_ids(rng));
    }
    if b(3) {
        u.frozen = Some(rng.chance(1, 2));
    }
    if b(4) {
        u.creation_fee = Some(rnd_coin(rng, p, 14));
    }
    if b(5) {
        u.offset = Some(*rng.pick(&p.u64s));
    }
    if kind != FactoryKind::TokenMerge {
        if b(6) {
            u.min_mint_price = Some(rnd_coin(rng, p, native_in_20));
        }
        if b(7) {
            u.mint_fee_bps = Some(*rng.pick(&p.u64s));
        }
    }
    if kind != FactoryKind::Base {
        if b(8) {
            u.max_token_limit = Some(*rng.pick(&p.u32s));
        }
        if b(9) {
            u.max_per_address_limit = Some(*rng.pick(&p.u32s));
        }
        if b(10) {
            u.airdrop_mint_price = Some(rnd_coin(rng, p, native_in_20));
        }
        if b(11) {
            u.airdrop_mint_fee_bps = Some(*rng.pick(&p.u64s));
        }
        if b(12) {
            if kind == FactoryKind::OpenEdition {
                u.dev_fee_address = Some(rng.pick(&[NEW_DEV, DEV_ADDRESS, "x", "", "Another Dev"]).to_string());
            } else {
                u.shuffle_fee = Some(rnd_coin(rng, p, native_in_20));
            }
        }
        if kind == FactoryKind::OpenEdition && b(13) {
            u.ext_min_mint_price = Some(rnd_coin(rng, p, 10));
        }
    }
    u
}

fn base_init(kind: FactoryKind) -> FParams {
    default_params(kind, first_minter_code(), &[1, 2])
}
fn probes_for(steps: &[Step], init: &FParams) -> Vec<u64> {
    let mut s: BTreeSet<u64> = init.allowed.iter().copied().collect();
    for st in steps {
        if let Step::Upd(u) = st {
            s.extend(u.add.iter().flatten().copied());
            s.extend(u.rm.iter().flatten().copied());
        }
    }
    s.insert(4);
    s.into_iter().take(12).collect()
}
fn hist(kind: FactoryKind, init: FParams, steps: Vec<Step>, tag: &str) -> Case {
    let probes = probes_for(&steps, &init);
    Case::Hist { kind, init, probes, steps, tag: tag.to_string() }
}
fn n(a: u128) -> C {
    (NATIVE.to_string(), a)
}

fn corpus() -> Vec<Case> {
    let mut v = vec![];
    // fixed finding 61290fb: one replay per minter variant
    for k in MinterKind::ALL {
        v.push(Case::Status { kind: k, flags: vec![(true, true, true)] });
    }
    // fixed finding b28bf1c (DESIGN D2)
    v.push(hist(
        FactoryKind::TokenMerge,
        base_init(FactoryKind::TokenMerge),
        vec![Step::Upd(Upd {
            code_id: Some(77),
            add: Some(vec![9]),
            rm: Some(vec![1]),
            frozen: Some(true),
            creation_fee: Some(n(9)),
            offset: Some(7),
            max_token_limit: Some(3),
            ..Default::default()
        })],
        "known:token-merge-params-ignored",
    ));
    for kind in FactoryKind::ALL {
        let u = |f: &dyn Fn(&mut Upd)| {
            let mut x = Upd::default();
            f(&mut x);
            Step::Upd(x)
        };
        // id list shapes
        v.push(hist(kind, base_init(kind), vec![u(&|x| { x.add = Some(vec![5, 5, 7]); x.rm = Some(vec![5]); })], "add-dup-then-rm"));
        v.push(hist(kind, base_init(kind), vec![u(&|x| x.add = Some(vec![1])), u(&|x| x.rm = Some(vec![1]))], "nonadjacent-dup-then-rm"));
        let mut dup = base_init(kind);
        dup.allowed = vec![1, 1, 2, 2, 2, 1];
        v.push(hist(kind, dup.clone(), vec![u(&|_| {})], "empty-update-dedups"));
        v.push(hist(kind, dup, vec![u(&|x| { x.add = Some(vec![]); x.rm = Some(vec![]); }), u(&|x| x.rm = Some(vec![2, 1, 2]))], "empty-lists-then-rm-all"));
        v.push(hist(kind, base_init(kind), vec![u(&|x| { x.add = Some(vec![7, 8]); x.rm = Some(vec![8, 9]); }), u(&|x| x.add = Some(vec![8, 7, 7]))], "overlap"));
        // non-native coins in every coin field, one at a time, each with other fields that must then NOT apply
        for which in 0..5 {
            let mut x = Upd { code_id: Some(42), frozen: Some(true), add: Some(vec![6]), ..Default::default() };
            let c = Some((IBC.to_string(), 70u128));
            match which {
                0 => x.min_mint_price = c,
                1 => x.airdrop_mint_price = c,
                2 => x.shuffle_fee = c,
                3 => x.creation_fee = c,
                _ => x.ext_min_mint_price = c,
            }
            if kind == FactoryKind::Base && which != 0 && which != 3 {
                continue;
            }
            v.push(hist(kind, base_init(kind), vec![Step::Upd(x), u(&|x| x.mint_fee_bps = Some(1))], "non-native-coin"));
        }
        // look-alike denoms
        for d in ["USTARS", "ustars ", "ustar", ""] {
            v.push(hist(kind, base_init(kind), vec![u(&|x| { x.min_mint_price = Some((d.to_string(), 5)); x.airdrop_mint_price = Some((d.to_string(), 5)); x.offset = Some(1); })], "lookalike-denom"));
        }
        // undecodable messages
        let bads = [
            r#"{"update_params":{"code_id":"abc","extension":null}}"#,
            r#"{"update_params":{"creation_fee":{"denom":"ustars","amount":"12x"},"extension":null}}"#,
            r#"{"update_params":{"code_id":18446744073709551616,"extension":null}}"#,
            r#"{"update_params":{"frozen":1,"extension":null}}"#,
            r#"{"update_params":{"unknown_field":1,"extension":null}}"#,
            r#"{"update_status":{"is_verified":true,"is_blocked":true,"is_explicit":true}}"#,
            r#"not json"#,
        ];
        let mut bad_steps: Vec<Step> = bads.iter().map(|b| Step::Bad(b.to_string())).collect();
        if kind != FactoryKind::Base {
            // (base-factory's extension is Option<Empty>, which tolerates any object)
            bad_steps.push(Step::Bad(r#"{"update_params":{"extension":{"max_token_limit":4294967296}}}"#.to_string()));
            bad_steps.push(Step::Bad(r#"{"update_params":{"code_id":5}}"#.to_string()));
        }
        v.push(hist(kind, base_init(kind), bad_steps, "undecodable"));
    }
    v
}

fn subset_hists(a: &Args, rng: &mut Rng, p: &Pools) -> Vec<Case> {
    let mut out = vec![];
    for kind in FactoryKind::ALL {
        let xb = ext_bits(kind);
        let mut masks: Vec<u32> = vec![];
        let cm = common_masks(kind);
        if a.thorough() {
            for c in &cm {
                for x in 0..(1u32 << xb) {
                    masks.push(c | (x << N_COMMON));
                }
            }
        } else {
            let per = if kind == FactoryKind::TokenMerge { 8 } else if xb == 0 { 4 } else { 4 };
            for c in &cm {
                for _ in 0..per {
                    let x = if xb == 0 { 0 } else { rng.below(1 << xb) as u32 };
                    masks.push(c | (x << N_COMMON));
                }
            }
            for x in 0..(1u32 << xb) {
                for _ in 0..per {
                    masks.push(*rng.pick(&cm) | (x << N_COMMON));
                }
            }
        }
        // chain consecutive masks into sequences of 1..4 on one factory instance
        let mut i = 0;
        let mut len = 1;
        while i < masks.len() {
            let chunk = &masks[i..(i + len).min(masks.len())];
            // mostly-native so that most updates are accepted; every 5th history is hostile
            let native = if (i / 3) % 5 == 4 { 8 } else { 19 };
            let steps: Vec<Step> = chunk.iter().map(|m| Step::Upd(upd_of_mask(kind, *m, rng, p, native))).collect();
            out.push(hist(kind, base_init(kind), steps, "subsets"));
            i += len;
            len = len % 4 + 1;
        }
    }
    out
}

/// parameters under which a creation depends on nothing but the factory-side checks
fn sane_init(kind: FactoryKind, minter_code: u64) -> FParams {
    let mut p = default_params(kind, minter_code, &[1, 2]);
    p.creation_fee = n(1000);
    p.min_mint_price = n(100);
    p.max_token_limit = 200;
    p.max_per_address_limit = 5;
    p.offset = 1000;
    p.airdrop_mint_price = n(5);
    p
}
fn std_req(kind: FactoryKind, fee: u128) -> CreateReq {
    let mut r = CreateReq::standard(kind, 1, &n(fee));
    r.num_tokens = Some(150);
    r.mint_price = n(1_000);
    r
}
fn minter_codes(kind: FactoryKind) -> Vec<u64> {
    (0..n_minter_codes(kind)).map(|i| first_minter_code() + i).collect()
}

fn creation_scripts() -> Vec<Case> {
    let mut out = vec![];
    for kind in FactoryKind::ALL {
        let codes = minter_codes(kind);
        let up = |f: &dyn Fn(&mut Upd)| {
            let mut x = Upd::default();
            f(&mut x);
            Step::Upd(x)
        };
        let cr = |f: &dyn Fn(&mut CreateReq)| {
            let mut r = std_req(kind, 1000);
            f(&mut r);
            Step::Create(r)
        };
        for (ci, code) in codes.iter().enumerate() {
            let init = sane_init(kind, *code);
            // freeze / unfreeze (every minter variant is created here at least twice)
            out.push(hist(kind, init.clone(), vec![cr(&|_| {}), up(&|x| x.frozen = Some(true)), cr(&|_| {}), up(&|x| x.frozen = Some(false)), cr(&|_| {})], "freeze"));
            // switch the minter code: the next creation must run the new code
            let other = codes[(ci + 1) % codes.len()];
            out.push(hist(kind, init.clone(), vec![up(&|x| x.code_id = Some(other)), cr(&|_| {}), up(&|x| x.code_id = Some(*code)), cr(&|_| {})], "switch-code"));
        }
        let init = sane_init(kind, codes[0]);
        out.push(hist(kind, init.clone(), vec![
            up(&|x| x.rm = Some(vec![1])), cr(&|_| {}), cr(&|r| r.collection_code_id = 2),
            up(&|x| x.add = Some(vec![1])), cr(&|_| {}),
            up(&|x| { x.add = Some(vec![1, 1]); x.rm = Some(vec![1]); }), cr(&|_| {}),
            up(&|x| x.rm = Some(vec![2])), cr(&|r| r.collection_code_id = 2),
        ], "code-ids"));
        out.push(hist(kind, init.clone(), vec![
            up(&|x| x.creation_fee = Some(n(2000))),
            cr(&|r| r.funds = vec![n(1000)]), cr(&|r| r.funds = vec![n(1999)]), cr(&|r| r.funds = vec![n(2000)]), cr(&|r| r.funds = vec![n(2001)]),
            cr(&|r| r.funds = vec![(IBC.to_string(), 2000)]), cr(&|r| r.funds = vec![]), cr(&|r| r.funds = vec![n(2000), (IBC.to_string(), 1)]),
            up(&|x| x.creation_fee = Some(n(500))),
            cr(&|r| r.funds = vec![n(499)]), cr(&|r| r.funds = vec![n(500)]), cr(&|r| r.funds = vec![n(1000)]),
        ], "creation-fee"));
        if kind != FactoryKind::Base {
            out.push(hist(kind, init.clone(), vec![
                cr(&|r| r.num_tokens = Some(200)), cr(&|r| r.num_tokens = Some(201)),
                up(&|x| x.max_token_limit = Some(150)),
                cr(&|r| r.num_tokens = Some(149)), cr(&|r| r.num_tokens = Some(150)), cr(&|r| r.num_tokens = Some(151)), cr(&|r| r.num_tokens = Some(200)),
                cr(&|r| r.num_tokens = Some(0)),
                up(&|x| x.max_token_limit = Some(300)), cr(&|r| r.num_tokens = Some(300)), cr(&|r| r.num_tokens = Some(301)),
            ], "max-token-limit"));
            out.push(hist(kind, init.clone(), vec![
                cr(&|r| { r.num_tokens = Some(200); r.per_address_limit = 5; }), cr(&|r| { r.num_tokens = Some(200); r.per_address_limit = 6; }),
                up(&|x| x.max_per_address_limit = Some(2)),
                cr(&|r| r.per_address_limit = 1), cr(&|r| r.per_address_limit = 2), cr(&|r| r.per_address_limit = 3), cr(&|r| r.per_address_limit = 0),
                up(&|x| x.max_per_address_limit = Some(4)),
                cr(&|r| { r.num_tokens = Some(200); r.per_address_limit = 4; }), cr(&|r| { r.num_tokens = Some(200); r.per_address_limit = 5; }),
            ], "max-per-address-limit"));
        }
        if matches!(kind, FactoryKind::Vending | FactoryKind::OpenEdition) {
            out.push(hist(kind, init.clone(), vec![
                cr(&|r| r.mint_price = n(100)), cr(&|r| r.mint_price = n(99)),
                up(&|x| x.min_mint_price = Some(n(150))),
                cr(&|r| r.mint_price = n(100)), cr(&|r| r.mint_price = n(149)), cr(&|r| r.mint_price = n(150)), cr(&|r| r.mint_price = n(151)),
                cr(&|r| r.mint_price = (IBC.to_string(), 500)),
                up(&|x| x.min_mint_price = Some(n(0))), cr(&|r| r.mint_price = n(1)),
            ], "min-mint-price"));
        }
        if kind == FactoryKind::OpenEdition {
            let unl = |f: &dyn Fn(&mut CreateReq)| {
                let mut r = std_req(kind, 1000);
                r.num_tokens = None;
                f(&mut r);
                Step::Create(r)
            };
            out.push(hist(kind, init.clone(), vec![
                unl(&|_| {}), unl(&|r| r.end_after_secs = None),
                up(&|x| x.airdrop_mint_price = Some(n(0))), unl(&|_| {}), cr(&|_| {}),
                up(&|x| x.airdrop_mint_price = Some((IBC.to_string(), 1))), unl(&|_| {}),
                up(&|x| x.min_mint_price = Some(n(0))), unl(&|r| r.mint_price = n(0)), cr(&|r| r.mint_price = n(0)),
            ], "unlimited-edition"));
        }
    }
    out
}

fn random_hists(a: &Args, rng: &mut Rng, p: &Pools) -> Vec<Case> {
    let per_kind = if a.thorough() { 1500 } else { 90 };
    let mut out = vec![];
    for kind in FactoryKind::ALL {
        let codes = minter_codes(kind);
        let xb = ext_bits(kind);
        for _ in 0..per_kind {
            let mut init = base_init(kind);
            if rng.chance(1, 3) {
                init.allowed = rnd_ids(rng);
            }
            if rng.chance(1, 4) {
                init.frozen = true;
            }
            let mut steps = vec![];
            let nsteps = rng.range(3, 8);
            while (steps.len() as u64) < nsteps {
                match rng.below(10) {
                    0 => steps.push(Step::Bad(r#"{"update_params":{"frozen":"yes","extension":null}}"#.to_string())),
                    1..=3 => {
                        // normalise what a creation needs, then create around the bounds just set
                        let fee = rng.range(2, 1_000_000) as u128;
                        let mtl = rng.range(150, 300) as u32;
                        let mpal = rng.range(1, 3) as u32;
                        let min = rng.range(0, 1000) as u128;
                        let unlimited = kind == FactoryKind::OpenEdition && rng.chance(1, 3);
                        let mut u = Upd {
                            code_id: Some(*rng.pick(&codes)),
                            creation_fee: Some(n(fee)),
                            offset: Some(rng.range(0, 100_000)),
                            ..Default::default()
                        };
                        if rng.chance(1, 2) {
                            u.frozen = Some(rng.chance(1, 4));
                        }
                        if kind != FactoryKind::Base {
                            u.max_token_limit = Some(mtl);
                            u.max_per_address_limit = Some(mpal);
                        }
                        if kind != FactoryKind::TokenMerge {
                            u.min_mint_price = Some(n(min));
                        }
                        if kind == FactoryKind::OpenEdition {
                            u.airdrop_mint_price = Some(n(rng.below(2) as u128 * 7));
                        }
                        if rng.chance(1, 3) {
                            u.add = Some(vec![rng.range(1, 2)]);
                        }
                        if rng.chance(1, 4) {
                            u.rm = Some(vec![rng.range(1, 2)]);
                        }
                        steps.push(Step::Upd(u));
                        let pick3 = |rng: &mut Rng, b: u64| -> u64 {
                            match rng.below(6) {
                                0 => b.saturating_sub(1),
                                1 => b + 1,
                                _ => b,
                            }
                        };
                        let mut r = std_req(kind, pick3(rng, fee as u64) as u128);
                        r.collection_code_id = rng.range(1, 2);
                        r.num_tokens = if unlimited { None } else { Some(pick3(rng, mtl as u64) as u32) };
                        r.per_address_limit = pick3(rng, mpal as u64) as u32;
                        r.mint_price = n(pick3(rng, min.max(1) as u64) as u128);
                        if rng.chance(1, 12) {
                            r.funds = vec![(IBC.to_string(), fee)];
                        }
                        steps.push(Step::Create(r));
                    }
                    _ => {
                        let cm = if kind == FactoryKind::TokenMerge { rng.below(64) } else { rng.below(256) } as u32;
                        let x = if xb == 0 { 0 } else { rng.below(1 << xb) as u32 };
                        // sparse masks are the common governance message
                        let mask = if rng.chance(1, 2) { (cm & rng.next_u64() as u32) | ((x & rng.next_u64() as u32) << N_COMMON) } else { cm | (x << N_COMMON) };
                        steps.push(Step::Upd(upd_of_mask(kind, mask, rng, p, 17)));
                    }
                }
            }
            out.push(hist(kind, init, steps, "random"));
        }
    }
    out
}

fn status_cases(a: &Args, rng: &mut Rng) -> Vec<Case> {
    let all: Vec<(bool, bool, bool)> = (0..8).map(|i| (i & 4 != 0, i & 2 != 0, i & 1 != 0)).collect();
    let rounds = if a.thorough() { 12 } else { 3 };
    let mut out = vec![];
    for k in MinterKind::ALL {
        let mut flags = vec![];
        for _ in 0..rounds {
            let mut perm = all.clone();
            for i in (1..perm.len()).rev() {
                let j = rng.below(i as u64 + 1) as usize;
                perm.swap(i, j);
            }
            flags.extend(perm);
        }
        // every ordered pair of triples as a direct transition (in particular every single-flag flip in both
        // directions from every setting of the other two), independent of the PRNG
        for a in &all {
            for b in &all {
                if a != b {
                    flags.push(*a);
                    flags.push(*b);
                }
            }
        }
        // the same triple twice in a row, and back to all-false
        flags.push((true, false, true));
        flags.push((true, false, true));
        flags.push((false, false, false));
        out.push(Case::Status { kind: k, flags });
    }
    out
}

fn mint_cases(a: &Args, rng: &mut Rng) -> Vec<Case> {
    let mut out = vec![];
    let mut pairs: Vec<(u128, u64)> = vec![(100_000_000, 0), (100_000_000, 2_500), (100_000_001, 3_333), (1_000, 5_000), (100_000_000, 10_000), (1_000, 10_001)];
    if a.thorough() {
        for _ in 0..20 {
            pairs.push((rng.range(1, 1_000_000_000) as u128, rng.range(0, 10_000)));
        }
    }
    for k in MinterKind::ALL {
        if matches!(k, MinterKind::Base | MinterKind::TokenMerge) {
            continue;
        }
        for (i, (price, bps)) in pairs.iter().enumerate() {
            out.push(Case::MintFee { kind: k, price: *price, bps: *bps, new_dev: i % 2 == 0 });
        }
    }
    for k in MinterKind::ALL {
        if k == MinterKind::Base {
            continue;
        }
        // (price, bps, shuffle): each differs from the defaults of every factory kind
        for (price, bps, shuffle) in [(1_000_000u128, 3_000u64, 700_000_000u128), (250_000_000, 10_000, 500_000_001), (40_000, 0, 900_000_000)] {
            out.push(Case::AirdropShuffle { kind: k, price, bps, shuffle });
        }
    }
    for bps in [10_000u64, 5_000, 1, 0, 20_000] {
        let fee = 50_000_000u128 * bps as u128 / 10_000;
        for paid in [fee.saturating_sub(1), fee, fee + 1, 50_000_000] {
            out.push(Case::BaseMint { bps, paid });
        }
    }
    out
}


// ---------------------------------------------------------------- observation-probe histories

fn probe(kind: FactoryKind, l: &FParams, coll: u64, target: &str, f: &dyn Fn(&mut CreateReq)) -> Step {
    // the standard request: respects everything in `l`
    let mut r = CreateReq::standard(kind, coll, &l.creation_fee);
    r.num_tokens = Some(l.max_token_limit.min(150).max(1));
    r.per_address_limit = l.max_per_address_limit.min(2).max(1);
    r.mint_price = (l.min_mint_price.0.clone(), l.min_mint_price.1.max(1) + 5);
    f(&mut r);
    Step::Probe { req: r, target: target.to_string() }
}

/// The probes that discriminate the value `new` of every creation-relevant parameter from
/// `old`; parameters in `only` (None = all) are probed.
fn probes_after(kind: FactoryKind, old: &FParams, new: &FParams, third: u64, want: &dyn Fn(&str) -> bool) -> Vec<Step> {
    let mut v = vec![];
    let pr = |t: &str, f: &dyn Fn(&mut CreateReq)| probe(kind, new, third, t, f);
    if want("creation_fee") {
        let (d, a) = new.creation_fee.clone();
        for amt in [a.saturating_sub(1), a, a + 1] {
            let d2 = d.clone();
            v.push(pr("creation_fee", &move |r| r.funds = vec![(d2.clone(), amt)]));
        }
        if old.creation_fee != new.creation_fee {
            let o = old.creation_fee.clone();
            v.push(pr("creation_fee", &move |r| r.funds = vec![o.clone()]));
            // the new amount in the old denom
            let od = old.creation_fee.0.clone();
            if od != d {
                v.push(pr("creation_fee", &move |r| r.funds = vec![(od.clone(), a)]));
            }
        }
    }
    if want("frozen") || want("code_id") {
        v.push(pr(if want("frozen") { "frozen" } else { "code_id" }, &|_| {}));
    }
    if want("allowed_sg721_code_ids") {
        v.push(pr("allowed_sg721_code_ids", &|r| r.collection_code_id = 1));
        v.push(pr("allowed_sg721_code_ids", &|r| r.collection_code_id = 2));
    }
    if kind != FactoryKind::Base {
        if want("max_token_limit") {
            for x in [new.max_token_limit, new.max_token_limit + 1, old.max_token_limit] {
                v.push(pr("max_token_limit", &move |r| r.num_tokens = Some(x)));
            }
        }
        if want("max_per_address_limit") {
            for x in [new.max_per_address_limit, new.max_per_address_limit + 1, old.max_per_address_limit] {
                v.push(pr("max_per_address_limit", &move |r| r.per_address_limit = x));
            }
        }
        if want("max_trading_offset_secs") {
            for x in [new.offset, new.offset + 1, old.offset] {
                v.push(pr("max_trading_offset_secs", &move |r| r.trading_after_start_secs = Some(x)));
            }
        }
    }
    if matches!(kind, FactoryKind::Vending | FactoryKind::OpenEdition) && want("min_mint_price") {
        let d = new.min_mint_price.0.clone();
        for x in [new.min_mint_price.1.saturating_sub(1), new.min_mint_price.1, old.min_mint_price.1] {
            let d2 = d.clone();
            v.push(pr("min_mint_price", &move |r| r.mint_price = (d2.clone(), x)));
        }
        if old.min_mint_price.0 != new.min_mint_price.0 {
            // a price in the denom the minimum used to have
            let od = old.min_mint_price.0.clone();
            let amt = new.min_mint_price.1.max(old.min_mint_price.1) + 1;
            v.push(pr("min_mint_price", &move |r| r.mint_price = (od.clone(), amt)));
        }
    }
    if kind == FactoryKind::OpenEdition && want("airdrop_mint_price") {
        v.push(pr("airdrop_mint_price", &|r| r.num_tokens = None));
    }
    v
}

fn probe_init(kind: FactoryKind, fee: &C) -> FParams {
    let codes = minter_codes(kind);
    let mut p = sane_init(kind, codes[0]);
    p.allowed = vec![2, third_collection_code(kind)];
    p.creation_fee = fee.clone();
    p.max_per_address_limit = 3;
    p
}

/// `mask` bits as in upd_of_mask; values are in the creation model's scope and differ from
/// the initial ones, so that every supplied field is observable
fn probe_update(kind: FactoryKind, mask: u32, init: &FParams, new_fee: &C) -> Upd {
    let b = |i: u32| mask & (1 << i) != 0;
    let codes = minter_codes(kind);
    let mut u = Upd::default();
    if b(0) {
        u.code_id = Some(codes[1]);
    }
    if b(1) {
        u.add = Some(vec![1]);
    }
    if b(2) {
        u.rm = Some(vec![2]);
    }
    if b(3) {
        u.frozen = Some(!init.frozen);
    }
    if b(4) {
        u.creation_fee = Some(new_fee.clone());
    }
    if b(5) {
        u.offset = Some(500);
    }
    if kind != FactoryKind::TokenMerge {
        if b(6) {
            u.min_mint_price = Some(n(150));
        }
        if b(7) {
            u.mint_fee_bps = Some(2_000);
        }
    }
    if kind != FactoryKind::Base {
        if b(8) {
            u.max_token_limit = Some(120);
        }
        if b(9) {
            u.max_per_address_limit = Some(2);
        }
        if b(10) {
            u.airdrop_mint_price = Some(n(if kind == FactoryKind::OpenEdition { 0 } else { 9 }));
        }
        if b(11) {
            u.airdrop_mint_fee_bps = Some(3_000);
        }
        if b(12) {
            if kind == FactoryKind::OpenEdition {
                u.dev_fee_address = Some(NEW_DEV.to_string());
            } else {
                u.shuffle_fee = Some(n(7));
            }
        }
        if kind == FactoryKind::OpenEdition && b(13) {
            u.ext_min_mint_price = Some(n(1));
        }
    }
    u
}

const PROBE_PARAMS: [&str; 9] = [
    "creation_fee", "frozen", "code_id", "allowed_sg721_code_ids", "max_token_limit", "max_per_address_limit",
    "max_trading_offset_secs", "min_mint_price", "airdrop_mint_price",
];
fn mask_params(mask: u32) -> Vec<&'static str> {
    let mut v = vec![];
    let names: [(u32, &str); 10] = [
        (0, "code_id"), (1, "allowed_sg721_code_ids"), (2, "allowed_sg721_code_ids"), (3, "frozen"), (4, "creation_fee"),
        (5, "max_trading_offset_secs"), (6, "min_mint_price"), (8, "max_token_limit"), (9, "max_per_address_limit"), (10, "airdrop_mint_price"),
    ];
    for (i, nm) in names {
        if mask & (1 << i) != 0 {
            v.push(nm);
        }
    }
    v
}

fn probe_hists(a: &Args, rng: &mut Rng) -> Vec<Case> {
    let mut out = vec![];
    // creation-fee transitions: native -> IBC, IBC -> native, IBC -> another IBC denom, same denom
    let fees: [(C, C); 5] = [
        (n(1000), (IBC.to_string(), 700)),
        ((IBC.to_string(), 700), n(1300)),
        ((IBC.to_string(), 700), (OTHER.to_string(), 900)),
        ((IBC.to_string(), 700), (IBC.to_string(), 1100)),
        (n(1000), n(1600)),
    ];
    for kind in FactoryKind::ALL {
        let third = third_collection_code(kind);
        // 1. directed: every fee transition alone, both directions of frozen
        for (i, (f0, f1)) in fees.iter().enumerate() {
            let init = probe_init(kind, f0);
            let u = Upd { creation_fee: Some(f1.clone()), ..Default::default() };
            let mut l = init.clone();
            l.creation_fee = f1.clone();
            let mut steps = vec![Step::Upd(u)];
            steps.extend(probes_after(kind, &init, &l, third, &|p| p == "creation_fee"));
            // and back again: the factory must now want the first fee
            steps.push(Step::Upd(Upd { creation_fee: Some(f0.clone()), ..Default::default() }));
            steps.extend(probes_after(kind, &l, &init, third, &|p| p == "creation_fee"));
            out.push(hist(kind, init, steps, &format!("fee-transition-{}", i)));
        }
        // 1b. the minimum mint price moves from an IBC denom (possible at instantiation only) to ustars
        if matches!(kind, FactoryKind::Vending | FactoryKind::OpenEdition) {
            let mut init = probe_init(kind, &n(1000));
            init.min_mint_price = (IBC.to_string(), 100);
            let mut l = init.clone();
            l.min_mint_price = n(150);
            let mut steps = probes_after(kind, &init, &init, third, &|p| p == "min_mint_price");
            steps.push(Step::Upd(Upd { min_mint_price: Some(n(150)), ..Default::default() }));
            steps.extend(probes_after(kind, &init, &l, third, &|p| p == "min_mint_price"));
            // an attempt to move it back is refused and must leave creations on ustars
            steps.push(Step::Upd(Upd { min_mint_price: Some((IBC.to_string(), 100)), ..Default::default() }));
            steps.extend(probes_after(kind, &init, &l, third, &|p| p == "min_mint_price"));
            out.push(hist(kind, init, steps, "min-price-denom"));
        }
        // 2. every subset of the optional fields, then the probes of the supplied parameters
        //    plus a sample of the omitted ones (which must still show their old values)
        let xb = ext_bits(kind);
        let cm = common_masks(kind);
        let mut masks: Vec<u32> = vec![];
        if a.thorough() {
            for c in &cm {
                for x in 0..(1u32 << xb) {
                    masks.push(c | (x << N_COMMON));
                }
            }
        } else {
            for c in &cm {
                masks.push(c | ((if xb == 0 { 0 } else { rng.below(1 << xb) as u32 }) << N_COMMON));
            }
            for x in 0..(1u32 << xb) {
                masks.push(*rng.pick(&cm) | (x << N_COMMON));
            }
        }
        for (i, mask) in masks.iter().enumerate() {
            let (f0, f1) = &fees[i % fees.len()];
            let mut init = probe_init(kind, f0);
            // a supplied `frozen` must be what un-freezes (most histories) or freezes the factory
            init.frozen = mask & 8 != 0 && i % 4 != 3;
            let u = probe_update(kind, *mask, &init, f1);
            let mut l = init.clone();
            let mut ids: BTreeSet<u64> = init.allowed.iter().copied().collect();
            ledger_apply(kind, &mut l, &mut ids, &u);
            let supplied = mask_params(*mask);
            let extra = *rng.pick(&PROBE_PARAMS);
            let extra2 = *rng.pick(&PROBE_PARAMS);
            let mut steps = vec![Step::Upd(u)];
            steps.extend(probes_after(kind, &init, &l, third, &|p| supplied.contains(&p) || p == extra || p == extra2));
            out.push(hist(kind, init, steps, "probes"));
        }
    }
    out
}

fn gen_cases(a: &Args) -> Vec<Case> {
    let mut rng = Rng::new(a.seed);
    let p = pools();
    let mut v = corpus();
    v.extend(creation_scripts());
    v.extend(probe_hists(a, &mut rng));
    v.extend(subset_hists(a, &mut rng, &p));
    v.extend(random_hists(a, &mut rng, &p));
    v.extend(status_cases(a, &mut rng));
    v.extend(mint_cases(a, &mut rng));
    v
}
