//! Sale world for the three open-edition minters and the base minter:
//! open-edition-factory -> minter -> collection (+ optional whitelist of any kind) and
//! base-factory -> base-minter -> collection, driven by an operation language; every minter
//! step is recorded together with the oracle answers the real contracts gave at that
//! moment (factory params, whitelist view / collection creator) and the observations after
//! it, and printed as a Coq `oestep` / `bastep` (coq/corr/SaleOeCorr.v).
#![allow(dead_code)]
use crate::chain::{self, App};
use crate::util::*;
pub use crate::w_sale::{StepOut, BUYERS, CREATOR, IBC, PAYADDR, STRANGER};
use cosmwasm_std::{coin, Addr, Coin};
use cw_multi_test::Executor;
use serde_json::{json, Value};
use std::collections::BTreeMap;

pub const DEV: &str = "devaddr";
pub const NEWCREATOR: &str = "creator2";
const S: u64 = 1_000_000_000;

#[derive(Clone, Copy, Debug, PartialEq, Eq)]
pub struct OeVariant {
    pub name: &'static str,
    pub flex: bool,
    pub merkle: bool,
}
pub const OE_VARIANTS: [OeVariant; 3] = [
    OeVariant { name: "open-edition-minter", flex: false, merkle: false },
    OeVariant { name: "open-edition-minter-wl-flex", flex: true, merkle: false },
    OeVariant { name: "open-edition-minter-merkle-wl", flex: false, merkle: true },
];
impl OeVariant {
    pub fn code(&self) -> Box<dyn cw_multi_test::Contract<cosmwasm_std::Empty>> {
        match self.name {
            "open-edition-minter" => chain::open_edition_minter(),
            "open-edition-minter-wl-flex" => chain::open_edition_minter_wl_flex(),
            _ => chain::open_edition_minter_merkle_wl(),
        }
    }
    pub fn coq(&self) -> String {
        format!("(mkOV {} {})", coq_bool(self.flex), coq_bool(self.merkle))
    }
}

#[derive(Clone, Copy, Debug, PartialEq, Eq, serde::Serialize, serde::Deserialize)]
pub enum OeWl {
    None,
    Plain,
    Tiered,
    Flex,
    TieredFlex,
    Merkle,
    TieredMerkle,
    /// foreign whitelist contracts (harness mock, Config shaped for the variant's minter):
    /// claims to be tiered and reports active stage id 4
    MockStage4,
    /// its HasMember query fails
    MockNoMember,
    /// claims to be tiered, stage 1 active, its Stage query fails
    MockNoStage,
    /// (wl-flex) its Member query fails
    MockNoCount,
}
impl OeWl {
    pub fn from_u8(k: u8) -> OeWl {
        match k {
            6 => return OeWl::MockStage4,
            7 => return OeWl::MockNoMember,
            8 => return OeWl::MockNoStage,
            9 => return OeWl::MockNoCount,
            _ => {}
        }
        match k % 6 {
            0 => OeWl::Plain,
            1 => OeWl::Tiered,
            2 => OeWl::Flex,
            3 => OeWl::TieredFlex,
            4 => OeWl::Merkle,
            _ => OeWl::TieredMerkle,
        }
    }
    /// the kinds whose query interface the variant's minter can talk to
    pub fn compatible(v: &OeVariant) -> [OeWl; 2] {
        if v.flex {
            [OeWl::Flex, OeWl::TieredFlex]
        } else if v.merkle {
            [OeWl::Merkle, OeWl::TieredMerkle]
        } else {
            [OeWl::Plain, OeWl::Tiered]
        }
    }
}

#[derive(Clone, Debug, serde::Serialize, serde::Deserialize)]
pub struct OeFactoryParams {
    pub min_price: u128,
    pub denom: String,
    pub mint_fee_bps: u64,
    pub airdrop_price: u128,
    pub airdrop_fee_bps: u64,
    pub max_per_address: u32,
    pub max_token_limit: u32,
    pub offset_secs: u64,
    pub creation_fee: u128,
    pub dev: String,
}
impl Default for OeFactoryParams {
    fn default() -> Self {
        OeFactoryParams {
            min_price: 50,
            denom: NATIVE.into(),
            mint_fee_bps: 1000,
            airdrop_price: 40,
            airdrop_fee_bps: 5000,
            max_per_address: 10,
            max_token_limit: 12,
            offset_secs: 7 * 24 * 3600,
            creation_fee: 5_000,
            dev: DEV.into(),
        }
    }
}

#[derive(Clone, Debug, serde::Serialize, serde::Deserialize)]
pub struct OeCfg {
    pub variant: usize,
    pub fp: OeFactoryParams,
    pub num_tokens: Option<u32>,
    pub end_in_secs: Option<u64>,
    pub pal: u32,
    pub price: u128,
    pub start_in_secs: u64,
    pub payment_address: bool,
    pub wl: OeWl,
    /// whitelist window(s) relative to creation: (start_in, end_in) seconds; tiered kinds use all
    pub wl_windows: Vec<(u64, u64)>,
    pub wl_price: u128,
    pub wl_limit: u32,
    pub wl_stage_limit: Option<u32>,
    pub wl_flex_count: u32,
    /// spare whitelists created with the world (before the initial balance snapshot), to be
    /// attached later by `SetWhitelist { spare }`
    pub spares: Vec<SpareWl>,
    /// NFT metadata mode: false = OffChainMetadata (token_uri, sg721-base collection),
    /// true = OnChainMetadata (extension, sg721-metadata-onchain collection)
    #[serde(default)]
    pub onchain: bool,
    /// on-chain mode: the image URL of the extension as sent (None = the default, well-formed one;
    /// Some("") = no image field at all)
    #[serde(default)]
    pub image: Option<String>,
    /// tiered kinds: the price of stage i of the whitelist created with the world (empty = `wl_price` for all)
    #[serde(default)]
    pub wl_stage_prices: Vec<u128>,
}
pub const OE_TOKEN_URI: &str = "ipfs://bafybeigi3bwpvyvsmnbj46ra4hyffcxdeaj6ntfk5jpic5mx27x6ih2qvq/images/1.png";
pub const OE_IMAGE: &str = "https://example.com/editions/one.png";
#[derive(Clone, Debug, PartialEq, Eq, serde::Serialize, serde::Deserialize)]
pub struct SpareWl {
    /// `OeWl::from_u8(kind)`
    pub kind: u8,
    /// window relative to world creation (seconds)
    pub start_in: u64,
    pub end_in: u64,
    pub price: u128,
    pub ibc: bool,
}
impl OeCfg {
    pub fn basic(variant: usize) -> Self {
        OeCfg {
            variant,
            fp: OeFactoryParams::default(),
            num_tokens: Some(5),
            end_in_secs: Some(5000),
            pal: 3,
            price: 100,
            start_in_secs: 3000,
            payment_address: false,
            wl: OeWl::None,
            wl_windows: vec![(1000, 2000)],
            wl_price: 60,
            wl_limit: 2,
            wl_stage_limit: None,
            wl_flex_count: 2,
            spares: vec![],
            onchain: false,
            image: None,
            wl_stage_prices: vec![],
        }
    }
}

/// whitelist members (all kinds): address and, for the Merkle kinds, the allocation bound into the leaf
pub const WL_MEMBERS: [(&str, Option<u32>); 2] = [("buyer1", None), ("buyer2", Some(3))];

// ---------- Merkle trees of two leaves, written for the harness ----------
mod mk {
    use sha2::{Digest, Sha256};
    const IV: [u32; 8] =
        [0x6A09E667, 0xBB67AE85, 0x3C6EF372, 0xA54FF53A, 0x510E527F, 0x9B05688C, 0x1F83D9AB, 0x5BE0CD19];
    const PERM: [usize; 16] = [2, 6, 3, 10, 7, 0, 4, 13, 1, 11, 12, 5, 9, 14, 15, 8];
    fn g(st: &mut [u32; 16], a: usize, b: usize, c: usize, d: usize, mx: u32, my: u32) {
        st[a] = st[a].wrapping_add(st[b]).wrapping_add(mx);
        st[d] = (st[d] ^ st[a]).rotate_right(16);
        st[c] = st[c].wrapping_add(st[d]);
        st[b] = (st[b] ^ st[c]).rotate_right(12);
        st[a] = st[a].wrapping_add(st[b]).wrapping_add(my);
        st[d] = (st[d] ^ st[a]).rotate_right(8);
        st[c] = st[c].wrapping_add(st[d]);
        st[b] = (st[b] ^ st[c]).rotate_right(7);
    }
    /// BLAKE3 of an input of at most 64 bytes (one block, one chunk, root) -- enough for
    /// the leaves and two-child nodes of the tiered Merkle whitelist (16-byte truncation)
    pub fn blake3_short(input: &[u8]) -> [u8; 32] {
        assert!(input.len() <= 64);
        let mut block = [0u8; 64];
        block[..input.len()].copy_from_slice(input);
        let mut m = [0u32; 16];
        for i in 0..16 {
            m[i] = u32::from_le_bytes([block[4 * i], block[4 * i + 1], block[4 * i + 2], block[4 * i + 3]]);
        }
        let flags = 1 | 2 | 8; // CHUNK_START | CHUNK_END | ROOT
        let mut st = [IV[0], IV[1], IV[2], IV[3], IV[4], IV[5], IV[6], IV[7], IV[0], IV[1], IV[2], IV[3], 0, 0, input.len() as u32, flags];
        for r in 0..7 {
            g(&mut st, 0, 4, 8, 12, m[0], m[1]);
            g(&mut st, 1, 5, 9, 13, m[2], m[3]);
            g(&mut st, 2, 6, 10, 14, m[4], m[5]);
            g(&mut st, 3, 7, 11, 15, m[6], m[7]);
            g(&mut st, 0, 5, 10, 15, m[8], m[9]);
            g(&mut st, 1, 6, 11, 12, m[10], m[11]);
            g(&mut st, 2, 7, 8, 13, m[12], m[13]);
            g(&mut st, 3, 4, 9, 14, m[14], m[15]);
            if r < 6 {
                let mut p = [0u32; 16];
                for i in 0..16 {
                    p[i] = m[PERM[i]];
                }
                m = p;
            }
        }
        let mut out = [0u8; 32];
        for i in 0..8 {
            out[4 * i..4 * i + 4].copy_from_slice(&(st[i] ^ st[i + 8]).to_le_bytes());
        }
        out
    }
    fn h(kind16: bool, data: &[u8]) -> Vec<u8> {
        if kind16 {
            blake3_short(data)[..16].to_vec()
        } else {
            Sha256::digest(data).to_vec()
        }
    }
    /// (root, proof for leaf a, proof for leaf b) of the two-leaf tree
    pub fn tree2(kind16: bool, a: &str, b: &str) -> (String, Vec<String>, Vec<String>) {
        let ha = h(kind16, a.as_bytes());
        let hb = h(kind16, b.as_bytes());
        let mut pair = [ha.clone(), hb.clone()];
        pair.sort();
        let root = h(kind16, &pair.concat());
        (hex::encode(root), vec![hex::encode(&hb)], vec![hex::encode(&ha)])
    }
    pub fn selftest() {
        assert_eq!(hex::encode(blake3_short(b"")), "af1349b9f5f9a1a6a0404dea36dcc9499bcb25c9adc112b7cc9a93cae41f3262");
    }
}

// ---------- a foreign whitelist contract ----------
/// Anyone can name any contract as whitelist (SetWhitelist only asks for its Config).  This one
/// answers the queries a minter issues with what it was instantiated with; `null` = the query fails.
pub mod mockwl {
    use cosmwasm_std::{Binary, Deps, DepsMut, Empty, Env, MessageInfo, Response, StdError, StdResult};
    use serde::{Deserialize, Serialize};
    #[derive(Serialize, Deserialize, Debug, Clone)]
    pub struct Init {
        /// cw2 contract name
        pub name: String,
        pub start: u64,
        pub end: u64,
        /// JSON text of the Config answer (is_active is computed from the window)
        pub config: String,
        pub has_member: Option<bool>,
        pub member_count: Option<u32>,
        pub stage_id: Option<u32>,
        /// JSON text of the Stage answer
        pub stage: Option<String>,
    }
    #[derive(Serialize, Deserialize, Debug)]
    #[serde(rename_all = "snake_case")]
    pub enum Query {
        Config {},
        HasMember { member: String, proof_hashes: Option<Vec<String>> },
        Member { member: String },
        ActiveStageId {},
        Stage { stage_id: u32 },
    }
    fn instantiate(deps: DepsMut, _e: Env, _i: MessageInfo, msg: Init) -> StdResult<Response> {
        cw2::set_contract_version(deps.storage, msg.name.clone(), "1.0.0")?;
        deps.storage.set(b"init", &serde_json::to_vec(&msg).unwrap());
        Ok(Response::new())
    }
    fn execute(_d: DepsMut, _e: Env, _i: MessageInfo, _m: Empty) -> StdResult<Response> {
        Ok(Response::new())
    }
    fn query(deps: Deps, env: Env, msg: Query) -> StdResult<Binary> {
        let init: Init = serde_json::from_slice(&deps.storage.get(b"init").unwrap()).unwrap();
        let fail = || StdError::generic_err("no answer");
        let text = match msg {
            Query::Config {} => {
                let mut v: serde_json::Value = serde_json::from_str(&init.config).unwrap();
                let now = env.block.time.nanos();
                v["is_active"] = serde_json::json!(init.start <= now && now < init.end);
                v.to_string()
            }
            Query::HasMember { .. } => format!("{{\"has_member\":{}}}", init.has_member.ok_or_else(fail)?),
            Query::Member { member } => format!("{{\"address\":\"{}\",\"mint_count\":{}}}", member, init.member_count.ok_or_else(fail)?),
            Query::ActiveStageId {} => init.stage_id.ok_or_else(fail)?.to_string(),
            Query::Stage { .. } => init.stage.ok_or_else(fail)?,
        };
        Ok(Binary::from(text.into_bytes()))
    }
    pub fn code() -> Box<dyn cw_multi_test::Contract<Empty>> {
        Box::new(cw_multi_test::ContractWrapper::new(execute, instantiate, query))
    }
}

fn ts(n: u64) -> Value {
    json!(n.to_string())
}
fn coinv(amount: u128, denom: &str) -> Value {
    json!({"amount": amount.to_string(), "denom": denom})
}
fn funds_of(fs: &[(String, u128)]) -> Vec<Coin> {
    fs.iter().map(|(d, a)| coin(*a, d.clone())).collect()
}
fn parse_ts_display(s: &str) -> u64 {
    // Timestamp Display: "<seconds>.<9-digit nanos>"
    let mut it = s.split('.');
    let secs: u64 = it.next().unwrap().parse().unwrap();
    let nanos: u64 = it.next().map(|n| n.parse().unwrap()).unwrap_or(0);
    secs * S + nanos
}
fn leaf_of(who: &str, alloc: Option<u32>) -> String {
    match alloc {
        Some(a) => format!("{}{}", who, a),
        None => who.to_string(),
    }
}
fn collection_params(sg721_code: u64) -> Value {
    json!({"code_id": sg721_code, "name": "Collection", "symbol": "COL",
           "info": {"creator": CREATOR, "description": "d", "image": "https://example.com/image.png",
                    "external_link": "https://example.com/external.html", "explicit_content": false,
                    "start_trading_time": null,
                    "royalty_info": {"payment_address": CREATOR, "share": "0.1"}}})
}
fn fixed_addr_ids() -> Ids {
    Ids::with_fixed(
        &[(FOUNDATION, 1), (LAUNCHPAD_DAO, 2), (LIQUIDITY_DAO, 3), (chain::FAIRBURN_POOL, 4), ("#burned", 5)],
        10,
    )
}
fn minted_from_events(r: &cw_multi_test::AppResponse) -> Option<u64> {
    let mut out = None;
    for ev in &r.events {
        if ev.ty == "wasm" {
            if let Some(a) = ev.attributes.iter().find(|a| a.key == "token_id") {
                if ev.attributes.iter().any(|a| a.key == "action" && a.value.starts_with("mint")) {
                    out = Some(a.value.parse().unwrap_or(0));
                }
            }
        }
    }
    out
}
fn owner_of(app: &App, collection: &Addr, token: u64) -> Option<String> {
    app.wrap()
        .query_wasm_smart::<Value>(collection.clone(), &json!({"owner_of": {"token_id": token.to_string(), "include_expired": null}}))
        .ok()
        .and_then(|v| v["owner"].as_str().map(|s| s.to_string()))
}
fn all_tokens(app: &App, collection: &Addr) -> Vec<String> {
    let mut out: Vec<String> = vec![];
    loop {
        let v = app
            .wrap()
            .query_wasm_smart::<Value>(collection.clone(), &json!({"all_tokens": {"start_after": out.last(), "limit": 100}}))
            .unwrap();
        let page: Vec<String> = v["tokens"].as_array().unwrap().iter().map(|t| t.as_str().unwrap().to_string()).collect();
        if page.is_empty() {
            break;
        }
        out.extend(page);
    }
    out
}
fn num_tokens_collection(app: &App, collection: &Addr) -> u64 {
    app.wrap().query_wasm_smart::<Value>(collection.clone(), &json!({"num_tokens": {}})).unwrap()["count"].as_u64().unwrap()
}
fn trading_time(app: &App, collection: &Addr) -> Option<u64> {
    let v = app.wrap().query_wasm_smart::<Value>(collection.clone(), &json!({"collection_info": {}})).unwrap();
    v["start_trading_time"].as_str().map(|s| s.parse().unwrap())
}

pub struct OeWorld {
    pub app: App,
    pub v: OeVariant,
    pub cfg: OeCfg,
    pub factory: Addr,
    pub minter: Addr,
    pub collection: Addr,
    pub whitelist: Option<Addr>,
    pub wl_kind: OeWl,
    pub spare_whitelist: Option<Addr>,
    pub spares: Vec<Option<Addr>>,
    /// id <-> text of token uris and (canonical JSON of) extensions
    pub blobs: Ids,
    /// harness ledger: tokens burned on the collection by their holders (they stay "issued")
    pub holder_burned: u64,
    /// harness ledger: what the collection stored for each token right after its mint
    /// (id, owner, token_uri, extension), in mint order
    pub mint_ledger: Vec<(u64, String, Value, Value)>,
    pub addrs: Ids,
    pub denoms: Ids,
    pub t0: u64,
    pub initial_supply: BTreeMap<String, u128>,
    pub wl_code: BTreeMap<&'static str, u64>,
    /// Merkle data per whitelist address: is it the tiered (blake3/16) kind, proofs per member
    pub merkle: BTreeMap<String, BTreeMap<String, (Vec<String>, Option<u32>)>>,
    /// Merkle mint arguments of the step being run: (stage, proof hashes, allocation)
    pub proof_ctx: Option<(Option<u32>, Vec<String>, Option<u32>)>,
    /// cw2 (name, version) the minter stored at creation
    pub own_cw2: (String, String),
}

impl OeWorld {
    pub fn tracked_accounts(&self) -> Vec<String> {
        let mut v: Vec<String> = vec![CREATOR.into(), PAYADDR.into()];
        v.extend(BUYERS.iter().map(|s| s.to_string()));
        v.push(STRANGER.into());
        v.push(self.minter.to_string());
        v.push(self.factory.to_string());
        v.push(FOUNDATION.into());
        v.push(LAUNCHPAD_DAO.into());
        v.push(LIQUIDITY_DAO.into());
        v.push(chain::FAIRBURN_POOL.into());
        v.push(DEV.into());
        v
    }
    pub fn count_accounts(&self) -> Vec<String> {
        let mut v: Vec<String> = vec![CREATOR.into()];
        v.extend(BUYERS.iter().map(|s| s.to_string()));
        v.push(STRANGER.into());
        v
    }

    fn fp_json(fp: &OeFactoryParams, code_id: u64, sg721_ids: &[u64]) -> Value {
        json!({"params": {
            "code_id": code_id, "allowed_sg721_code_ids": sg721_ids, "frozen": false,
            "creation_fee": coinv(fp.creation_fee, NATIVE),
            "min_mint_price": coinv(fp.min_price, &fp.denom),
            "mint_fee_bps": fp.mint_fee_bps,
            "max_trading_offset_secs": fp.offset_secs,
            "extension": {
                "max_token_limit": fp.max_token_limit, "max_per_address_limit": fp.max_per_address,
                "airdrop_mint_fee_bps": fp.airdrop_fee_bps,
                "airdrop_mint_price": coinv(fp.airdrop_price, &fp.denom),
                "dev_fee_address": fp.dev
            }}})
    }

    /// the nft_data of the creation request (what is SENT; the minter trims / normalises the URL)
    pub fn nft_data_json(cfg: &OeCfg) -> Value {
        if cfg.onchain {
            let mut ext = json!({"image": cfg.image.clone().unwrap_or_else(|| OE_IMAGE.to_string()), "image_data": null,
                "external_url": "https://example.com/editions", "description": "An open edition with on-chain metadata",
                "name": "Edition One", "attributes": [{"display_type": null, "trait_type": "kind", "value": "open edition"}],
                "background_color": null, "animation_url": null, "youtube_url": null});
            if cfg.image.as_deref() == Some("") {
                ext["image"] = Value::Null;
            }
            json!({"nft_data_type": "on_chain_metadata", "extension": ext, "token_uri": null})
        } else {
            json!({"nft_data_type": "off_chain_metadata", "extension": null, "token_uri": OE_TOKEN_URI})
        }
    }

    /// Build the world through the open-edition factory; Err(reason) if creation is rejected.
    pub fn new(cfg: OeCfg) -> Result<OeWorld, String> {
        mk::selftest();
        let v = OE_VARIANTS[cfg.variant];
        let mut app = chain::new_app();
        let t0 = chain::now(&app);
        let mut addrs = fixed_addr_ids();
        let mut denoms = denom_ids();
        denoms.id(IBC);
        for a in [CREATOR, PAYADDR, BUYERS[0], BUYERS[1], BUYERS[2], STRANGER] {
            addrs.id(a);
            chain::mint_coins(&mut app, a, 1_000_000_000_000, NATIVE);
            chain::mint_coins(&mut app, a, 1_000_000_000_000, IBC);
        }
        addrs.id(DEV);
        let minter_code = app.store_code(v.code());
        let factory_code = app.store_code(chain::open_edition_factory());
        let sg721_base_code = app.store_code(chain::sg721_base());
        let mut wl_code = BTreeMap::new();
        wl_code.insert("plain", app.store_code(chain::whitelist()));
        wl_code.insert("tiered", app.store_code(chain::tiered_whitelist()));
        wl_code.insert("flex", app.store_code(chain::whitelist_flex()));
        wl_code.insert("tiered-flex", app.store_code(chain::tiered_whitelist_flex()));
        wl_code.insert("merkle", app.store_code(chain::whitelist_merkletree()));
        wl_code.insert("tiered-merkle", app.store_code(chain::tiered_whitelist_merkletree()));
        let sg721_onchain_code = app.store_code(chain::sg721_metadata_onchain());
        wl_code.insert("mock", app.store_code(mockwl::code()));
        let sg721_code = if cfg.onchain { sg721_onchain_code } else { sg721_base_code };
        let factory = app
            .instantiate_contract(
                factory_code,
                Addr::unchecked(CREATOR),
                &Self::fp_json(&cfg.fp, minter_code, &[sg721_base_code, sg721_onchain_code]),
                &[],
                "factory",
                None,
            )
            .map_err(|e| format!("factory: {:#}", e))?;
        let mut w = OeWorld {
            app,
            v,
            cfg: cfg.clone(),
            factory,
            minter: Addr::unchecked("none"),
            collection: Addr::unchecked("none"),
            whitelist: None,
            wl_kind: cfg.wl,
            spare_whitelist: None,
            spares: vec![],
            blobs: Ids::with_fixed(&[], 1),
            holder_burned: 0,
            mint_ledger: vec![],
            addrs,
            denoms,
            t0,
            initial_supply: BTreeMap::new(),
            wl_code,
            merkle: BTreeMap::new(),
            proof_ctx: None,
            own_cw2: (String::new(), String::new()),
        };
        let denom = cfg.fp.denom.clone();
        if cfg.wl != OeWl::None {
            let a = w.make_whitelist(cfg.wl, &cfg.wl_windows, cfg.wl_price, &denom, cfg.wl_limit, cfg.wl_stage_limit)?;
            w.whitelist = Some(a);
        }
        for sp in cfg.spares.clone() {
            let d = if sp.ibc { IBC } else { NATIVE };
            let r = w.make_whitelist(OeWl::from_u8(sp.kind), &[(sp.start_in, sp.end_in)], sp.price, d, cfg.wl_limit, None);
            w.spares.push(r.ok());
        }
        let create = json!({"create_minter": {
            "init_msg": {
                "nft_data": Self::nft_data_json(&cfg),
                "payment_address": if cfg.payment_address { Some(PAYADDR) } else { None },
                "start_time": ts(t0 + cfg.start_in_secs * S),
                "end_time": cfg.end_in_secs.map(|e| ts(t0 + e * S)),
                "num_tokens": cfg.num_tokens,
                "mint_price": coinv(cfg.price, &denom),
                "per_address_limit": cfg.pal,
                "whitelist": w.whitelist.as_ref().map(|a| a.to_string()),
            },
            "collection_params": collection_params(sg721_code)}});
        let fee = if cfg.fp.creation_fee > 0 { vec![coin(cfg.fp.creation_fee, NATIVE)] } else { vec![] };
        chain::exec(&mut w.app, CREATOR, &w.factory.clone(), &create, &fee).map_err(|e| format!("create: {}", e))?;
        let cfgq: Value = w.find_minter().ok_or_else(|| "minter not found after creation".to_string())?;
        w.collection = Addr::unchecked(cfgq["sg721_address"].as_str().unwrap());
        for a in [w.minter.to_string(), w.factory.to_string(), w.collection.to_string()] {
            w.addrs.id(&a);
        }
        for d in [NATIVE, IBC] {
            w.initial_supply.insert(d.to_string(), chain::supply(&w.app, d));
        }
        w.own_cw2 = crate::w_migrate::get_cw2(&w.app, &w.minter);
        Ok(w)
    }

    fn find_minter(&mut self) -> Option<Value> {
        for n in (0..40).rev() {
            let a = Addr::unchecked(format!("contract{}", n));
            if let Ok(v) = self.app.wrap().query_wasm_smart::<Value>(a.clone(), &json!({"config": {}})) {
                if v.get("sg721_address").is_some() && v.get("factory").is_some() {
                    self.minter = a;
                    return Some(v);
                }
            }
        }
        None
    }

    /// instantiate a whitelist of any kind (admin = CREATOR) with members WL_MEMBERS
    pub fn make_whitelist(
        &mut self,
        kind: OeWl,
        windows: &[(u64, u64)],
        price: u128,
        denom: &str,
        limit: u32,
        stage_limit: Option<u32>,
    ) -> Result<Addr, String> {
        let now = chain::now(&self.app);
        let members: Vec<&str> = WL_MEMBERS.iter().map(|m| m.0).collect();
        let flexm: Vec<Value> = members.iter().map(|m| json!({"address": m, "mint_count": self.cfg.wl_flex_count})).collect();
        // per-stage prices apply to the whitelist created with the world (its windows are cfg.wl_windows)
        let stage_prices: Vec<u128> = if windows == self.cfg.wl_windows.as_slice() { self.cfg.wl_stage_prices.clone() } else { vec![] };
        let stages: Vec<Value> = windows
            .iter()
            .enumerate()
            .map(|(i, (s, e))| {
                let price = stage_prices.get(i).copied().unwrap_or(price);
                json!({"name": format!("stage{}", i), "start_time": ts(now + s * S), "end_time": ts(now + e * S),
                       "mint_price": coinv(price, denom), "per_address_limit": limit, "mint_count_limit": stage_limit})
            })
            .collect();
        let l0 = leaf_of(WL_MEMBERS[0].0, WL_MEMBERS[0].1);
        let l1 = leaf_of(WL_MEMBERS[1].0, WL_MEMBERS[1].1);
        let mut fee = 100_000_000u128;
        let mut proofs: Option<(Vec<String>, Vec<String>)> = None;
        let (code, msg) = match kind {
            OeWl::Plain => (
                "plain",
                json!({"members": members, "start_time": ts(now + windows[0].0 * S), "end_time": ts(now + windows[0].1 * S),
                       "mint_price": coinv(price, denom), "per_address_limit": limit, "member_limit": 1000,
                       "admins": [CREATOR], "admins_mutable": true}),
            ),
            OeWl::Flex => (
                "flex",
                json!({"members": flexm, "start_time": ts(now + windows[0].0 * S), "end_time": ts(now + windows[0].1 * S),
                       "mint_price": coinv(price, denom), "member_limit": 1000, "admins": [CREATOR],
                       "admins_mutable": true, "whale_cap": null}),
            ),
            OeWl::Tiered => (
                "tiered",
                json!({"members": windows.iter().map(|_| members.clone()).collect::<Vec<_>>(), "stages": stages,
                       "member_limit": 1000, "admins": [CREATOR], "admins_mutable": true}),
            ),
            OeWl::TieredFlex => (
                "tiered-flex",
                // the flex stage type has no per_address_limit field
                json!({"members": windows.iter().map(|_| flexm.clone()).collect::<Vec<_>>(),
                       "stages": stages.iter().map(|s| { let mut s = s.clone(); s.as_object_mut().unwrap().remove("per_address_limit"); s }).collect::<Vec<_>>(),
                       "member_limit": 1000, "admins": [CREATOR], "admins_mutable": true, "whale_cap": null}),
            ),
            OeWl::Merkle => {
                let (root, p0, p1) = mk::tree2(false, &l0, &l1);
                proofs = Some((p0, p1));
                fee = 1_000_000_000;
                (
                    "merkle",
                    json!({"merkle_root": root, "merkle_tree_uri": null,
                           "start_time": ts(now + windows[0].0 * S), "end_time": ts(now + windows[0].1 * S),
                           "mint_price": coinv(price, denom), "per_address_limit": limit,
                           "admins": [CREATOR], "admins_mutable": true}),
                )
            }
            OeWl::TieredMerkle => {
                let (root, p0, p1) = mk::tree2(true, &l0, &l1);
                proofs = Some((p0, p1));
                fee = 1_000_000_000;
                (
                    "tiered-merkle",
                    json!({"stages": stages, "merkle_roots": windows.iter().map(|_| root.clone()).collect::<Vec<_>>(),
                           "merkle_tree_uris": null, "admins": [CREATOR], "admins_mutable": true}),
                )
            }
            OeWl::MockStage4 | OeWl::MockNoMember | OeWl::MockNoStage | OeWl::MockNoCount => {
                let (st, en) = (now + windows[0].0 * S, now + windows[0].1 * S);
                let mut config = json!({"num_members": 2, "member_limit": 1000, "start_time": ts(st), "end_time": ts(en),
                    "mint_price": coinv(price, denom), "is_active": false});
                if self.v.flex {
                    config["whale_cap"] = Value::Null;
                } else {
                    config["per_address_limit"] = json!(limit);
                }
                let tiered = matches!(kind, OeWl::MockStage4 | OeWl::MockNoStage);
                let mut stage = json!({"name": "stage", "start_time": ts(st), "end_time": ts(en), "mint_price": coinv(price, denom), "mint_count_limit": null});
                if !self.v.flex {
                    stage["per_address_limit"] = json!(limit);
                }
                let init = mockwl::Init {
                    name: if tiered { "crates.io:foreign-tiered-whitelist".into() } else { "crates.io:foreign-whitelist".into() },
                    start: st,
                    end: en,
                    config: config.to_string(),
                    has_member: if kind == OeWl::MockNoMember { None } else { Some(true) },
                    member_count: if kind == OeWl::MockNoCount { None } else { Some(5) },
                    stage_id: Some(if kind == OeWl::MockStage4 { 4 } else { 1 }),
                    stage: if kind == OeWl::MockNoStage { None } else { Some(json!({"stage": stage}).to_string()) },
                };
                fee = 0;
                ("mock", serde_json::to_value(&init).unwrap())
            }
            OeWl::None => return Err("no whitelist".into()),
        };
        let code_id = self.wl_code[code];
        let r = crate::util::catch(|| {
            let funds = if fee > 0 { vec![coin(fee, NATIVE)] } else { vec![] };
            self.app.instantiate_contract(code_id, Addr::unchecked(CREATOR), &msg, &funds, "wl", None)
        });
        match r {
            Ok(Ok(a)) => {
                self.addrs.id(a.as_str());
                if let Some((p0, p1)) = proofs {
                    let mut m = BTreeMap::new();
                    m.insert(WL_MEMBERS[0].0.to_string(), (p0, WL_MEMBERS[0].1));
                    m.insert(WL_MEMBERS[1].0.to_string(), (p1, WL_MEMBERS[1].1));
                    self.merkle.insert(a.to_string(), m);
                }
                Ok(a)
            }
            Ok(Err(e)) => Err(format!("whitelist: {:#}", e)),
            Err(p) => Err(p),
        }
    }

    // ---------- oracle collection ----------
    pub fn factory_params(&self) -> Value {
        self.app.wrap().query_wasm_smart::<Value>(self.factory.clone(), &json!({"params": {}})).unwrap()["params"].clone()
    }
    pub fn fp_coq(&mut self) -> String {
        let p = self.factory_params();
        let n = |v: &Value| v.as_str().map(|s| s.to_string()).unwrap_or_else(|| v.to_string());
        let e = &p["extension"];
        let min_d = self.denoms.id(p["min_mint_price"]["denom"].as_str().unwrap());
        let air_d = self.denoms.id(e["airdrop_mint_price"]["denom"].as_str().unwrap());
        let dev_s = e["dev_fee_address"].as_str().unwrap().to_string();
        let dev_ok = {
            use cosmwasm_std::Api;
            self.app.api().addr_validate(&dev_s).is_ok()
        };
        let dev = if dev_ok { format!("(Some {})", self.addrs.id(&dev_s)) } else { "None".to_string() };
        format!(
            "(mkOFP {} {} {} {} {} {} {} {} {} {})",
            n(&p["min_mint_price"]["amount"]),
            min_d,
            p["mint_fee_bps"],
            n(&e["airdrop_mint_price"]["amount"]),
            air_d,
            e["airdrop_mint_fee_bps"],
            e["max_per_address_limit"],
            e["max_token_limit"],
            p["max_trading_offset_secs"],
            dev
        )
    }

    /// the whitelist's Config answer, if this variant's minter can parse it
    fn typed_config(&self, wl: &Addr) -> Option<Value> {
        let v = self.app.wrap().query_wasm_smart::<Value>(wl.clone(), &json!({"config": {}})).ok()?;
        let ok = if self.v.flex {
            serde_json::from_value::<sg_whitelist_flex::msg::ConfigResponse>(v.clone()).is_ok()
        } else if self.v.merkle {
            serde_json::from_value::<whitelist_mtree::msg::ConfigResponse>(v.clone()).is_ok()
        } else {
            serde_json::from_value::<sg_whitelist::msg::ConfigResponse>(v.clone()).is_ok()
        };
        if ok {
            Some(v)
        } else {
            None
        }
    }

    /// What `wl` answers right now to the queries this variant's minter issues on behalf of `sender`.
    pub fn wl_view(&mut self, wl: &Addr, sender: &str) -> Option<String> {
        let q = |app: &App, m: Value| -> Option<Value> { app.wrap().query_wasm_smart::<Value>(wl.clone(), &m).ok() };
        let cfg = self.typed_config(wl)?;
        let active = cfg.get("is_active")?.as_bool()?;
        let price: u128 = cfg["mint_price"]["amount"].as_str()?.parse().ok()?;
        let denom = self.denoms.id(cfg["mint_price"]["denom"].as_str()?);
        let limit = cfg.get("per_address_limit").and_then(|x| x.as_u64()).unwrap_or(0);
        let member_limit = cfg.get("member_limit").and_then(|x| x.as_u64()).unwrap_or(0);
        let num_members = cfg.get("num_members").and_then(|x| x.as_u64()).unwrap_or(0);
        let has_plain = q(&self.app, json!({"has_member": {"member": sender}})).and_then(|v| v["has_member"].as_bool());
        let tiered = cw2::query_contract_info(&self.app.wrap(), wl.clone())
            .map(|i| i.contract.contains("tiered-whitelist"))
            .unwrap_or(false);
        let stage_id = q(&self.app, json!({"active_stage_id": {}})).and_then(|v| v.as_u64());
        let stage_limit: Option<Option<u64>> = match stage_id {
            Some(id) if id >= 1 => {
                q(&self.app, json!({"stage": {"stage_id": id - 1}})).map(|v| v["stage"]["mint_count_limit"].as_u64())
            }
            _ => None,
        };
        let flex = q(&self.app, json!({"member": {"member": sender}})).and_then(|v| v["mint_count"].as_u64());
        let has_proof: Option<bool> = match &self.proof_ctx {
            Some((stage, proof, alloc)) => {
                let leaf = match (stage, alloc) {
                    (None, Some(a)) => format!("{}{}", sender, a),
                    (Some(s), None) => format!("{}{}", s, sender),
                    (Some(s), Some(a)) => format!("{}{}{}", s, sender, a),
                    (None, None) => sender.to_string(),
                };
                q(&self.app, json!({"has_member": {"member": leaf, "proof_hashes": proof}})).and_then(|v| v["has_member"].as_bool())
            }
            None => None,
        };
        let ob = |o: Option<bool>| match o {
            Some(b) => format!("(Some {})", coq_bool(b)),
            None => "None".into(),
        };
        let sl = match stage_limit {
            None => "None".to_string(),
            Some(None) => "(Some None)".to_string(),
            Some(Some(x)) => format!("(Some (Some {}))", x),
        };
        Some(format!(
            "(Some (mkWV {} {} {} {} {} {} {} {} {} {} {} {}))",
            coq_bool(active),
            price,
            denom,
            limit,
            member_limit,
            num_members,
            ob(has_plain),
            ob(has_proof),
            coq_bool(tiered),
            coq_opt_n(stage_id),
            sl,
            coq_opt_n(flex)
        ))
    }
    pub fn cur_wl_view(&mut self, sender: &str) -> String {
        let wl = self.minter_config()["whitelist"].as_str().map(Addr::unchecked);
        match wl {
            Some(a) => self.wl_view(&a, sender).unwrap_or_else(|| "None".into()),
            None => "None".into(),
        }
    }

    // ---------- observations ----------
    fn qm(&self, m: Value) -> Option<Value> {
        self.app.wrap().query_wasm_smart::<Value>(self.minter.clone(), &m).ok()
    }
    pub fn minter_config(&self) -> Value {
        self.qm(json!({"config": {}})).unwrap()
    }
    pub fn mintable(&self) -> Option<u64> {
        self.qm(json!({"mintable_num_tokens": {}})).unwrap()["count"].as_u64()
    }
    pub fn total_mint_count(&self) -> u64 {
        self.qm(json!({"total_mint_count": {}})).unwrap()["count"].as_u64().unwrap()
    }
    pub fn end_time(&self) -> Option<u64> {
        self.minter_config()["end_time"].as_str().map(|s| s.parse().unwrap())
    }
    pub fn mint_count(&self, who: &str) -> (u64, u64) {
        let v = self.qm(json!({"mint_count": {"address": who}})).unwrap();
        (v["count"].as_u64().unwrap(), v.get("whitelist_count").and_then(|x| x.as_u64()).unwrap_or(0))
    }
    pub fn token_index_raw(&self) -> u64 {
        let st = self.app.contract_storage(&self.minter);
        open_edition_minter::state::TOKEN_INDEX.may_load(&*st).unwrap().unwrap_or(0)
    }
    pub fn trading_time(&self) -> Option<u64> {
        trading_time(&self.app, &self.collection)
    }
    pub fn all_tokens(&self) -> Vec<String> {
        all_tokens(&self.app, &self.collection)
    }
    pub fn num_tokens_collection(&self) -> u64 {
        num_tokens_collection(&self.app, &self.collection)
    }

    /// the observation vector, same layout as SaleOeCorr.oe_observe
    pub fn observe(&mut self) -> Vec<u128> {
        let c = self.minter_config();
        let mut v: Vec<u128> = vec![];
        let optn = |v: &mut Vec<u128>, o: Option<u128>| match o {
            Some(x) => v.extend([1, x]),
            None => v.extend([0, 0]),
        };
        v.push(self.addrs.id(c["admin"].as_str().unwrap()) as u128);
        let pay = c["payment_address"].as_str().map(|a| self.addrs.id(a) as u128);
        optn(&mut v, pay);
        v.push(c["per_address_limit"].as_u64().unwrap() as u128);
        optn(&mut v, c["num_tokens"].as_u64().map(|x| x as u128));
        optn(&mut v, c["end_time"].as_str().map(|s| s.parse().unwrap()));
        v.push(c["start_time"].as_str().unwrap().parse().unwrap());
        v.push(c["mint_price"]["amount"].as_str().unwrap().parse().unwrap());
        v.push(self.denoms.id(c["mint_price"]["denom"].as_str().unwrap()) as u128);
        let wl = c["whitelist"].as_str().map(|a| self.addrs.id(a) as u128);
        optn(&mut v, wl);
        match self.qm(json!({"mint_price": {}})) {
            Some(p) => {
                v.push(1);
                for k in ["current_price", "public_price", "airdrop_price"] {
                    v.push(p[k]["amount"].as_str().unwrap().parse().unwrap());
                    v.push(self.denoms.id(p[k]["denom"].as_str().unwrap()) as u128);
                }
                match p["whitelist_price"].get("amount") {
                    Some(a) => {
                        v.push(1);
                        v.push(a.as_str().unwrap().parse().unwrap());
                        v.push(self.denoms.id(p["whitelist_price"]["denom"].as_str().unwrap()) as u128);
                    }
                    None => v.extend([0, 0, 0]),
                }
            }
            None => v.extend([0; 10]),
        }
        let st = self.qm(json!({"start_time": {}})).unwrap();
        v.push(parse_ts_display(st["start_time"].as_str().unwrap()) as u128);
        let en = self.qm(json!({"end_time": {}})).unwrap();
        optn(&mut v, en["end_time"].as_str().map(|s| parse_ts_display(s) as u128));
        v.push(self.total_mint_count() as u128);
        optn(&mut v, self.mintable().map(|x| x as u128));
        v.push(self.token_index_raw() as u128);
        // tokens ever handed to the collection = live tokens + tokens their holders burned (ledger)
        v.push((self.num_tokens_collection() + self.holder_burned) as u128);
        optn(&mut v, self.trading_time().map(|x| x as u128));
        for a in self.count_accounts() {
            let (c, wl) = self.mint_count(&a);
            v.push(c as u128);
            v.push(wl as u128);
        }
        v
    }

    pub fn balances_coq(&mut self) -> String {
        let mut items = vec![];
        for a in self.tracked_accounts() {
            for d in [NATIVE, IBC] {
                let id = self.addrs.id(&a);
                let did = self.denoms.id(d);
                items.push(format!("({}, {}, {})", id, did, chain::balance(&self.app, &a, d)));
            }
        }
        for d in [NATIVE, IBC] {
            let did = self.denoms.id(d);
            let burned = self.initial_supply[d] - chain::supply(&self.app, d);
            items.push(format!("(5, {}, {})", did, burned));
        }
        coq_list(&items)
    }
    pub fn balances_raw(&self) -> BTreeMap<(String, String), u128> {
        let mut m = BTreeMap::new();
        for a in self.tracked_accounts() {
            for d in [NATIVE, IBC] {
                m.insert((a.clone(), d.to_string()), chain::balance(&self.app, &a, d));
            }
        }
        for d in [NATIVE, IBC] {
            m.insert(("#supply".into(), d.to_string()), chain::supply(&self.app, d));
        }
        m
    }

    /// initial model state from the minter's own queries and raw storage
    pub fn init_state_coq(&mut self) -> String {
        let c = self.minter_config();
        let admin = self.addrs.id(c["admin"].as_str().unwrap());
        let pay = c["payment_address"].as_str().map(|a| self.addrs.id(a));
        let wl = c["whitelist"].as_str().map(|a| self.addrs.id(a));
        let denom = self.denoms.id(c["mint_price"]["denom"].as_str().unwrap());
        let start: u64 = c["start_time"].as_str().unwrap().parse().unwrap();
        let end: Option<u64> = c["end_time"].as_str().map(|s| s.parse().unwrap());
        format!(
            "(mkOS {} {} {} {} {} {} {} {} {} {} {} {} 0 [] [] [] [] [] 0 0 0 [] 0 {})",
            admin,
            coq_opt_n(pay),
            coq_opt_n(c["num_tokens"].as_u64()),
            c["per_address_limit"],
            coq_opt_n(wl),
            start,
            coq_opt_n(end),
            c["mint_price"]["amount"].as_str().unwrap(),
            denom,
            coq_opt_n(self.mintable()),
            self.token_index_raw(),
            self.total_mint_count(),
            coq_opt_n(self.trading_time())
        )
    }
}

// ---------- operation language (open edition + base) ----------
#[derive(Clone, Debug, PartialEq, Eq, serde::Serialize, serde::Deserialize)]
pub enum OeOp {
    /// advance the clock to t0 + secs*1e9 + nanos (absolute, relative to world creation)
    At { secs: u64, nanos: i64 },
    /// honest mint: on the Merkle variant a member sends its own proof (and allocation)
    Mint { who: String, funds: Vec<(String, u128)> },
    /// Mint with explicit Merkle arguments (merkle-wl variant only)
    MintM { who: String, funds: Vec<(String, u128)>, stage: Option<u32>, proof: Option<Vec<String>>, allocation: Option<u32> },
    MintTo { who: String, recipient: String, funds: Vec<(String, u128)> },
    Purge { who: String },
    BurnRemaining { who: String },
    UpdateMintPrice { who: String, price: u128 },
    UpdateStartTime { who: String, secs: u64, nanos: i64 },
    UpdateEndTime { who: String, secs: u64, nanos: i64 },
    UpdateStartTradingTime { who: String, t: Option<(u64, i64)> },
    UpdatePerAddressLimit { who: String, limit: u32 },
    /// attach spare whitelist number `spare` of the configuration
    SetWhitelist { who: String, spare: usize },
    /// governance on the open-edition factory
    SudoParams {
        min_price: Option<u128>,
        mint_fee_bps: Option<u64>,
        airdrop_price: Option<u128>,
        airdrop_fee_bps: Option<u64>,
        offset: Option<u64>,
        max_pal: Option<u32>,
        max_token_limit: Option<u32>,
        dev: Option<String>,
    },
    /// migrate the open-edition minter to its own code id, sent by `who`; `stored` first
    /// rewrites the cw2 (name, version) the contract holds
    Migrate {
        who: String,
        #[serde(default)]
        stored: Option<(String, String)>,
    },
    // ---- base minter ----
    BaseMint { who: String, uri: String, funds: Vec<(String, u128)> },
    BaseUpdateStartTradingTime { who: String, t: Option<(u64, i64)> },
    /// governance on the base factory
    BaseSudoParams { min_price: Option<u128>, mint_fee_bps: Option<u64> },
    /// the collection creator hands the collection over
    BaseSetCreator { who: String, new: String },
    // ---- holder side (both worlds), sent to the COLLECTION, not a minter step ----
    /// cw721 Burn of `token_id` by `who` (`who` may be "@owner": whoever holds the token right now)
    Burn { who: String, token_id: u32 },
    /// cw721 TransferNft of `token_id` from `who` to `to`
    TransferNft { who: String, to: String, token_id: u32 },
}

pub fn oe_op_kind(op: &OeOp) -> &'static str {
    match op {
        OeOp::At { .. } => "at",
        OeOp::Mint { .. } => "mint",
        OeOp::MintM { .. } => "mint_merkle",
        OeOp::MintTo { .. } => "mint_to",
        OeOp::Purge { .. } => "purge",
        OeOp::BurnRemaining { .. } => "burn_remaining",
        OeOp::UpdateMintPrice { .. } => "update_mint_price",
        OeOp::UpdateStartTime { .. } => "update_start_time",
        OeOp::UpdateEndTime { .. } => "update_end_time",
        OeOp::UpdateStartTradingTime { .. } => "update_start_trading_time",
        OeOp::UpdatePerAddressLimit { .. } => "update_per_address_limit",
        OeOp::SetWhitelist { .. } => "set_whitelist",
        OeOp::SudoParams { .. } => "sudo_params",
        OeOp::Migrate { .. } => "migrate",
        OeOp::Burn { .. } => "holder_burn",
        OeOp::TransferNft { .. } => "holder_transfer",
        OeOp::BaseMint { .. } => "base_mint",
        OeOp::BaseUpdateStartTradingTime { .. } => "base_update_start_trading_time",
        OeOp::BaseSudoParams { .. } => "base_sudo_params",
        OeOp::BaseSetCreator { .. } => "base_set_creator",
    }
}

impl OeWorld {
    pub fn abs_time(&self, secs: u64, nanos: i64) -> u64 {
        ((self.t0 + secs * S) as i128 + nanos as i128) as u64
    }
    fn coq_funds(&mut self, fs: &[(String, u128)]) -> String {
        coq_list(&fs.iter().map(|(d, a)| format!("mkCoin {} {}", self.denoms.id(d), a)).collect::<Vec<_>>())
    }
    fn exec_minter(&mut self, who: &str, msg: &Value, funds: &[(String, u128)]) -> Result<cw_multi_test::AppResponse, String> {
        let m = self.minter.clone();
        chain::exec(&mut self.app, who, &m, msg, &funds_of(funds))
    }
    fn mint_msg(&self, stage: Option<u32>, proof: &Option<Vec<String>>, allocation: Option<u32>) -> Value {
        if self.v.merkle {
            json!({"mint": {"stage": stage, "proof_hashes": proof, "allocation": allocation}})
        } else {
            json!({"mint": {}})
        }
    }
    /// the honest Merkle arguments of `who` against the currently attached whitelist
    fn honest_proof(&self, who: &str) -> (Option<Vec<String>>, Option<u32>) {
        let wl = self.minter_config()["whitelist"].as_str().map(|s| s.to_string());
        match wl.and_then(|a| self.merkle.get(&a).cloned()) {
            Some(m) => match m.get(who) {
                Some((p, al)) => (Some(p.clone()), *al),
                None => (None, None),
            },
            None => (None, None),
        }
    }

    /// Run one op. For minter ops returns the Coq `oestep`.
    pub fn run(&mut self, op: &OeOp) -> StepOut {
        let not_step = |ok: bool, err: Option<String>| StepOut { coq: None, ok, err, minted: None, is_minter_step: false };
        match op {
            OeOp::At { secs, nanos } => {
                let t = self.abs_time(*secs, *nanos);
                if t > chain::now(&self.app) {
                    chain::set_time(&mut self.app, t);
                }
                return not_step(true, None);
            }
            OeOp::SudoParams { min_price, mint_fee_bps, airdrop_price, airdrop_fee_bps, offset, max_pal, max_token_limit, dev } => {
                let d = self.cfg.fp.denom.clone();
                let msg = json!({"update_params": {
                    "code_id": null, "add_sg721_code_ids": null, "rm_sg721_code_ids": null, "frozen": null,
                    "creation_fee": null,
                    "min_mint_price": min_price.map(|p| coinv(p, NATIVE)),
                    "mint_fee_bps": mint_fee_bps, "max_trading_offset_secs": offset,
                    "extension": {"max_token_limit": max_token_limit, "max_per_address_limit": max_pal,
                        "min_mint_price": null,
                        "airdrop_mint_price": airdrop_price.map(|p| coinv(p, &d)),
                        "airdrop_mint_fee_bps": airdrop_fee_bps,
                        "dev_fee_address": dev}}});
                let f = self.factory.clone();
                let r = chain::sudo(&mut self.app, &f, &msg);
                return not_step(r.is_ok(), r.err());
            }
            OeOp::Burn { who, token_id } => {
                let (m, c) = (self.minter.clone(), self.collection.clone());
                let who = crate::w_sale::resolve_holder(&self.app, &c, who, *token_id);
                let (ok, err) = crate::w_sale::holder_op(&mut self.app, &m, &c, &who, &json!({"burn": {"token_id": token_id.to_string()}}));
                if ok {
                    self.holder_burned += 1;
                }
                return not_step(ok, err);
            }
            OeOp::TransferNft { who, to, token_id } => {
                let (m, c) = (self.minter.clone(), self.collection.clone());
                let who = crate::w_sale::resolve_holder(&self.app, &c, who, *token_id);
                let (ok, err) = crate::w_sale::holder_op(&mut self.app, &m, &c, &who, &json!({"transfer_nft": {"recipient": to, "token_id": token_id.to_string()}}));
                return not_step(ok, err);
            }
            OeOp::Migrate { who, stored } => {
                if let Some((n, v)) = stored {
                    let n = if n == "@own" { self.own_cw2.0.clone() } else { n.clone() };
                    let v = if v == "@own" { self.own_cw2.1.clone() } else { v.clone() };
                    crate::w_migrate::set_cw2(&mut self.app, &self.minter, &n, &v);
                }
                let (name, version) = crate::w_migrate::get_cw2(&self.app, &self.minter);
                let now = chain::now(&self.app);
                let code_id = self.factory_params()["code_id"].as_u64().unwrap();
                let admin = self.app.wrap().query_wasm_contract_info(self.minter.to_string()).ok().and_then(|i| i.admin);
                let is_admin = admin.as_deref() == Some(who.as_str());
                let before_digest = chain::storage_digest(&self.app, &self.minter);
                let before_bal = self.balances_raw();
                let m = self.minter.clone();
                let sender = Addr::unchecked(who.clone());
                let res = match crate::util::catch(|| self.app.migrate_contract(sender, m, &json!({}), code_id)) {
                    Ok(Ok(_)) => Ok(()),
                    Ok(Err(e)) => Err(format!("{:#}", e)),
                    Err(p) => Err(p),
                };
                let ok = res.is_ok();
                let fp = self.fp_coq();
                let wv_after = self.cur_wl_view(who);
                let obs = self.observe();
                let obs_coq = coq_list(&obs.iter().map(|x| x.to_string()).collect::<Vec<_>>());
                let bal = self.balances_coq();
                let coq = format!(
                    "(OIMigrate (mkOMig {} {} {} {} {} {} {} {} {}))",
                    now,
                    coq_bool(name == self.own_cw2.0),
                    crate::w_sale::coq_version(&version),
                    coq_bool(is_admin),
                    coq_bool(ok),
                    fp,
                    wv_after,
                    obs_coq,
                    bal
                );
                let mut err = res.err();
                if !ok && (chain::storage_digest(&self.app, &self.minter) != before_digest || self.balances_raw() != before_bal) {
                    err = Some(format!("STATE-CHANGED-ON-FAILURE: {}", err.unwrap_or_default()));
                }
                if ok && self.balances_raw() != before_bal {
                    err = Some("MIGRATE-MOVED-FUNDS".into());
                }
                return StepOut { coq: Some(coq), ok, err, minted: None, is_minter_step: true };
            }
            OeOp::BaseMint { .. } | OeOp::BaseUpdateStartTradingTime { .. } | OeOp::BaseSudoParams { .. } | OeOp::BaseSetCreator { .. } => {
                return not_step(false, Some("base op on an open-edition world".into()));
            }
            _ => {}
        }
        // ----- minter steps -----
        let now = chain::now(&self.app);
        let (who, funds): (String, Vec<(String, u128)>) = match op {
            OeOp::Mint { who, funds } | OeOp::MintM { who, funds, .. } | OeOp::MintTo { who, funds, .. } => (who.clone(), funds.clone()),
            OeOp::Purge { who }
            | OeOp::BurnRemaining { who }
            | OeOp::UpdateMintPrice { who, .. }
            | OeOp::UpdateStartTime { who, .. }
            | OeOp::UpdateEndTime { who, .. }
            | OeOp::UpdateStartTradingTime { who, .. }
            | OeOp::UpdatePerAddressLimit { who, .. }
            | OeOp::SetWhitelist { who, .. } => (who.clone(), vec![]),
            _ => unreachable!(),
        };
        // Merkle arguments actually sent
        let margs: (Option<u32>, Option<Vec<String>>, Option<u32>) = match op {
            OeOp::Mint { who, .. } if self.v.merkle => {
                let (p, al) = self.honest_proof(who);
                (None, p, al)
            }
            OeOp::MintM { stage, proof, allocation, .. } if self.v.merkle => (*stage, proof.clone(), *allocation),
            _ => (None, None, None),
        };
        self.proof_ctx = match &margs {
            (st, Some(p), al) => Some((*st, p.clone(), *al)),
            _ => None,
        };
        // the whitelist a SetWhitelist step attaches was created (and paid for) with the world
        let mut new_view: Option<String> = None;
        if let OeOp::SetWhitelist { spare, .. } = op {
            match self.spares.get(*spare).cloned().flatten() {
                Some(a) => {
                    new_view = self.wl_view(&a, &who);
                    self.spare_whitelist = Some(a);
                }
                None => return not_step(false, Some("no such spare whitelist".into())),
            }
        }
        let fp = self.fp_coq();
        let wv = self.cur_wl_view(&who);
        let before_digest = chain::storage_digest(&self.app, &self.minter);
        let before_bal = self.balances_raw();
        let before_tokens = self.num_tokens_collection();
        let sender_id = self.addrs.id(&who);
        let minter_id = self.addrs.id(self.minter.as_str());
        let env = format!("(mkEnv {} {} {} {})", now, sender_id, self.coq_funds(&funds), minter_id);
        let res = match op {
            OeOp::Mint { .. } | OeOp::MintM { .. } => {
                let m = self.mint_msg(margs.0, &margs.1, margs.2);
                self.exec_minter(&who, &m, &funds)
            }
            OeOp::MintTo { recipient, .. } => self.exec_minter(&who, &json!({"mint_to": {"recipient": recipient}}), &funds),
            OeOp::Purge { .. } => self.exec_minter(&who, &json!({"purge": {}}), &funds),
            OeOp::BurnRemaining { .. } => self.exec_minter(&who, &json!({"burn_remaining": {}}), &funds),
            OeOp::UpdateMintPrice { price, .. } => {
                // typed message: the wire encoding of u128 is the serializer's business
                let m = self.minter.clone();
                chain::exec(&mut self.app, &who, &m, &open_edition_minter::msg::ExecuteMsg::UpdateMintPrice { price: *price }, &funds_of(&funds))
            }
            OeOp::UpdateStartTime { secs, nanos, .. } => {
                let t = self.abs_time(*secs, *nanos);
                self.exec_minter(&who, &json!({"update_start_time": ts(t)}), &funds)
            }
            OeOp::UpdateEndTime { secs, nanos, .. } => {
                let t = self.abs_time(*secs, *nanos);
                self.exec_minter(&who, &json!({"update_end_time": ts(t)}), &funds)
            }
            OeOp::UpdateStartTradingTime { t, .. } => {
                let tt = t.map(|(s, n)| ts(self.abs_time(s, n)));
                self.exec_minter(&who, &json!({"update_start_trading_time": tt}), &funds)
            }
            OeOp::UpdatePerAddressLimit { limit, .. } => {
                self.exec_minter(&who, &json!({"update_per_address_limit": {"per_address_limit": limit}}), &funds)
            }
            OeOp::SetWhitelist { spare, .. } => {
                let a = self.spare_whitelist.clone().unwrap();
                let r = self.exec_minter(&who, &json!({"set_whitelist": {"whitelist": a.to_string()}}), &funds);
                if r.is_ok() {
                    self.whitelist = Some(a.clone());
                    self.wl_kind = OeWl::from_u8(self.cfg.spares[*spare].kind);
                }
                r
            }
            _ => unreachable!(),
        };
        let ok = res.is_ok();
        let mut minted: Option<(u64, Option<String>)> = None;
        if let Ok(r) = &res {
            if matches!(op, OeOp::Mint { .. } | OeOp::MintM { .. } | OeOp::MintTo { .. }) {
                if let Some(id) = minted_from_events(r) {
                    minted = Some((id, owner_of(&self.app, &self.collection, id)));
                    if let Some(t) = self.token_info(id) {
                        self.mint_ledger.push(t);
                    }
                }
            }
        }
        let recipient_ok = |app: &App, r: &str| {
            use cosmwasm_std::Api;
            app.api().addr_validate(r).is_ok()
        };
        let coq_op = match op {
            OeOp::Mint { .. } | OeOp::MintM { .. } => format!(
                "(EMint {} {} {})",
                coq_opt_n(margs.0.map(|x| x as u64)),
                coq_bool(margs.1.is_some()),
                coq_opt_n(margs.2.map(|x| x as u64))
            ),
            OeOp::MintTo { recipient, .. } => {
                format!("(EMintTo {} {})", coq_bool(recipient_ok(&self.app, recipient)), self.addrs.id(recipient))
            }
            OeOp::Purge { .. } => "EPurge".into(),
            OeOp::BurnRemaining { .. } => "EBurnRemaining".into(),
            OeOp::UpdateMintPrice { price, .. } => format!("(EUpdateMintPrice {})", price),
            OeOp::UpdateStartTime { secs, nanos, .. } => format!("(EUpdateStartTime {})", self.abs_time(*secs, *nanos)),
            OeOp::UpdateEndTime { secs, nanos, .. } => format!("(EUpdateEndTime {})", self.abs_time(*secs, *nanos)),
            OeOp::UpdateStartTradingTime { t, .. } => {
                format!("(EUpdateStartTradingTime {})", coq_opt_n(t.map(|(s, n)| self.abs_time(s, n))))
            }
            OeOp::UpdatePerAddressLimit { limit, .. } => format!("(EUpdatePerAddressLimit {})", limit),
            OeOp::SetWhitelist { .. } => {
                let a = self.spare_whitelist.clone().unwrap();
                format!("(ESetWhitelist true {} {})", self.addrs.id(a.as_str()), new_view.clone().unwrap_or("None".into()))
            }
            _ => unreachable!(),
        };
        let minted_coq = match &minted {
            Some((id, Some(owner))) => format!("(Some ({}, {}))", id, self.addrs.id(owner)),
            Some((id, None)) => format!("(Some ({}, 0))", id),
            None => "None".into(),
        };
        let wv_after = self.cur_wl_view(&who);
        let obs = self.observe();
        let obs_coq = coq_list(&obs.iter().map(|x| x.to_string()).collect::<Vec<_>>());
        let bal = self.balances_coq();
        let coq = format!("(mkOStep {} {} {} {} {} {} {} {} {})", env, fp, wv, coq_op, coq_bool(ok), minted_coq, wv_after, obs_coq, bal);
        let mut err = res.err();
        if !ok {
            let after_digest = chain::storage_digest(&self.app, &self.minter);
            if after_digest != before_digest || self.balances_raw() != before_bal || self.num_tokens_collection() != before_tokens {
                err = Some(format!("STATE-CHANGED-ON-FAILURE: {}", err.unwrap_or_default()));
            }
        }
        StepOut { coq: Some(coq), ok, err, minted, is_minter_step: true }
    }

    fn blob_id(&mut self, v: &Value) -> Option<u64> {
        match v {
            Value::Null => None,
            Value::String(s) => Some(self.blobs.id(s)),
            other => Some(self.blobs.id(&serde_json::to_string(other).unwrap())),
        }
    }
    /// the metadata configuration as the minter reports it (Config.nft_data): `mkNft onchain uri ext`
    pub fn nft_cfg_coq(&mut self) -> String {
        let c = self.minter_config();
        let nd = c["nft_data"].clone();
        let onchain = nd["nft_data_type"].as_str() == Some("on_chain_metadata");
        let uri = self.blob_id(&nd["token_uri"]);
        let ext = self.blob_id(&nd["extension"]);
        format!("(mkNft {} {} {})", coq_bool(onchain), coq_opt_n(uri), coq_opt_n(ext))
    }
    /// what the collection stores for one token: (id, owner, token_uri, extension)
    pub fn token_info(&self, id: u64) -> Option<(u64, String, Value, Value)> {
        let v = self
            .app
            .wrap()
            .query_wasm_smart::<Value>(self.collection.clone(), &json!({"all_nft_info": {"token_id": id.to_string(), "include_expired": null}}))
            .ok()?;
        Some((id, v["access"]["owner"].as_str().unwrap_or("").to_string(), v["info"]["token_uri"].clone(), v["info"]["extension"].clone()))
    }
    /// what the collection stored for each token right after its mint (the ledger; holders may
    /// have transferred or burned the tokens since), in mint order
    pub fn stored_tokens(&self) -> Vec<(u64, String, Value, Value)> {
        self.mint_ledger.clone()
    }
    pub fn stored_tokens_coq(&mut self) -> String {
        let toks = self.stored_tokens();
        let items: Vec<String> = toks
            .iter()
            .map(|(id, owner, uri, ext)| {
                let o = self.addrs.id(owner);
                let u = self.blob_id(uri);
                let e = self.blob_id(ext);
                format!("mkOMint {} {} {} {}", id, o, coq_opt_n(u), coq_opt_n(e))
            })
            .collect();
        coq_list(&items)
    }
    /// Property-text monitor shared by the sale properties: every token the collection holds
    /// carries the metadata the edition was CREATED with (the request, with the URL trimmed):
    /// off-chain mode: token_uri = the configured uri and no extension; on-chain mode: no
    /// token_uri and extension = the configured extension.  Returns descriptions of violations.
    pub fn metadata_violations(&self) -> Vec<String> {
        let sent = Self::nft_data_json(&self.cfg);
        let mut out = vec![];
        for (id, _owner, uri, ext) in self.stored_tokens() {
            if self.cfg.onchain {
                let mut want = sent["extension"].clone();
                if let Some(img) = want["image"].as_str() {
                    want["image"] = json!(img.trim());
                }
                if !uri.is_null() || ext != want {
                    out.push(format!("{}: token {} of the on-chain-metadata collection stores uri {} extension {}, configured extension {}", self.v.name, id, uri, ext, want));
                }
            } else {
                let want = sent["token_uri"].as_str().unwrap().trim().to_string();
                if uri.as_str() != Some(want.as_str()) || !ext.is_null() {
                    out.push(format!("{}: token {} stores uri {} extension {}, configured token_uri {}", self.v.name, id, uri, ext, want));
                }
            }
        }
        out
    }

    /// A whole case as a Coq `oecase` term (OECaseM: with the metadata configuration and the
    /// tokens the collection stores at the end).
    pub fn case_coq(&mut self, init: &str, init_bal: &str, steps: &[String]) -> String {
        let accts: Vec<String> = self.count_accounts().iter().map(|a| self.addrs.id(a).to_string()).collect();
        let nft = self.nft_cfg_coq();
        let stored = self.stored_tokens_coq();
        let items: Vec<String> = steps.iter().map(|s| crate::w_sale::wrap_item(s, "(mkOStep", "OIStep")).collect();
        format!("(OECaseM {} {} {} {} {} {} {})", nft, self.v.coq(), init, init_bal, coq_list(&accts), coq_list(&items), stored)
    }
}

// ====================== base minter ======================
#[derive(Clone, Debug, serde::Serialize, serde::Deserialize)]
pub struct BaseCfg {
    pub min_price: u128,
    pub mint_fee_bps: u64,
    pub creation_fee: u128,
    pub offset_secs: u64,
}
impl Default for BaseCfg {
    fn default() -> Self {
        BaseCfg { min_price: 1000, mint_fee_bps: 5000, creation_fee: 5_000, offset_secs: 7 * 24 * 3600 }
    }
}

pub struct BaseWorld {
    pub app: App,
    pub cfg: BaseCfg,
    pub factory: Addr,
    pub minter: Addr,
    pub collection: Addr,
    pub addrs: Ids,
    pub denoms: Ids,
    pub t0: u64,
    pub initial_supply: BTreeMap<String, u128>,
    /// harness ledger: tokens burned on the collection by their holders (they stay "issued")
    pub holder_burned: u64,
}

impl BaseWorld {
    pub fn tracked_accounts(&self) -> Vec<String> {
        let mut v: Vec<String> = vec![CREATOR.into(), NEWCREATOR.into()];
        v.extend(BUYERS.iter().map(|s| s.to_string()));
        v.push(STRANGER.into());
        v.push(self.minter.to_string());
        v.push(self.factory.to_string());
        v.push(FOUNDATION.into());
        v.push(LAUNCHPAD_DAO.into());
        v.push(LIQUIDITY_DAO.into());
        v.push(chain::FAIRBURN_POOL.into());
        v
    }
    pub fn new(cfg: BaseCfg) -> Result<BaseWorld, String> {
        let mut app = chain::new_app();
        let t0 = chain::now(&app);
        let mut addrs = fixed_addr_ids();
        let mut denoms = denom_ids();
        denoms.id(IBC);
        for a in [CREATOR, NEWCREATOR, BUYERS[0], BUYERS[1], BUYERS[2], STRANGER] {
            addrs.id(a);
            chain::mint_coins(&mut app, a, 1_000_000_000_000, NATIVE);
            chain::mint_coins(&mut app, a, 1_000_000_000_000, IBC);
        }
        let minter_code = app.store_code(chain::base_minter());
        let factory_code = app.store_code(chain::base_factory());
        let sg721_code = app.store_code(chain::sg721_base());
        let fp = json!({"params": {
            "code_id": minter_code, "allowed_sg721_code_ids": [sg721_code], "frozen": false,
            "creation_fee": coinv(cfg.creation_fee, NATIVE),
            "min_mint_price": coinv(cfg.min_price, NATIVE),
            "mint_fee_bps": cfg.mint_fee_bps,
            "max_trading_offset_secs": cfg.offset_secs,
            "extension": null}});
        let factory = app
            .instantiate_contract(factory_code, Addr::unchecked(CREATOR), &fp, &[], "factory", None)
            .map_err(|e| format!("factory: {:#}", e))?;
        let create = json!({"create_minter": {"init_msg": null, "collection_params": collection_params(sg721_code)}});
        let fee = vec![coin(cfg.creation_fee, NATIVE)];
        chain::exec(&mut app, CREATOR, &factory, &create, &fee).map_err(|e| format!("create: {}", e))?;
        let mut w = BaseWorld {
            app,
            cfg,
            factory,
            minter: Addr::unchecked("none"),
            collection: Addr::unchecked("none"),
            addrs,
            denoms,
            t0,
            initial_supply: BTreeMap::new(),
            holder_burned: 0,
        };
        let mut found = false;
        for n in (0..20).rev() {
            let a = Addr::unchecked(format!("contract{}", n));
            if let Ok(v) = w.app.wrap().query_wasm_smart::<Value>(a.clone(), &json!({"config": {}})) {
                if v.get("collection_address").is_some() {
                    w.minter = a;
                    w.collection = Addr::unchecked(v["collection_address"].as_str().unwrap());
                    found = true;
                    break;
                }
            }
        }
        if !found {
            return Err("base minter not found after creation".into());
        }
        for a in [w.minter.to_string(), w.factory.to_string(), w.collection.to_string()] {
            w.addrs.id(&a);
        }
        for d in [NATIVE, IBC] {
            w.initial_supply.insert(d.to_string(), chain::supply(&w.app, d));
        }
        Ok(w)
    }
    pub fn abs_time(&self, secs: u64, nanos: i64) -> u64 {
        ((self.t0 + secs * S) as i128 + nanos as i128) as u64
    }
    pub fn config_price(&self) -> u128 {
        let v = self.app.wrap().query_wasm_smart::<Value>(self.minter.clone(), &json!({"config": {}})).unwrap();
        v["config"]["mint_price"]["amount"].as_str().unwrap().parse().unwrap()
    }
    pub fn token_index_raw(&self) -> u64 {
        let st = self.app.contract_storage(&self.minter);
        base_minter::state::TOKEN_INDEX.may_load(&*st).unwrap().unwrap_or(0)
    }
    pub fn num_tokens_collection(&self) -> u64 {
        num_tokens_collection(&self.app, &self.collection)
    }
    pub fn all_tokens(&self) -> Vec<String> {
        all_tokens(&self.app, &self.collection)
    }
    pub fn creator(&self) -> Option<String> {
        self.app
            .wrap()
            .query_wasm_smart::<Value>(self.collection.clone(), &json!({"collection_info": {}}))
            .ok()
            .and_then(|v| v["creator"].as_str().map(|s| s.to_string()))
    }
    pub fn fee_bps(&self) -> u64 {
        self.app.wrap().query_wasm_smart::<Value>(self.factory.clone(), &json!({"params": {}})).unwrap()["params"]["mint_fee_bps"]
            .as_u64()
            .unwrap()
    }
    pub fn observe(&self) -> Vec<u128> {
        // third slot: tokens ever handed to the collection = live tokens + tokens their holders burned (ledger)
        let mut v = vec![self.config_price(), self.token_index_raw() as u128, (self.num_tokens_collection() + self.holder_burned) as u128];
        match trading_time(&self.app, &self.collection) {
            Some(t) => v.extend([1, t as u128]),
            None => v.extend([0, 0]),
        }
        v
    }
    pub fn balances_coq(&mut self) -> String {
        let mut items = vec![];
        for a in self.tracked_accounts() {
            for d in [NATIVE, IBC] {
                let id = self.addrs.id(&a);
                let did = self.denoms.id(d);
                items.push(format!("({}, {}, {})", id, did, chain::balance(&self.app, &a, d)));
            }
        }
        for d in [NATIVE, IBC] {
            let did = self.denoms.id(d);
            let burned = self.initial_supply[d] - chain::supply(&self.app, d);
            items.push(format!("(5, {}, {})", did, burned));
        }
        coq_list(&items)
    }
    pub fn balances_raw(&self) -> BTreeMap<(String, String), u128> {
        let mut m = BTreeMap::new();
        for a in self.tracked_accounts() {
            for d in [NATIVE, IBC] {
                m.insert((a.clone(), d.to_string()), chain::balance(&self.app, &a, d));
            }
        }
        for d in [NATIVE, IBC] {
            m.insert(("#supply".into(), d.to_string()), chain::supply(&self.app, d));
        }
        m
    }
    pub fn init_state_coq(&self) -> String {
        format!("(mkBS {} {} [] {})", self.config_price(), self.token_index_raw(), coq_opt_n(trading_time(&self.app, &self.collection)))
    }

    pub fn run(&mut self, op: &OeOp) -> StepOut {
        let not_step = |ok: bool, err: Option<String>| StepOut { coq: None, ok, err, minted: None, is_minter_step: false };
        match op {
            OeOp::At { secs, nanos } => {
                let t = self.abs_time(*secs, *nanos);
                if t > chain::now(&self.app) {
                    chain::set_time(&mut self.app, t);
                }
                return not_step(true, None);
            }
            OeOp::BaseSudoParams { min_price, mint_fee_bps } => {
                let msg = json!({"update_params": {
                    "code_id": null, "add_sg721_code_ids": null, "rm_sg721_code_ids": null, "frozen": null,
                    "creation_fee": null, "min_mint_price": min_price.map(|p| coinv(p, NATIVE)),
                    "mint_fee_bps": mint_fee_bps, "max_trading_offset_secs": null, "extension": null}});
                let f = self.factory.clone();
                let r = chain::sudo(&mut self.app, &f, &msg);
                return not_step(r.is_ok(), r.err());
            }
            OeOp::BaseSetCreator { who, new } => {
                let msg = json!({"update_collection_info": {"collection_info": {
                    "description": null, "image": null, "external_link": null, "explicit_content": null,
                    "royalty_info": null, "creator": new}}});
                let c = self.collection.clone();
                let r = chain::exec(&mut self.app, who, &c, &msg, &[]);
                return not_step(r.is_ok(), r.err());
            }
            OeOp::Burn { who, token_id } => {
                let (m, c) = (self.minter.clone(), self.collection.clone());
                let who = crate::w_sale::resolve_holder(&self.app, &c, who, *token_id);
                let (ok, err) = crate::w_sale::holder_op(&mut self.app, &m, &c, &who, &json!({"burn": {"token_id": token_id.to_string()}}));
                if ok {
                    self.holder_burned += 1;
                }
                return not_step(ok, err);
            }
            OeOp::TransferNft { who, to, token_id } => {
                let (m, c) = (self.minter.clone(), self.collection.clone());
                let who = crate::w_sale::resolve_holder(&self.app, &c, who, *token_id);
                let (ok, err) = crate::w_sale::holder_op(&mut self.app, &m, &c, &who, &json!({"transfer_nft": {"recipient": to, "token_id": token_id.to_string()}}));
                return not_step(ok, err);
            }
            OeOp::BaseMint { .. } | OeOp::BaseUpdateStartTradingTime { .. } => {}
            _ => return not_step(false, Some("open-edition op on a base world".into())),
        }
        let now = chain::now(&self.app);
        let (who, funds): (String, Vec<(String, u128)>) = match op {
            OeOp::BaseMint { who, funds, .. } => (who.clone(), funds.clone()),
            OeOp::BaseUpdateStartTradingTime { who, .. } => (who.clone(), vec![]),
            _ => unreachable!(),
        };
        let creator = self.creator();
        let bps = self.fee_bps();
        let before_digest = chain::storage_digest(&self.app, &self.minter);
        let before_bal = self.balances_raw();
        let before_tokens = self.num_tokens_collection();
        let sender_id = self.addrs.id(&who);
        let minter_id = self.addrs.id(self.minter.as_str());
        let fcoq = coq_list(&funds.iter().map(|(d, a)| format!("mkCoin {} {}", self.denoms.id(d), a)).collect::<Vec<_>>());
        let env = format!("(mkEnv {} {} {} {})", now, sender_id, fcoq, minter_id);
        let m = self.minter.clone();
        let (res, coq_op) = match op {
            OeOp::BaseMint { uri, .. } => {
                // the same URL parser the contract links (url crate) decides validity on both sides
                let uri_ok = uri_shape_ok(uri);
                (
                    chain::exec(&mut self.app, &who, &m, &json!({"mint": {"token_uri": uri}}), &funds_of(&funds)),
                    format!("(BMint {})", coq_bool(uri_ok)),
                )
            }
            OeOp::BaseUpdateStartTradingTime { t, .. } => {
                let tt = t.map(|(s, n)| self.abs_time(s, n));
                (
                    chain::exec(&mut self.app, &who, &m, &json!({"update_start_trading_time": tt.map(ts)}), &[]),
                    format!("(BUpdateStartTradingTime {})", coq_opt_n(tt)),
                )
            }
            _ => unreachable!(),
        };
        let ok = res.is_ok();
        let mut minted: Option<(u64, Option<String>)> = None;
        if let Ok(r) = &res {
            if matches!(op, OeOp::BaseMint { .. }) {
                if let Some(id) = minted_from_events(r) {
                    minted = Some((id, owner_of(&self.app, &self.collection, id)));
                }
            }
        }
        let minted_coq = match &minted {
            Some((id, Some(owner))) => format!("(Some ({}, {}))", id, self.addrs.id(owner)),
            Some((id, None)) => format!("(Some ({}, 0))", id),
            None => "None".into(),
        };
        let creator_coq = coq_opt_n(creator.map(|c| self.addrs.id(&c)));
        let obs = self.observe();
        let obs_coq = coq_list(&obs.iter().map(|x| x.to_string()).collect::<Vec<_>>());
        let bal = self.balances_coq();
        let coq = format!("(mkBStep {} {} {} {} {} {} {} {})", env, creator_coq, bps, coq_op, coq_bool(ok), minted_coq, obs_coq, bal);
        let mut err = res.err();
        if !ok {
            let after_digest = chain::storage_digest(&self.app, &self.minter);
            if after_digest != before_digest || self.balances_raw() != before_bal || self.num_tokens_collection() != before_tokens {
                err = Some(format!("STATE-CHANGED-ON-FAILURE: {}", err.unwrap_or_default()));
            }
        }
        StepOut { coq: Some(coq), ok, err, minted, is_minter_step: true }
    }

    pub fn case_coq(&mut self, init: &str, init_bal: &str, steps: &[String]) -> String {
        format!("(BaseCase {} {} {})", init, init_bal, coq_list(steps))
    }
}

/// URL validity is an oracle input of the base-minter model (`uri_ok`).  The harness has no
/// `url` dependency of its own; the small pool of URIs the generators use is classified here
/// by shape (scheme ":" rest) and cross-checked by the correspondence itself.
pub fn uri_shape_ok(u: &str) -> bool {
    match u.split_once(':') {
        Some((scheme, _)) => {
            !scheme.is_empty()
                && scheme.chars().next().unwrap().is_ascii_alphabetic()
                && scheme.chars().all(|c| c.is_ascii_alphanumeric() || c == '+' || c == '-' || c == '.')
        }
        None => false,
    }
}

/// insert migrations into a generated open-edition history (see w_sale::sprinkle_migrates)
pub fn sprinkle_oe_migrates(rng: &mut Rng, ops: &mut Vec<OeOp>, permille: u64) {
    let pool = crate::w_sale::migrate_version_pool();
    let mut i = 0;
    while i <= ops.len() {
        if rng.below(1000) < permille {
            let (who, stored) = crate::w_sale::gen_migrate_args(rng, &pool);
            ops.insert(i, OeOp::Migrate { who, stored });
            i += 1;
        }
        i += 1;
    }
}
