//! w_collection: the collection world shared by C09 and C10.
//!
//! A collection of the chosen variant is instantiated by `puppet`, a tiny harness-only
//! contract that forwards any CosmosMsg it is given (sg721 instantiation demands a
//! *contract* sender) and accepts `ReceiveNft`.  Calls come from arbitrary accounts; a
//! call "from the puppet" is wrapped in `Forward`.  After every call the queries the
//! properties name are read back (`Obs`), and the whole history is printed as a Coq
//! `history` term for `Collection.history_check`.
#![allow(dead_code, unused_imports)]
use crate::chain::{self, App};
use crate::util::*;
use cosmwasm_std::{
    coins, to_json_binary, Addr, Binary, Coin, CosmosMsg, Decimal, Deps, DepsMut, Empty, Env, MessageInfo, Response,
    StdResult, Uint128, WasmMsg,
};
use cw_multi_test::{Contract, ContractWrapper, Executor};
use serde::{Deserialize, Serialize};
use serde_json::{json, Value};
use std::collections::BTreeMap;

// ------------------------------------------------------------------ puppet contract
#[derive(Serialize, Deserialize, Clone, Debug, PartialEq)]
#[serde(rename_all = "snake_case")]
pub enum PuppetExec {
    Forward { msgs: Vec<CosmosMsg> },
    ReceiveNft(cw721::Cw721ReceiveMsg),
}
fn puppet_instantiate(_d: DepsMut, _e: Env, _i: MessageInfo, _m: Empty) -> StdResult<Response> {
    Ok(Response::new())
}
fn puppet_execute(_d: DepsMut, _e: Env, _i: MessageInfo, m: PuppetExec) -> StdResult<Response> {
    match m {
        PuppetExec::Forward { msgs } => Ok(Response::new().add_messages(msgs)),
        PuppetExec::ReceiveNft(_) => Ok(Response::new()),
    }
}
fn puppet_query(_d: Deps, _e: Env, _m: Empty) -> StdResult<Binary> {
    Ok(Binary::default())
}
/// sg721-base with `Sg721Contract::migrate` wired as its migrate entry point.  The crate's
/// own `entry` module exports no migrate; this is how a contract built on sg721-base uses
/// the library function, and it lets the histories drive that function on the real code.
fn base_lib_migrate(deps: DepsMut, env: Env, msg: Empty) -> Result<Response, sg721_base::ContractError> {
    sg721_base::Sg721Contract::<cw721_base::Extension>::migrate(deps, env, msg)
}
pub fn sg721_base_with_lib_migrate() -> Box<dyn Contract<Empty>> {
    Box::new(
        ContractWrapper::new(sg721_base::entry::execute, sg721_base::entry::instantiate, sg721_base::entry::query)
            .with_migrate(base_lib_migrate),
    )
}
pub fn puppet() -> Box<dyn Contract<Empty>> {
    Box::new(ContractWrapper::new(puppet_execute, puppet_instantiate, puppet_query))
}

// ------------------------------------------------------------------ vocabulary
#[derive(Clone, Copy, Debug, Serialize, Deserialize, PartialEq, Eq, PartialOrd, Ord, Hash)]
pub enum Variant {
    Base,
    Updatable,
    /// instantiated as sg721-base, then migrated to sg721-updatable (metadata updates disabled
    /// until the creator pays EnableUpdatable)
    UpdatableMigrated,
    Onchain,
    Nt,
}
impl Variant {
    pub const ALL: [Variant; 5] =
        [Variant::Base, Variant::Updatable, Variant::UpdatableMigrated, Variant::Onchain, Variant::Nt];
    pub fn name(&self) -> &'static str {
        match self {
            Variant::Base => "sg721-base",
            Variant::Updatable => "sg721-updatable",
            Variant::UpdatableMigrated => "sg721-updatable(migrated)",
            Variant::Onchain => "sg721-metadata-onchain",
            Variant::Nt => "sg721-nt",
        }
    }
    pub fn coq(&self) -> &'static str {
        match self {
            Variant::Base => "Base",
            Variant::Updatable => "Updatable",
            // instantiated as sg721-base; the header's h_migrated flag migrates it
            Variant::UpdatableMigrated => "Base",
            Variant::Onchain => "Onchain",
            Variant::Nt => "NT",
        }
    }
    pub fn updatable(&self) -> bool {
        matches!(self, Variant::Updatable | Variant::UpdatableMigrated)
    }
}

pub const PUPPET: &str = "contract0";
pub const DRIVER: &str = "driver";
pub const ADMIN: &str = "admin";
/// accounts the generators draw senders / recipients / operators from
pub const USERS: [&str; 7] = ["creator", "creator2", "minter2", "alice", "bob", "carol", "royalty"];
pub const DAY_NS: u64 = 86_400_000_000_000;
pub const ONE: u128 = 1_000_000_000_000_000_000;
pub const PCT: u128 = 10_000_000_000_000_000;
pub const ENABLE_FEE: u128 = 1_500_000_000;

pub const VALID_URLS: [&str; 4] =
    ["https://example.com/image.png", "ipfs://bafybeigdyrzt5sfp7udm7hu76uh7y26nf3efuylqabf3oclgtqy55fbzdi/1.png", "http://a.b", "https://stargaze.zone/launchpad?x=1#y"];
pub const INVALID_URLS: [&str; 4] = ["not a url", "", "//missing-scheme.example", "http://"];

#[derive(Clone, Debug, Serialize, Deserialize, PartialEq, Eq, PartialOrd, Ord, Hash)]
pub enum Exp {
    Never,
    At(u64),
}
#[derive(Clone, Debug, Serialize, Deserialize, PartialEq, Eq, PartialOrd, Ord, Hash)]
pub struct Roy {
    pub addr: String,
    pub share: u128,
}
#[derive(Clone, Debug, Serialize, Deserialize, PartialEq, Eq, PartialOrd, Ord, Hash)]
pub struct InfoSpec {
    pub creator: String,
    pub description: String,
    pub image: String,
    pub external_link: Option<String>,
    pub explicit_content: Option<bool>,
    pub start_trading_time: Option<u64>,
    pub royalty: Option<Roy>,
}
#[derive(Clone, Debug, Default, Serialize, Deserialize, PartialEq, Eq, PartialOrd, Ord, Hash)]
pub struct UpdSpec {
    pub description: Option<String>,
    pub image: Option<String>,
    pub external_link: Option<String>,
    pub explicit_content: Option<bool>,
    pub royalty: Option<Roy>,
    pub creator: Option<String>,
}
#[derive(Clone, Debug, Serialize, Deserialize, PartialEq, Eq, PartialOrd, Ord, Hash)]
pub enum Op {
    Mint { id: u64, owner: String, uri: Option<String> },
    Transfer { to: String, id: u64 },
    Send { to: String, id: u64 },
    Approve { spender: String, id: u64, exp: Option<Exp> },
    Revoke { spender: String, id: u64 },
    ApproveAll { operator: String, exp: Option<Exp> },
    RevokeAll { operator: String },
    Burn { id: u64 },
    UpdateInfo(UpdSpec),
    StartTrading(Option<u64>),
    FreezeInfo,
    OwnTransfer { new_owner: String, exp: Option<Exp> },
    OwnAccept,
    OwnRenounce,
    UpdateTokenMd { id: u64, uri: Option<String> },
    FreezeTokenMd,
    EnableUpdatable,
    /// MsgMigrateContract to the sg721-updatable code (only the wasm admin may)
    Migrate,
    /// MsgMigrateContract with the code the collection already runs: the variant's own
    /// migrate entry point
    MigrateSelf,
}
impl Op {
    pub fn kind(&self) -> &'static str {
        match self {
            Op::Mint { .. } => "mint",
            Op::Transfer { .. } => "transfer_nft",
            Op::Send { .. } => "send_nft",
            Op::Approve { .. } => "approve",
            Op::Revoke { .. } => "revoke",
            Op::ApproveAll { .. } => "approve_all",
            Op::RevokeAll { .. } => "revoke_all",
            Op::Burn { .. } => "burn",
            Op::UpdateInfo(u) => {
                if u.royalty.is_some() {
                    "update_collection_info+royalty"
                } else {
                    "update_collection_info"
                }
            }
            Op::StartTrading(_) => "update_start_trading_time",
            Op::FreezeInfo => "freeze_collection_info",
            Op::OwnTransfer { .. } => "transfer_ownership",
            Op::OwnAccept => "accept_ownership",
            Op::OwnRenounce => "renounce_ownership",
            Op::UpdateTokenMd { .. } => "update_token_metadata",
            Op::FreezeTokenMd => "freeze_token_metadata",
            Op::EnableUpdatable => "enable_updatable",
            Op::Migrate => "migrate_to_updatable",
            Op::MigrateSelf => "migrate_same_code",
        }
    }
}
#[derive(Clone, Debug, Serialize, Deserialize, PartialEq, Eq, PartialOrd, Ord, Hash)]
pub struct Step {
    /// absolute block time (ns) at which the call is made
    pub at: u64,
    pub sender: String,
    pub op: Op,
    pub funds: Vec<(String, u128)>,
}
#[derive(Clone, Debug, Serialize, Deserialize, PartialEq, Eq, PartialOrd, Ord, Hash)]
pub struct Setup {
    pub variant: Variant,
    pub time0: u64,
    /// false: a plain account tries to instantiate (must be rejected)
    pub by_contract: bool,
    pub funds0: u128,
    pub minter: String,
    pub info: InfoSpec,
    /// cw2 (contract name, version) written over the record right after creation: the
    /// collection then looks like an older deployment to `migrate`
    #[serde(default)]
    pub cw2: Option<(String, String)>,
}
#[derive(Clone, Debug, Serialize, Deserialize, PartialEq, Eq, PartialOrd, Ord, Hash)]
pub struct Hist {
    pub setup: Setup,
    pub steps: Vec<Step>,
}

pub fn token_name(id: u64) -> String {
    format!("t{:03}", id)
}
fn token_num(s: &str) -> u64 {
    s.strip_prefix('t').and_then(|x| x.parse::<u64>().ok()).expect("token ids are t<NNN>")
}

// ------------------------------------------------------------------ observations
#[derive(Clone, Debug, PartialEq, Eq, Hash, Serialize)]
pub struct InfoObs {
    pub creator: String,
    pub description: String,
    pub image: String,
    pub external_link: Option<String>,
    pub explicit_content: Option<bool>,
    pub start_trading_time: Option<u64>,
    pub royalty: Option<Roy>,
}
impl InfoObs {
    /// the creator-editable fields (start_trading_time is edited by the minter)
    pub fn creator_fields(&self) -> (String, String, String, Option<String>, Option<bool>, Option<Roy>) {
        (
            self.creator.clone(),
            self.description.clone(),
            self.image.clone(),
            self.external_link.clone(),
            self.explicit_content,
            self.royalty.clone(),
        )
    }
}
#[derive(Clone, Debug, PartialEq, Eq, Hash, Serialize)]
pub struct TokObs {
    pub id: String,
    pub owner: String,
    pub approvals: Vec<(String, Exp)>,
    pub uri: Option<String>,
}
#[derive(Clone, Debug, PartialEq, Eq, Hash, Serialize)]
pub struct Obs {
    pub info: InfoObs,
    pub num_tokens: u64,
    pub tokens: Vec<TokObs>,
    pub minter: Option<String>,
    pub pending: Option<String>,
    pub pending_expiry: Option<Exp>,
    pub operators: Vec<(String, String, Exp)>,
    pub md_frozen: bool,
    pub md_enabled: bool,
    /// cw2 record (contract name, version) read from raw storage
    pub cw2: (String, String),
    /// Minter{} and Ownership{}.owner disagree (never expected; monitored)
    pub minter_mismatch: bool,
}
impl Obs {
    pub fn token(&self, id: &str) -> Option<&TokObs> {
        self.tokens.iter().find(|t| t.id == id)
    }
}

#[derive(Clone, Debug)]
pub struct StepRec {
    pub step: Step,
    pub ok: bool,
    pub err: String,
    pub burned: u128,
    pub pooled: u128,
    pub before: Obs,
    pub after: Obs,
}
pub struct Trace {
    pub hist: Hist,
    pub init_err: Option<String>,
    pub init_obs: Option<Obs>,
    pub recs: Vec<StepRec>,
    pub coq: String,
}

fn exp_of(e: &cw_utils::Expiration) -> Exp {
    match e {
        cw_utils::Expiration::Never {} => Exp::Never,
        cw_utils::Expiration::AtTime(t) => Exp::At(t.nanos()),
        cw_utils::Expiration::AtHeight(_) => panic!("AtHeight expirations are outside the stated bound"),
    }
}
fn exp_json(e: &Option<Exp>) -> Value {
    match e {
        None => Value::Null,
        Some(Exp::Never) => json!({"never": {}}),
        Some(Exp::At(t)) => json!({"at_time": t.to_string()}),
    }
}
pub fn share_str(atomics: u128) -> String {
    Decimal::new(Uint128::new(atomics)).to_string()
}
fn roy_json(r: &Option<Roy>) -> Value {
    match r {
        None => Value::Null,
        Some(r) => json!({"payment_address": r.addr, "share": share_str(r.share)}),
    }
}

// ------------------------------------------------------------------ the world
pub struct World {
    pub app: App,
    /// the code the collection currently runs (a successful migration turns Base into
    /// UpdatableMigrated)
    pub variant: Variant,
    pub upd_code: u64,
    /// code ids: [sg721-base (with the library migrate), sg721-metadata-onchain, sg721-nt]
    pub own_codes: [u64; 3],
    pub admin: String,
    pub coll: Addr,
    pub addrs: Ids,
    pub texts: Ids,
    pub uris: Ids,
}

fn fixed_addrs() -> Ids {
    let mut a = addr_ids();
    for s in [PUPPET, "contract1"] {
        a.id(s);
    }
    for s in USERS {
        a.id(s);
    }
    a.id(DRIVER);
    a.id(ADMIN);
    a
}

impl World {
    /// Build the chain, the puppet, and try to instantiate the collection.
    pub fn boot(setup: &Setup) -> Result<World, (String, Ids, Ids)> {
        let mut app = chain::new_app();
        chain::set_time(&mut app, setup.time0);
        let puppet_code = app.store_code(puppet());
        let base_code = app.store_code(sg721_base_with_lib_migrate());
        let upd_code = app.store_code(chain::sg721_updatable());
        let onchain_code = app.store_code(chain::sg721_metadata_onchain());
        let nt_code = app.store_code(chain::sg721_nt());
        let pup = app
            .instantiate_contract(puppet_code, Addr::unchecked(DRIVER), &Empty {}, &[], "puppet", None)
            .expect("puppet");
        assert_eq!(pup.as_str(), PUPPET);
        for u in USERS.iter().chain([PUPPET, DRIVER].iter()) {
            chain::mint_coins(&mut app, u, 10_000_000_000_000, NATIVE);
            chain::mint_coins(&mut app, u, 10_000_000_000_000, "uother");
        }
        let code = match setup.variant {
            Variant::Base | Variant::UpdatableMigrated => base_code,
            Variant::Updatable => upd_code,
            Variant::Onchain => onchain_code,
            Variant::Nt => nt_code,
        };
        let i = &setup.info;
        let msg = json!({
            "name": "Collection", "symbol": "COL", "minter": setup.minter,
            "collection_info": {
                "creator": i.creator, "description": i.description, "image": i.image,
                "external_link": i.external_link, "explicit_content": i.explicit_content,
                "start_trading_time": i.start_trading_time.map(|t| t.to_string()),
                "royalty_info": roy_json(&i.royalty),
            }
        });
        let funds: Vec<Coin> = if setup.funds0 > 0 { coins(setup.funds0, NATIVE) } else { vec![] };
        let mut addrs = fixed_addrs();
        let mut texts = Ids::with_fixed(&[], 1);
        let uris = Ids::with_fixed(&[], 1);
        let res = if setup.by_contract {
            let inst = CosmosMsg::Wasm(WasmMsg::Instantiate {
                admin: Some(setup.info.creator.clone()),
                code_id: code,
                msg: to_json_binary(&msg).unwrap(),
                funds,
                label: "collection".into(),
            });
            chain::exec(&mut app, DRIVER, &pup, &PuppetExec::Forward { msgs: vec![inst] }, &[]).map(|r| {
                r.events
                    .iter()
                    .filter(|e| e.ty == "instantiate")
                    .flat_map(|e| e.attributes.iter())
                    .find(|a| a.key == "_contract_address")
                    .map(|a| Addr::unchecked(a.value.clone()))
                    .expect("instantiate event")
            })
        } else {
            match catch(|| {
                app.instantiate_contract(code, Addr::unchecked("alice"), &msg, &funds, "collection", Some(setup.info.creator.clone()))
            }) {
                Ok(Ok(a)) => Ok(a),
                Ok(Err(e)) => Err(format!("{:#}", e)),
                Err(p) => Err(p),
            }
        };
        // register the strings of the setup in a fixed order so that ids are stable
        addrs.id(&i.creator);
        addrs.id(&setup.minter);
        if let Some(r) = &i.royalty {
            addrs.id(&r.addr);
        }
        texts.id(&i.description);
        texts.id(&i.image);
        if let Some(l) = &i.external_link {
            texts.id(l);
        }
        let coll = match res {
            Ok(a) => a,
            Err(e) => return Err((e, addrs, texts)),
        };
        if let Some((name, ver)) = &setup.cw2 {
            let mut st = app.contract_storage_mut(&coll);
            cw2::set_contract_version(&mut *st, name.clone(), ver.clone()).unwrap();
        }
        if setup.variant == Variant::UpdatableMigrated {
            app.migrate_contract(Addr::unchecked(setup.info.creator.clone()), coll.clone(), &Empty {}, upd_code)
                .expect("sg721-base -> sg721-updatable migration right after creation");
        }
        addrs.id(coll.as_str());
        Ok(World { app, variant: setup.variant, upd_code, own_codes: [base_code, onchain_code, nt_code], admin: setup.info.creator.clone(), coll, addrs, texts, uris })
    }

    fn q<T: serde::de::DeserializeOwned>(&self, msg: &Value) -> T {
        self.app.wrap().query_wasm_smart(self.coll.clone(), msg).unwrap_or_else(|e| panic!("query {} failed: {}", msg, e))
    }

    pub fn observe(&self) -> Obs {
        let ci: sg721_base::msg::CollectionInfoResponse = self.q(&json!({"collection_info": {}}));
        let info = InfoObs {
            creator: ci.creator,
            description: ci.description,
            image: ci.image,
            external_link: ci.external_link,
            explicit_content: ci.explicit_content,
            start_trading_time: ci.start_trading_time.map(|t| t.nanos()),
            royalty: ci.royalty_info.map(|r| Roy { addr: r.payment_address, share: r.share.atomics().u128() }),
        };
        let n: cw721::NumTokensResponse = self.q(&json!({"num_tokens": {}}));
        let all: cw721::TokensResponse = self.q(&json!({"all_tokens": {"limit": 100}}));
        let mut tokens = vec![];
        for id in &all.tokens {
            let o: cw721::OwnerOfResponse = self.q(&json!({"owner_of": {"token_id": id, "include_expired": true}}));
            let ni: Value = self.q(&json!({"nft_info": {"token_id": id}}));
            let uri = ni.get("token_uri").and_then(|v| v.as_str()).map(|s| s.to_string());
            tokens.push(TokObs {
                id: id.clone(),
                owner: o.owner,
                approvals: o.approvals.iter().map(|a| (a.spender.clone(), exp_of(&a.expires))).collect(),
                uri,
            });
        }
        let m: cw721_base::msg::MinterResponse = self.q(&json!({"minter": {}}));
        let (pending, pending_expiry, mismatch) = if self.variant.updatable() {
            (None, None, false)
        } else {
            let o: cw_ownable::Ownership<String> = self.q(&json!({"ownership": {}}));
            (o.pending_owner, o.pending_expiry.as_ref().map(exp_of), o.owner != m.minter)
        };
        let mut operators = vec![];
        let mut owners: Vec<String> = USERS.iter().map(|s| s.to_string()).collect();
        owners.push(PUPPET.to_string());
        owners.push(self.coll.to_string());
        for ow in owners {
            let r: cw721::OperatorsResponse =
                self.q(&json!({"all_operators": {"owner": ow, "include_expired": true, "limit": 100}}));
            for a in r.operators {
                operators.push((ow.clone(), a.spender, exp_of(&a.expires)));
            }
        }
        let (md_frozen, md_enabled) = if self.variant.updatable() {
            let f: sg721_updatable::msg::FrozenTokenMetadataResponse = self.q(&json!({"freeze_token_metadata": {}}));
            let e: sg721_updatable::msg::EnableUpdatableResponse = self.q(&json!({"enable_updatable": {}}));
            (f.frozen, e.enabled)
        } else {
            (false, false)
        };
        let cw2 = {
            let st = self.app.contract_storage(&self.coll);
            let v = cw2::get_contract_version(&*st).expect("cw2 record");
            (v.contract, v.version)
        };
        Obs {
            cw2,
            info,
            num_tokens: n.count,
            tokens,
            minter: m.minter,
            pending,
            pending_expiry,
            operators,
            md_frozen,
            md_enabled,
            minter_mismatch: mismatch,
        }
    }

    fn op_json(&self, op: &Op) -> Value {
        let nt = self.variant == Variant::Nt;
        match op {
            Op::Mint { id, owner, uri } => {
                let ext = if self.variant == Variant::Onchain { json!({"name": "item"}) } else { Value::Null };
                json!({"mint": {"token_id": token_name(*id), "owner": owner, "token_uri": uri, "extension": ext}})
            }
            Op::Transfer { to, id } => json!({"transfer_nft": {"recipient": to, "token_id": token_name(*id)}}),
            Op::Send { to, id } => {
                json!({"send_nft": {"contract": to, "token_id": token_name(*id), "msg": Binary::from(b"{}".to_vec())}})
            }
            Op::Approve { spender, id, exp } => {
                json!({"approve": {"spender": spender, "token_id": token_name(*id), "expires": exp_json(exp)}})
            }
            Op::Revoke { spender, id } => json!({"revoke": {"spender": spender, "token_id": token_name(*id)}}),
            Op::ApproveAll { operator, exp } => json!({"approve_all": {"operator": operator, "expires": exp_json(exp)}}),
            Op::RevokeAll { operator } => json!({"revoke_all": {"operator": operator}}),
            Op::Burn { id } => json!({"burn": {"token_id": token_name(*id)}}),
            Op::UpdateInfo(u) => {
                let body = json!({
                    "description": u.description, "image": u.image, "external_link": u.external_link,
                    "explicit_content": u.explicit_content, "royalty_info": roy_json(&u.royalty), "creator": u.creator,
                });
                if nt {
                    json!({"update_collection_info": {"new_collection_info": body}})
                } else {
                    json!({"update_collection_info": {"collection_info": body}})
                }
            }
            Op::StartTrading(t) => json!({"update_start_trading_time": t.map(|x| x.to_string())}),
            // sg721::ExecuteMsg::FreezeCollectionInfo is a unit variant; sg721-nt and
            // sg721-updatable declare `FreezeCollectionInfo {}`
            Op::FreezeInfo => {
                if nt || self.variant == Variant::Updatable || self.variant == Variant::UpdatableMigrated {
                    json!({"freeze_collection_info": {}})
                } else {
                    json!("freeze_collection_info")
                }
            }
            Op::OwnTransfer { new_owner, exp } => {
                json!({"update_ownership": {"transfer_ownership": {"new_owner": new_owner, "expiry": exp_json(exp)}}})
            }
            Op::OwnAccept => json!({"update_ownership": "accept_ownership"}),
            Op::OwnRenounce => json!({"update_ownership": "renounce_ownership"}),
            Op::UpdateTokenMd { id, uri } => {
                json!({"update_token_metadata": {"token_id": token_name(*id), "token_uri": uri}})
            }
            Op::FreezeTokenMd => json!({"freeze_token_metadata": {}}),
            Op::EnableUpdatable => json!({"enable_updatable": {}}),
            Op::Migrate | Op::MigrateSelf => json!({}),
        }
    }

    /// Execute one call at its block time; returns (ok, error text, burned, pooled).
    pub fn exec(&mut self, st: &Step) -> (bool, String, u128, u128) {
        chain::set_time(&mut self.app, st.at);
        let msg = self.op_json(&st.op);
        let funds: Vec<Coin> = st.funds.iter().map(|(d, a)| Coin::new(*a, d.clone())).collect();
        // burned = what left the tracked accounts altogether (cw-multi-test 1.2 has no supply query)
        let tracked = [st.sender.clone(), self.coll.to_string(), chain::FAIRBURN_POOL.to_string(), PUPPET.to_string(), DRIVER.to_string()];
        let total = |app: &App| -> u128 {
            let mut seen: Vec<&String> = vec![];
            let mut t = 0u128;
            for a in tracked.iter() {
                if !seen.contains(&a) {
                    seen.push(a);
                    t += chain::balance(app, a, NATIVE);
                }
            }
            t
        };
        let supply0 = total(&self.app);
        let pool0 = chain::balance(&self.app, chain::FAIRBURN_POOL, NATIVE);
        let coll = self.coll.clone();
        if st.op == Op::Migrate || st.op == Op::MigrateSelf {
            let code = if st.op == Op::Migrate {
                self.upd_code
            } else {
                match self.variant {
                    Variant::Base => self.own_codes[0],
                    Variant::Updatable | Variant::UpdatableMigrated => self.upd_code,
                    Variant::Onchain => self.own_codes[1],
                    Variant::Nt => self.own_codes[2],
                }
            };
            let app = &mut self.app;
            let r = match catch(|| app.migrate_contract(Addr::unchecked(st.sender.clone()), coll.clone(), &Empty {}, code)) {
                Ok(Ok(_)) => Ok(()),
                Ok(Err(e)) => Err(format!("{:#}", e)),
                Err(p) => Err(p),
            };
            return match r {
                Ok(()) => {
                    if st.op == Op::Migrate && !self.variant.updatable() {
                        self.variant = Variant::UpdatableMigrated;
                    }
                    (true, String::new(), 0, 0)
                }
                Err(e) => (false, e, 0, 0),
            };
        }
        let r = if st.sender == PUPPET {
            let fwd = CosmosMsg::Wasm(WasmMsg::Execute {
                contract_addr: coll.to_string(),
                msg: to_json_binary(&msg).unwrap(),
                funds,
            });
            chain::exec(&mut self.app, DRIVER, &Addr::unchecked(PUPPET), &PuppetExec::Forward { msgs: vec![fwd] }, &[])
        } else {
            chain::exec(&mut self.app, &st.sender, &coll, &msg, &funds)
        };
        match r {
            Ok(_) => {
                let burned = supply0 - total(&self.app);
                let pooled = chain::balance(&self.app, chain::FAIRBURN_POOL, NATIVE) - pool0;
                (true, String::new(), burned, pooled)
            }
            Err(e) => (false, e, 0, 0),
        }
    }

    // ---------------- Coq printing
    fn coq_txt(&mut self, s: &str) -> String {
        format!("(mkTxt {} {} {})", self.texts.id(s), s.len(), coq_bool(VALID_URLS.contains(&s)))
    }
    fn coq_opt_txt(&mut self, s: &Option<String>) -> String {
        match s {
            Some(x) => format!("(Some {})", self.coq_txt(x)),
            None => "None".into(),
        }
    }
    fn coq_roy(&mut self, r: &Option<Roy>) -> String {
        match r {
            Some(r) => format!("(Some (mkRoy {} {}))", self.addrs.id(&r.addr), r.share),
            None => "None".into(),
        }
    }
    fn coq_uri(&mut self, u: &Option<String>) -> String {
        match u {
            Some(x) => format!("(Some {})", self.uris.id(x)),
            None => "None".into(),
        }
    }
    fn coq_opt_addr(&mut self, a: &Option<String>) -> String {
        match a {
            Some(x) => format!("(Some {})", self.addrs.id(x)),
            None => "None".into(),
        }
    }
    pub fn coq_info(&mut self, i: &InfoObs) -> String {
        let c = self.addrs.id(&i.creator);
        format!(
            "(mkInfo {} {} {} {} {} {} {})",
            c,
            self.coq_txt(&i.description),
            self.coq_txt(&i.image),
            self.coq_opt_txt(&i.external_link),
            coq_opt_bool(i.explicit_content),
            coq_opt_n(i.start_trading_time),
            self.coq_roy(&i.royalty)
        )
    }
    pub fn coq_obs(&mut self, o: &Obs) -> String {
        let info = self.coq_info(&o.info);
        let toks: Vec<String> = o
            .tokens
            .iter()
            .map(|t| {
                let ap: Vec<String> =
                    t.approvals.iter().map(|(s, e)| format!("({}, {})", self.addrs.id(s), coq_exp(e))).collect();
                format!("({}, mkTok {} {} {})", token_num(&t.id), self.addrs.id(&t.owner), coq_list(&ap), self.coq_uri(&t.uri))
            })
            .collect();
        let mut ops: Vec<(u64, u64, Exp)> =
            o.operators.iter().map(|(a, b, e)| (self.addrs.id(a), self.addrs.id(b), e.clone())).collect();
        ops.sort();
        let ops: Vec<String> = ops.iter().map(|(a, b, e)| format!("(({}, {}), {})", a, b, coq_exp(e))).collect();
        let cw2s = format!("{} {}", coq_cwname(&o.cw2.0), coq_version(&o.cw2.1));
        format!(
            "(mkObs {} {} {} (mkOwn {} {} {}) {} {} {} {cws})",
            info,
            o.num_tokens,
            coq_list(&toks),
            self.coq_opt_addr(&o.minter),
            self.coq_opt_addr(&o.pending),
            coq_opt_exp(&o.pending_expiry),
            coq_list(&ops),
            coq_bool(o.md_frozen),
            coq_bool(o.md_enabled),
            cws = cw2s
        )
    }
    fn coq_upd(&mut self, u: &UpdSpec) -> String {
        format!(
            "(mkUpd {} {} {} {} {} {})",
            self.coq_opt_txt(&u.description),
            self.coq_opt_txt(&u.image),
            self.coq_opt_txt(&u.external_link),
            coq_opt_bool(u.explicit_content),
            self.coq_roy(&u.royalty),
            self.coq_opt_addr(&u.creator)
        )
    }
    /// the Coq `action` of a step
    pub fn coq_op(&mut self, op: &Op) -> String {
        if *op == Op::Migrate {
            return "AMigrate".into();
        }
        if *op == Op::MigrateSelf {
            return "AMigrateSelf".into();
        }
        format!("(ACall {})", self.coq_call(op))
    }
    fn coq_call(&mut self, op: &Op) -> String {
        match op {
            Op::Mint { id, owner, uri } => format!("(OMint {} {} {})", id, self.addrs.id(owner), self.coq_uri(uri)),
            Op::Transfer { to, id } => format!("(OTransfer {} {})", self.addrs.id(to), id),
            Op::Send { to, id } => format!("(OSend {} {} {})", self.addrs.id(to), id, coq_bool(to == PUPPET)),
            Op::Approve { spender, id, exp } => format!("(OApprove {} {} {})", self.addrs.id(spender), id, coq_opt_exp(exp)),
            Op::Revoke { spender, id } => format!("(ORevoke {} {})", self.addrs.id(spender), id),
            Op::ApproveAll { operator, exp } => format!("(OApproveAll {} {})", self.addrs.id(operator), coq_opt_exp(exp)),
            Op::RevokeAll { operator } => format!("(ORevokeAll {})", self.addrs.id(operator)),
            Op::Burn { id } => format!("(OBurn {})", id),
            Op::UpdateInfo(u) => format!("(OUpdateInfo {})", self.coq_upd(u)),
            Op::StartTrading(t) => format!("(OStartTrading {})", coq_opt_n(*t)),
            Op::FreezeInfo => "OFreezeInfo".into(),
            Op::OwnTransfer { new_owner, exp } => format!("(OOwnTransfer {} {})", self.addrs.id(new_owner), coq_opt_exp(exp)),
            Op::OwnAccept => "OOwnAccept".into(),
            Op::OwnRenounce => "OOwnRenounce".into(),
            Op::UpdateTokenMd { id, uri } => format!("(OUpdateTokenMd {} {})", id, self.coq_uri(uri)),
            Op::FreezeTokenMd => "OFreezeTokenMd".into(),
            Op::EnableUpdatable => "OEnableUpdatable".into(),
            Op::Migrate | Op::MigrateSelf => unreachable!(),
        }
    }
}

pub fn coq_cwname(n: &str) -> String {
    match n {
        "crates.io:sg721-base" => "NBase".into(),
        "sg721-base" => "NBaseLegacy".into(),
        "crates.io:sg721-updatable" => "NUpd".into(),
        "sg721-updatable" => "NUpdLegacy".into(),
        "crates.io:sg721-metadata-onchain" => "(NOther 1)".into(),
        "crates.io:sg721-nt" => "(NOther 2)".into(),
        other => format!("(NOther {})", 3 + other.len()),
    }
}
/// MAJOR.MINOR.PATCH only (stated bound of the version model)
pub fn parse_triple(v: &str) -> (u64, u64, u64) {
    let p: Vec<u64> = v.split('.').map(|x| x.parse::<u64>().expect("numeric version component")).collect();
    assert_eq!(p.len(), 3, "version {} is not MAJOR.MINOR.PATCH", v);
    (p[0], p[1], p[2])
}
pub fn coq_version(v: &str) -> String {
    let (a, b, c) = parse_triple(v);
    format!("({}, {}, {})", a, b, c)
}
pub fn coq_opt_bool(b: Option<bool>) -> String {
    match b {
        Some(x) => format!("(Some {})", coq_bool(x)),
        None => "None".into(),
    }
}
pub fn coq_exp(e: &Exp) -> String {
    match e {
        Exp::Never => "ExNever".into(),
        Exp::At(t) => format!("(ExAt {})", t),
    }
}
pub fn coq_opt_exp(e: &Option<Exp>) -> String {
    match e {
        Some(x) => format!("(Some {})", coq_exp(x)),
        None => "None".into(),
    }
}
fn coq_funds(fs: &[(String, u128)], denoms: &mut Ids) -> String {
    coq_list(&fs.iter().map(|(d, a)| format!("mkCoin {} {}", denoms.id(d), a)).collect::<Vec<_>>())
}

/// Incremental runner: boots the world, then executes steps one at a time (the generators
/// look at the latest observation to choose the next call).
pub struct Runner {
    pub setup: Setup,
    pub world: Option<World>,
    pub init_err: Option<String>,
    pub init_obs: Option<Obs>,
    pub last: Option<Obs>,
    pub recs: Vec<StepRec>,
    coq_steps: Vec<String>,
    coq_head: String,
    denoms: Ids,
}
impl Runner {
    pub fn new(setup: &Setup) -> Runner {
        let mut denoms = denom_ids();
        denoms.id("uother");
        let (world, init_err, mut addrs, mut texts) = match World::boot(setup) {
            Ok(w) => {
                let (a, t) = (w.addrs.clone(), w.texts.clone());
                (Some(w), None, a, t)
            }
            Err((e, a, t)) => (None, Some(e), a, t),
        };
        let mut r = Runner {
            setup: setup.clone(),
            world,
            init_err,
            init_obs: None,
            last: None,
            recs: vec![],
            coq_steps: vec![],
            coq_head: String::new(),
            denoms,
        };
        let f0 = if setup.funds0 > 0 { vec![(NATIVE.to_string(), setup.funds0)] } else { vec![] };
        let info0 = InfoObs {
            creator: setup.info.creator.clone(),
            description: setup.info.description.clone(),
            image: setup.info.image.clone(),
            external_link: setup.info.external_link.clone(),
            explicit_content: setup.info.explicit_content,
            start_trading_time: setup.info.start_trading_time,
            royalty: setup.info.royalty.clone(),
        };
        let cw2_s = match &setup.cw2 {
            Some((n, v)) => format!("(Some ({}, {}))", coq_cwname(n), coq_version(v)),
            None => "None".to_string(),
        };
        let (self_id, admin_id, minter_id, info_s, init_s) = match r.world.as_mut() {
            Some(w) => {
                let o = w.observe();
                let s = (w.addrs.id(w.coll.as_str()), w.addrs.id(&setup.info.creator), w.addrs.id(&setup.minter), w.coq_info(&info0), format!("(Some {})", w.coq_obs(&o)));
                r.init_obs = Some(o.clone());
                r.last = Some(o);
                s
            }
            None => {
                // rejected instantiation: print the inputs with a throw-away world-less printer
                let mut w = PrinterOnly { addrs: &mut addrs, texts: &mut texts };
                (0, w.addrs.id(&setup.info.creator), w.addrs.id(&setup.minter), w.coq_info(&info0), "None".to_string())
            }
        };
        r.coq_head = format!(
            "{} {} {} {} {} {} {} {} {} {} {}",
            setup.variant.coq(),
            coq_bool(setup.variant == Variant::UpdatableMigrated),
            self_id,
            admin_id,
            setup.time0,
            coq_bool(setup.by_contract),
            coq_funds(&f0, &mut r.denoms),
            minter_id,
            info_s,
            cw2_s,
            init_s
        );
        r
    }
    pub fn alive(&self) -> bool {
        self.world.is_some()
    }
    pub fn obs(&self) -> &Obs {
        self.last.as_ref().expect("collection exists")
    }
    pub fn step(&mut self, st: &Step) -> &StepRec {
        let w = self.world.as_mut().expect("collection exists");
        let before = self.last.clone().unwrap();
        let (ok, err, burned, pooled) = w.exec(st);
        let after = w.observe();
        let obs_s = if after == before { "None".to_string() } else { format!("(Some {})", w.coq_obs(&after)) };
        let out_s = if ok { format!("(Done {} {})", burned, pooled) } else { "Failed".to_string() };
        let s = format!(
            "mkStep (mkEnv {} {} {}) {} {} {}",
            st.at,
            w.addrs.id(&st.sender),
            coq_funds(&st.funds, &mut self.denoms),
            w.coq_op(&st.op),
            out_s,
            obs_s
        );
        self.coq_steps.push(s);
        self.last = Some(after.clone());
        self.recs.push(StepRec { step: st.clone(), ok, err, burned, pooled, before, after });
        self.recs.last().unwrap()
    }
    pub fn hist(&self) -> Hist {
        Hist { setup: self.setup.clone(), steps: self.recs.iter().map(|r| r.step.clone()).collect() }
    }
    /// the Coq `history` term (without a constructor in front)
    pub fn coq_history(&self) -> String {
        format!("(mkHist {} {})", self.coq_head, coq_list(&self.coq_steps))
    }
}

struct PrinterOnly<'a> {
    addrs: &'a mut Ids,
    texts: &'a mut Ids,
}
impl PrinterOnly<'_> {
    fn coq_txt(&mut self, s: &str) -> String {
        format!("(mkTxt {} {} {})", self.texts.id(s), s.len(), coq_bool(VALID_URLS.contains(&s)))
    }
    fn coq_info(&mut self, i: &InfoObs) -> String {
        let c = self.addrs.id(&i.creator);
        let link = match &i.external_link {
            Some(x) => format!("(Some {})", self.coq_txt(x)),
            None => "None".into(),
        };
        let roy = match &i.royalty {
            Some(r) => format!("(Some (mkRoy {} {}))", self.addrs.id(&r.addr), r.share),
            None => "None".into(),
        };
        format!(
            "(mkInfo {} {} {} {} {} {} {})",
            c,
            self.coq_txt(&i.description),
            self.coq_txt(&i.image),
            link,
            coq_opt_bool(i.explicit_content),
            coq_opt_n(i.start_trading_time),
            roy
        )
    }
}

/// Re-run a recorded history from scratch.
pub fn run_hist(h: &Hist) -> Runner {
    let mut r = Runner::new(&h.setup);
    if r.alive() {
        for st in &h.steps {
            r.step(st);
        }
    }
    r
}

/// Greedy one-at-a-time shrinking: drop every step whose removal keeps `still_fails` true.
pub fn shrink(h: &Hist, still_fails: &dyn Fn(&Runner) -> bool) -> Hist {
    let mut cur = h.clone();
    let mut i = cur.steps.len();
    while i > 0 {
        i -= 1;
        let mut cand = cur.clone();
        cand.steps.remove(i);
        let r = run_hist(&cand);
        if still_fails(&r) {
            cur = cand;
        }
    }
    cur
}

/// the workspace version the freshly instantiated collections record in cw2
pub fn current_version() -> (u64, u64, u64) {
    static CUR: std::sync::OnceLock<(u64, u64, u64)> = std::sync::OnceLock::new();
    *CUR.get_or_init(current_version_uncached)
}
fn current_version_uncached() -> (u64, u64, u64) {
    let w = World::boot(&default_setup(Variant::Updatable)).ok().expect("default collection");
    parse_triple(&w.observe().cw2.1)
}
pub const NAME_UPD: &str = "crates.io:sg721-updatable";
pub const NAME_UPD_LEGACY: &str = "sg721-updatable";
pub const NAME_BASE: &str = "crates.io:sg721-base";
pub const NAME_BASE_LEGACY: &str = "sg721-base";
/// versions around every threshold `_migrate` looks at: earliest compatible 0.16.0, the
/// 3.0.0 and 3.1.0 upgrade steps, a 3.2.x, and the current version -1 / +0 / +1
pub fn version_grid() -> Vec<String> {
    let (a, b, c) = current_version();
    let mut v: Vec<(u64, u64, u64)> = vec![(0, 15, 9), (0, 16, 0), (2, 9, 9), (3, 0, 0), (3, 0, 9), (3, 1, 0), (3, 1, 1), (3, 2, 1)];
    if c > 0 {
        v.push((a, b, c - 1));
    } else if b > 0 {
        v.push((a, b - 1, 99));
    }
    v.push((a, b, c));
    v.push((a, b, c + 1));
    v.push((a + 1, 0, 0));
    v.into_iter().map(|(x, y, z)| format!("{}.{}.{}", x, y, z)).collect()
}
pub const NAME_ONCHAIN: &str = "crates.io:sg721-metadata-onchain";
pub const NAME_NT: &str = "crates.io:sg721-nt";
/// the cw2 name each variant records for itself
pub fn own_name(v: Variant) -> &'static str {
    match v {
        Variant::Base => NAME_BASE,
        Variant::Updatable | Variant::UpdatableMigrated => NAME_UPD,
        Variant::Onchain => NAME_ONCHAIN,
        Variant::Nt => NAME_NT,
    }
}
/// version_grid plus records whose STRING order differs from their semver order
/// (Sg721Contract::migrate compares strings)
pub fn version_grid_self() -> Vec<String> {
    let mut v = version_grid();
    for x in ["3.9.9", "3.10.0", "10.0.0"] {
        v.push(x.to_string());
    }
    v
}
pub fn default_info() -> InfoSpec {
    InfoSpec {
        creator: "creator".into(),
        description: "a collection".into(),
        image: VALID_URLS[0].into(),
        external_link: Some(VALID_URLS[2].into()),
        explicit_content: Some(false),
        start_trading_time: None,
        royalty: Some(Roy { addr: "royalty".into(), share: 5 * PCT }),
    }
}
pub fn default_setup(v: Variant) -> Setup {
    Setup {
        variant: v,
        time0: chain::GENESIS_NS + 1_000_000_000,
        by_contract: true,
        funds0: 0,
        minter: PUPPET.into(),
        info: default_info(),
        cw2: None,
    }
}
pub fn replay_body(prop: &str, h: &Hist, what: &str, key: &str) -> String {
    format!(
        "{{\n \"property\": \"{}\",\n \"key\": {},\n \"history\": {},\n \"violation\": {}\n}}\n",
        prop,
        serde_json::to_string(key).unwrap(),
        serde_json::to_string(h).unwrap(),
        serde_json::to_string(what).unwrap()
    )
}
