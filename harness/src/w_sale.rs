//! Sale world for the six vending minters: factory -> minter -> collection (+ optional
//! whitelist), driven by an operation language; every minter step is recorded together
//! with the oracle answers (factory params, whitelist view) the real contracts gave at
//! that moment and the observations after it, and printed as a Coq `sstep`.
#![allow(dead_code)]
use crate::chain::{self, App};
use crate::util::*;
use cosmwasm_std::{coin, Addr, Coin, Timestamp};
use cw_multi_test::Executor;
use serde_json::{json, Value};
use std::collections::BTreeMap;

pub const IBC: &str = "ibc/C4CFF46FD6DE35CA4CF4CE031E643C8FDC9BA4B99AE598E9B0ED98FE3A2319F9";
pub const CREATOR: &str = "creator";
pub const PAYADDR: &str = "payaddr";
pub const BUYERS: [&str; 3] = ["buyer1", "buyer2", "buyer3"];
pub const STRANGER: &str = "stranger";

#[derive(Clone, Copy, Debug, PartialEq, Eq)]
pub struct Variant {
    pub name: &'static str,
    pub featured: bool,
    pub flex: bool,
    pub merkle: bool,
}
pub const VARIANTS: [Variant; 6] = [
    Variant { name: "vending-minter", featured: false, flex: false, merkle: false },
    Variant { name: "vending-minter-featured", featured: true, flex: false, merkle: false },
    Variant { name: "vending-minter-wl-flex", featured: false, flex: true, merkle: false },
    Variant { name: "vending-minter-wl-flex-featured", featured: true, flex: true, merkle: false },
    Variant { name: "vending-minter-merkle-wl", featured: false, flex: false, merkle: true },
    Variant { name: "vending-minter-merkle-wl-featured", featured: true, flex: false, merkle: true },
];
impl Variant {
    pub fn code(&self) -> Box<dyn cw_multi_test::Contract<cosmwasm_std::Empty>> {
        match self.name {
            "vending-minter" => chain::vending_minter(),
            "vending-minter-featured" => chain::vending_minter_featured(),
            "vending-minter-wl-flex" => chain::vending_minter_wl_flex(),
            "vending-minter-wl-flex-featured" => chain::vending_minter_wl_flex_featured(),
            "vending-minter-merkle-wl" => chain::vending_minter_merkle_wl(),
            _ => chain::vending_minter_merkle_wl_featured(),
        }
    }
    pub fn coq(&self) -> String {
        format!("(mkVariant {} {} {})", coq_bool(self.featured), coq_bool(self.flex), coq_bool(self.merkle))
    }
}

#[derive(Clone, Copy, Debug, PartialEq, Eq)]
pub enum WlKind {
    None,
    Plain,
    Tiered,
    Flex,
    TieredFlex,
}

#[derive(Clone, Debug)]
pub struct FactoryParams {
    pub min_price: u128,
    pub denom: String,
    pub mint_fee_bps: u64,
    pub airdrop_price: u128,
    pub airdrop_fee_bps: u64,
    pub shuffle_fee: u128,
    pub max_per_address: u32,
    pub max_token_limit: u32,
    pub offset_secs: u64,
    pub creation_fee: u128,
}
impl Default for FactoryParams {
    fn default() -> Self {
        FactoryParams {
            min_price: 50,
            denom: NATIVE.into(),
            mint_fee_bps: 1000,
            airdrop_price: 0,
            airdrop_fee_bps: 10000,
            shuffle_fee: 500,
            max_per_address: 50,
            max_token_limit: 10000,
            offset_secs: 7 * 24 * 3600,
            creation_fee: 5_000,
        }
    }
}

#[derive(Clone, Debug)]
pub struct SaleCfg {
    pub variant: usize,
    pub updatable_collection: bool,
    pub fp: FactoryParams,
    pub num_tokens: u32,
    pub pal: u32,
    pub price: u128,
    pub start_in_secs: u64,
    pub payment_address: bool,
    pub wl: WlKind,
    /// whitelist window(s) relative to creation: (start_in, end_in) seconds; tiered kinds use all
    pub wl_windows: Vec<(u64, u64)>,
    pub wl_price: u128,
    pub wl_limit: u32,
    pub wl_stage_limit: Option<u32>,
    pub wl_members: Vec<&'static str>,
    pub wl_flex_count: u32,
    /// requested collection start_trading_time at creation (absolute nanoseconds); None = not given
    pub start_trading: Option<u64>,
    /// tiered kinds: the price of stage i of the whitelist created with the world (empty = `wl_price` for all)
    pub wl_stage_prices: Vec<u128>,
    /// denom of the whitelist created with the world (None = the factory denom)
    pub wl_denom: Option<String>,
    /// chain clock at which the world is created (absolute nanoseconds); None = chain::new_app's default
    pub clock: Option<u64>,
}
impl SaleCfg {
    pub fn basic(variant: usize) -> Self {
        SaleCfg {
            variant,
            updatable_collection: false,
            fp: FactoryParams::default(),
            num_tokens: 10,
            pal: 3,
            price: 100,
            start_in_secs: 3000,
            payment_address: false,
            wl: WlKind::None,
            wl_windows: vec![(1000, 2000)],
            wl_price: 60,
            wl_limit: 2,
            wl_stage_limit: None,
            wl_members: vec!["buyer1", "buyer2"],
            wl_flex_count: 2,
            start_trading: None,
            wl_stage_prices: vec![],
            wl_denom: None,
            clock: None,
        }
    }
}

pub struct SaleWorld {
    pub app: App,
    pub v: Variant,
    pub cfg: SaleCfg,
    pub factory: Addr,
    pub minter: Addr,
    pub collection: Addr,
    pub whitelist: Option<Addr>,
    pub wl_kind: WlKind,
    pub spare_whitelist: Option<Addr>,
    pub addrs: Ids,
    pub denoms: Ids,
    pub t0: u64,
    pub initial_supply: BTreeMap<String, u128>,
    pub wl_code: BTreeMap<&'static str, u64>,
    /// Merkle mint arguments of the step being run (stage, proof hashes, allocation):
    /// consulted by `wl_view` to ask the whitelist the proof-form HasMember question
    pub proof_ctx: Option<(Option<u32>, Vec<String>, Option<u32>)>,
    /// changes of tracked balances / supply caused by activity that is not a minter step
    /// (the creation fee of a whitelist instantiated for Op::SetWhitelist): subtracted from
    /// the balances shown to the model, which only follows the minter's own money flows
    pub ext_drift: BTreeMap<(String, String), i128>,
    /// cw2 (name, version) the minter stored at creation: the contract's own CONTRACT_NAME
    pub own_cw2: (String, String),
}

const S: u64 = 1_000_000_000;

fn ts(n: u64) -> Value {
    json!(n.to_string())
}
fn coinv(amount: u128, denom: &str) -> Value {
    json!({"amount": amount.to_string(), "denom": denom})
}

impl SaleWorld {
    pub fn tracked_accounts(&self) -> Vec<String> {
        let mut v: Vec<String> = vec![CREATOR.into(), PAYADDR.into()];
        v.extend(BUYERS.iter().map(|s| s.to_string()));
        v.push(STRANGER.into());
        v.push(self.minter.to_string());
        v.push(self.factory.to_string());
        v.push(FOUNDATION.into());
        v.push(LAUNCHPAD_DAO.into());
        v.push(LIQUIDITY_DAO.into());
        v.push(chain::FAIRBURN_POOL.into());
        v
    }
    pub fn count_accounts(&self) -> Vec<String> {
        let mut v: Vec<String> = vec![CREATOR.into()];
        v.extend(BUYERS.iter().map(|s| s.to_string()));
        v.push(STRANGER.into());
        v
    }

    fn fp_json(fp: &FactoryParams, code_id: u64, sg721_ids: &[u64]) -> Value {
        json!({"params": {
            "code_id": code_id, "allowed_sg721_code_ids": sg721_ids, "frozen": false,
            "creation_fee": coinv(fp.creation_fee, NATIVE),
            "min_mint_price": coinv(fp.min_price, &fp.denom),
            "mint_fee_bps": fp.mint_fee_bps,
            "max_trading_offset_secs": fp.offset_secs,
            "extension": {
                "max_token_limit": fp.max_token_limit, "max_per_address_limit": fp.max_per_address,
                "airdrop_mint_price": coinv(fp.airdrop_price, NATIVE),
                "airdrop_mint_fee_bps": fp.airdrop_fee_bps,
                "shuffle_fee": coinv(fp.shuffle_fee, NATIVE)
            }}})
    }

    /// Build the world; Err(reason) if creation is rejected by the contracts.
    pub fn new(cfg: SaleCfg) -> Result<SaleWorld, String> {
        let v = VARIANTS[cfg.variant];
        let mut app = chain::new_app();
        if let Some(c) = cfg.clock {
            chain::set_time(&mut app, c);
        }
        let t0 = chain::now(&app);
        let mut addrs = addr_ids();
        let mut denoms = denom_ids();
        addrs.id(chain::FAIRBURN_POOL); // 4? no: fixed below
        let mut addrs = Ids::with_fixed(
            &[(FOUNDATION, 1), (LAUNCHPAD_DAO, 2), (LIQUIDITY_DAO, 3), (chain::FAIRBURN_POOL, 4), ("#burned", 5)],
            10,
        );
        denoms.id(IBC);
        for a in [CREATOR, PAYADDR, BUYERS[0], BUYERS[1], BUYERS[2], STRANGER] {
            addrs.id(a);
            chain::mint_coins(&mut app, a, 1_000_000_000_000, NATIVE);
            chain::mint_coins(&mut app, a, 1_000_000_000_000, IBC);
        }
        let minter_code = app.store_code(v.code());
        let factory_code = app.store_code(chain::vending_factory());
        let sg721_code =
            app.store_code(if cfg.updatable_collection { chain::sg721_updatable() } else { chain::sg721_base() });
        let mut wl_code = BTreeMap::new();
        wl_code.insert("plain", app.store_code(chain::whitelist()));
        wl_code.insert("tiered", app.store_code(chain::tiered_whitelist()));
        wl_code.insert("flex", app.store_code(chain::whitelist_flex()));
        wl_code.insert("tiered-flex", app.store_code(chain::tiered_whitelist_flex()));
        wl_code.insert("merkle", app.store_code(chain::whitelist_merkletree()));
        wl_code.insert("tiered-merkle", app.store_code(chain::tiered_whitelist_merkletree()));
        let factory = app
            .instantiate_contract(
                factory_code,
                Addr::unchecked(CREATOR),
                &Self::fp_json(&cfg.fp, minter_code, &[sg721_code]),
                &[],
                "factory",
                None,
            )
            .map_err(|e| format!("factory: {:#}", e))?;
        let mut w = SaleWorld {
            app,
            v,
            cfg: cfg.clone(),
            factory,
            minter: Addr::unchecked("none"),
            collection: Addr::unchecked("none"),
            whitelist: None,
            wl_kind: cfg.wl,
            spare_whitelist: None,
            addrs,
            denoms,
            t0,
            initial_supply: BTreeMap::new(),
            wl_code,
            proof_ctx: None,
            ext_drift: BTreeMap::new(),
            own_cw2: (String::new(), String::new()),
        };
        let denom = cfg.fp.denom.clone();
        if cfg.wl != WlKind::None {
            let wl_denom = cfg.wl_denom.clone().unwrap_or_else(|| denom.clone());
            let a = w.make_whitelist(cfg.wl, &cfg.wl_windows, cfg.wl_price, &wl_denom, cfg.wl_limit, cfg.wl_stage_limit)?;
            w.whitelist = Some(a);
        }
        let create = json!({"create_minter": {
            "init_msg": {
                "base_token_uri": "ipfs://bafybeigi3bwpvyvsmnbj46ra4hyffcxdeaj6ntfk5jpic5mx27x6ih2qvq/images",
                "payment_address": if cfg.payment_address { Some(PAYADDR) } else { None },
                "start_time": ts(t0 + cfg.start_in_secs * S),
                "num_tokens": cfg.num_tokens,
                "mint_price": coinv(cfg.price, &denom),
                "per_address_limit": cfg.pal,
                "whitelist": w.whitelist.as_ref().map(|a| a.to_string()),
            },
            "collection_params": {
                "code_id": sg721_code, "name": "Collection", "symbol": "COL",
                "info": {"creator": CREATOR, "description": "d", "image": "https://example.com/image.png",
                         "external_link": "https://example.com/external.html", "explicit_content": false,
                         "start_trading_time": cfg.start_trading.map(ts),
                         "royalty_info": {"payment_address": CREATOR, "share": "0.1"}}
            }}});
        let fee = if cfg.fp.creation_fee > 0 { vec![coin(cfg.fp.creation_fee, NATIVE)] } else { vec![] };
        chain::exec(&mut w.app, CREATOR, &w.factory.clone(), &create, &fee).map_err(|e| format!("create: {}", e))?;
        // contract addresses are contract<N> in creation order: the minter and collection are the last two
        let cfgq: Value =
            w.find_minter().ok_or_else(|| "minter not found after creation".to_string())?;
        w.collection = Addr::unchecked(cfgq["sg721_address"].as_str().unwrap());
        for a in [w.minter.to_string(), w.factory.to_string(), w.collection.to_string()] {
            w.addrs.id(&a);
        }
        if let Some(wl) = w.whitelist.clone() {
            w.addrs.id(wl.as_str());
        }
        for d in [NATIVE, IBC] {
            w.initial_supply.insert(d.to_string(), chain::supply(&w.app, d));
        }
        w.own_cw2 = crate::w_migrate::get_cw2(&w.app, &w.minter);
        Ok(w)
    }

    fn find_minter(&mut self) -> Option<Value> {
        // scan contract addresses downward from a generous bound
        for n in (0..40).rev() {
            let a = Addr::unchecked(format!("contract{}", n));
            if let Ok(v) = self.app.wrap().query_wasm_smart::<Value>(a.clone(), &json!({"config": {}})) {
                if v.get("sg721_address").is_some() && v.get("factory").is_some() {
                    self.minter = a;
                    return Some(v);
                }
            }
        }
        None
    }

    pub fn make_whitelist(
        &mut self,
        kind: WlKind,
        windows: &[(u64, u64)],
        price: u128,
        denom: &str,
        limit: u32,
        stage_limit: Option<u32>,
    ) -> Result<Addr, String> {
        let now = chain::now(&self.app);
        let members = self.cfg.wl_members.clone();
        let flexm: Vec<Value> =
            members.iter().map(|m| json!({"address": m, "mint_count": self.cfg.wl_flex_count})).collect();
        // per-stage prices apply to the whitelist created with the world (its windows are cfg.wl_windows)
        let stage_prices: Vec<u128> = if windows == self.cfg.wl_windows.as_slice() { self.cfg.wl_stage_prices.clone() } else { vec![] };
        let stages: Vec<Value> = windows
            .iter()
            .enumerate()
            .map(|(i, (s, e))| {
                let price = stage_prices.get(i).copied().unwrap_or(price);
                let mut st = json!({"name": format!("stage{}", i), "start_time": ts(now + s * S), "end_time": ts(now + e * S),
                       "mint_price": coinv(price, denom), "mint_count_limit": stage_limit});
                // tiered-whitelist-flex stages have no per_address_limit (the member's own count is the limit)
                if kind != WlKind::TieredFlex {
                    st["per_address_limit"] = json!(limit);
                }
                st
            })
            .collect();
        let (code, msg) = match kind {
            WlKind::Plain => (
                "plain",
                json!({"members": members, "start_time": ts(now + windows[0].0 * S), "end_time": ts(now + windows[0].1 * S),
                       "mint_price": coinv(price, denom), "per_address_limit": limit, "member_limit": 1000,
                       "admins": [CREATOR], "admins_mutable": true}),
            ),
            WlKind::Flex => (
                "flex",
                json!({"members": flexm, "start_time": ts(now + windows[0].0 * S), "end_time": ts(now + windows[0].1 * S),
                       "mint_price": coinv(price, denom), "member_limit": 1000, "admins": [CREATOR],
                       "admins_mutable": true, "whale_cap": null}),
            ),
            WlKind::Tiered => (
                "tiered",
                json!({"members": windows.iter().map(|_| members.clone()).collect::<Vec<_>>(), "stages": stages,
                       "member_limit": 1000, "admins": [CREATOR], "admins_mutable": true}),
            ),
            WlKind::TieredFlex => (
                "tiered-flex",
                json!({"members": windows.iter().map(|_| flexm.clone()).collect::<Vec<_>>(), "stages": stages,
                       "member_limit": 1000, "admins": [CREATOR], "admins_mutable": true, "whale_cap": null}),
            ),
            WlKind::None => return Err("no whitelist".into()),
        };
        let code_id = self.wl_code[code];
        let r = crate::util::catch(|| {
            self.app.instantiate_contract(
                code_id,
                Addr::unchecked(CREATOR),
                &msg,
                &[coin(100_000_000, NATIVE)],
                "wl",
                None,
            )
        });
        match r {
            Ok(Ok(a)) => {
                self.addrs.id(a.as_str());
                Ok(a)
            }
            Ok(Err(e)) => Err(format!("whitelist: {:#}", e)),
            Err(p) => Err(p),
        }
    }

    /// instantiate any whitelist kind from a caller-built JSON message (admin = CREATOR)
    pub fn make_whitelist_raw(&mut self, code_key: &str, msg: &Value, fee: u128) -> Result<Addr, String> {
        let code_id = self.wl_code[code_key];
        let funds = if fee > 0 { vec![coin(fee, NATIVE)] } else { vec![] };
        let r = crate::util::catch(|| {
            self.app.instantiate_contract(code_id, Addr::unchecked(CREATOR), msg, &funds, "wl", None)
        });
        match r {
            Ok(Ok(a)) => {
                self.addrs.id(a.as_str());
                Ok(a)
            }
            Ok(Err(e)) => Err(format!("whitelist: {:#}", e)),
            Err(p) => Err(p),
        }
    }

    // ---------- oracle collection ----------
    pub fn factory_params(&self) -> Value {
        self.app.wrap().query_wasm_smart::<Value>(self.factory.clone(), &json!({"params": {}})).unwrap()["params"].clone()
    }
    pub fn fp_coq(&mut self) -> String {
        let p = self.factory_params();
        let n = |v: &Value| v.as_str().map(|s| s.to_string()).unwrap_or_else(|| v.to_string());
        let e = &p["extension"];
        let min_d = self.denoms.id(p["min_mint_price"]["denom"].as_str().unwrap());
        let air_d = self.denoms.id(e["airdrop_mint_price"]["denom"].as_str().unwrap());
        format!(
            "(mkFP {} {} {} {} {} {} {} {} {})",
            n(&p["min_mint_price"]["amount"]),
            min_d,
            p["mint_fee_bps"],
            n(&e["airdrop_mint_price"]["amount"]),
            air_d,
            e["airdrop_mint_fee_bps"],
            n(&e["shuffle_fee"]["amount"]),
            e["max_per_address_limit"],
            p["max_trading_offset_secs"]
        )
    }

    /// What `wl` answers right now to the queries a minter issues on behalf of `sender`.
    pub fn wl_view(&mut self, wl: &Addr, sender: &str) -> Option<String> {
        let q = |app: &App, m: Value| -> Option<Value> { app.wrap().query_wasm_smart::<Value>(wl.clone(), &m).ok() };
        let cfg = q(&self.app, json!({"config": {}}))?;
        let active = cfg.get("is_active")?.as_bool()?;
        // the minter parses the answer into its own typed ConfigResponse (deny_unknown_fields): the flex
        // family has no per_address_limit, the others require it; the other family's answer does not parse,
        // i.e. for this minter the Config query fails
        if self.v.flex == cfg.get("per_address_limit").is_some() {
            return None;
        }
        let price: u128 = cfg["mint_price"]["amount"].as_str()?.parse().ok()?;
        let denom = self.denoms.id(cfg["mint_price"]["denom"].as_str()?);
        let limit = cfg.get("per_address_limit").and_then(|x| x.as_u64()).unwrap_or(0);
        let member_limit = cfg.get("member_limit").and_then(|x| x.as_u64()).unwrap_or(0);
        let num_members = cfg.get("num_members").and_then(|x| x.as_u64()).unwrap_or(0);
        let has_plain = q(&self.app, json!({"has_member": {"member": sender}})).and_then(|v| v["has_member"].as_bool());
        let tiered = cw2::query_contract_info(&self.app.wrap(), wl.clone())
            .map(|i| i.contract.contains("tiered-whitelist"))
            .unwrap_or(false);
        let stage_id = q(&self.app, json!({"active_stage_id": {}})).and_then(|v| v.as_u64());
        let stage_limit: Option<Option<u64>> = match stage_id {
            // the minter parses the answer into its family's typed StageResponse (deny_unknown_fields):
            // tiered-whitelist has member_count, tiered-whitelist-merkletree has merkle_root, the flex
            // stage has no per_address_limit; an answer of another family is a failed query for this minter
            Some(id) if id >= 1 => q(&self.app, json!({"stage": {"stage_id": id - 1}}))
                .filter(|v| {
                    if self.v.merkle {
                        serde_json::from_value::<tiered_whitelist_merkletree::msg::StageResponse>(v.clone()).is_ok()
                    } else if self.v.flex {
                        serde_json::from_value::<sg_tiered_whitelist_flex::msg::StageResponse>(v.clone()).is_ok()
                    } else {
                        serde_json::from_value::<sg_tiered_whitelist::msg::StageResponse>(v.clone()).is_ok()
                    }
                })
                .map(|v| v["stage"]["mint_count_limit"].as_u64()),
            _ => None,
        };
        let flex = q(&self.app, json!({"member": {"member": sender}})).and_then(|v| v["mint_count"].as_u64());
        let has_proof: Option<bool> = match &self.proof_ctx {
            Some((stage, proof, alloc)) => {
                let leaf = match (stage, alloc) {
                    (None, Some(a)) => format!("{}{}", sender, a),
                    (Some(s), None) => format!("{}{}", s, sender),
                    (Some(s), Some(a)) => format!("{}{}{}", s, sender, a),
                    (None, None) => sender.to_string(),
                };
                q(&self.app, json!({"has_member": {"member": leaf, "proof_hashes": proof}})).and_then(|v| v["has_member"].as_bool())
            }
            None => None,
        };
        let ob = |o: Option<bool>| match o {
            Some(b) => format!("(Some {})", coq_bool(b)),
            None => "None".into(),
        };
        let sl = match stage_limit {
            None => "None".to_string(),
            Some(None) => "(Some None)".to_string(),
            Some(Some(x)) => format!("(Some (Some {}))", x),
        };
        Some(format!(
            "(Some (mkWV {} {} {} {} {} {} {} {} {} {} {} {}))",
            coq_bool(active),
            price,
            denom,
            limit,
            member_limit,
            num_members,
            ob(has_plain),
            ob(has_proof),
            coq_bool(tiered),
            coq_opt_n(stage_id),
            sl,
            coq_opt_n(flex)
        ))
    }
    pub fn cur_wl_view(&mut self, sender: &str) -> String {
        let wl = self.minter_config()["whitelist"].as_str().map(Addr::unchecked);
        match wl {
            Some(a) => self.wl_view(&a, sender).unwrap_or_else(|| "None".into()),
            None => "None".into(),
        }
    }

    // ---------- observations ----------
    pub fn minter_config(&self) -> Value {
        self.app.wrap().query_wasm_smart::<Value>(self.minter.clone(), &json!({"config": {}})).unwrap()
    }
    pub fn mintable(&self) -> u64 {
        self.app.wrap().query_wasm_smart::<Value>(self.minter.clone(), &json!({"mintable_num_tokens": {}})).unwrap()
            ["count"]
            .as_u64()
            .unwrap()
    }
    pub fn mint_price_q(&self) -> Option<Value> {
        self.app.wrap().query_wasm_smart::<Value>(self.minter.clone(), &json!({"mint_price": {}})).ok()
    }
    pub fn mint_count(&self, who: &str) -> (u64, u64) {
        let v = self
            .app
            .wrap()
            .query_wasm_smart::<Value>(self.minter.clone(), &json!({"mint_count": {"address": who}}))
            .unwrap();
        (v["count"].as_u64().unwrap(), v.get("whitelist_count").and_then(|x| x.as_u64()).unwrap_or(0))
    }
    pub fn positions(&self) -> Vec<(u32, u32)> {
        let st = self.app.contract_storage(&self.minter);
        vending_minter::state::MINTABLE_TOKEN_POSITIONS
            .range(&*st, None, None, cosmwasm_std::Order::Ascending)
            .map(|r| r.unwrap())
            .collect()
    }
    pub fn trading_time(&self) -> Option<u64> {
        let v = self
            .app
            .wrap()
            .query_wasm_smart::<Value>(self.collection.clone(), &json!({"collection_info": {}}))
            .unwrap();
        v["start_trading_time"].as_str().map(|s| s.parse().unwrap())
    }
    pub fn owner_of(&self, token: u64) -> Option<String> {
        self.app
            .wrap()
            .query_wasm_smart::<Value>(
                self.collection.clone(),
                &json!({"owner_of": {"token_id": token.to_string(), "include_expired": null}}),
            )
            .ok()
            .and_then(|v| v["owner"].as_str().map(|s| s.to_string()))
    }
    pub fn all_tokens(&self) -> Vec<String> {
        let mut out: Vec<String> = vec![];
        loop {
            let v = self
                .app
                .wrap()
                .query_wasm_smart::<Value>(
                    self.collection.clone(),
                    &json!({"all_tokens": {"start_after": out.last(), "limit": 100}}),
                )
                .unwrap();
            let page: Vec<String> = v["tokens"].as_array().unwrap().iter().map(|t| t.as_str().unwrap().to_string()).collect();
            if page.is_empty() {
                break;
            }
            out.extend(page);
        }
        out
    }
    pub fn num_tokens_collection(&self) -> u64 {
        self.app.wrap().query_wasm_smart::<Value>(self.collection.clone(), &json!({"num_tokens": {}})).unwrap()["count"]
            .as_u64()
            .unwrap()
    }

    /// the observation vector, same layout as SaleCorr.observe
    pub fn observe(&mut self) -> Vec<u128> {
        let c = self.minter_config();
        let mut v: Vec<u128> = vec![];
        v.push(self.mintable() as u128);
        v.push(c["mint_price"]["amount"].as_str().unwrap().parse().unwrap());
        v.push(self.denoms.id(c["mint_price"]["denom"].as_str().unwrap()) as u128);
        match c["discount_price"].get("amount") {
            Some(a) => {
                v.push(1);
                v.push(a.as_str().unwrap().parse().unwrap())
            }
            None => {
                v.push(0);
                v.push(0)
            }
        }
        v.push(c["start_time"].as_str().unwrap().parse().unwrap());
        v.push(c["per_address_limit"].as_u64().unwrap() as u128);
        match c["whitelist"].as_str() {
            Some(a) => {
                v.push(1);
                let id = self.addrs.id(a);
                v.push(id as u128)
            }
            None => {
                v.push(0);
                v.push(0)
            }
        }
        match self.mint_price_q() {
            Some(p) => {
                v.push(1);
                v.push(p["current_price"]["amount"].as_str().unwrap().parse().unwrap());
                v.push(self.denoms.id(p["current_price"]["denom"].as_str().unwrap()) as u128);
            }
            None => v.extend([0, 0, 0]),
        }
        match self.trading_time() {
            Some(t) => v.extend([1, t as u128]),
            None => v.extend([0, 0]),
        }
        for a in self.count_accounts() {
            let (c, wl) = self.mint_count(&a);
            v.push(c as u128);
            v.push(wl as u128);
        }
        v
    }

    pub fn balances_coq(&mut self) -> String {
        let mut items = vec![];
        for a in self.tracked_accounts() {
            for d in [NATIVE, IBC] {
                let id = self.addrs.id(&a);
                let did = self.denoms.id(d);
                let drift = self.ext_drift.get(&(a.clone(), d.to_string())).copied().unwrap_or(0);
                items.push(format!("({}, {}, {})", id, did, chain::balance(&self.app, &a, d) as i128 - drift));
            }
        }
        for d in [NATIVE, IBC] {
            let did = self.denoms.id(d);
            let drift = self.ext_drift.get(&("#supply".to_string(), d.to_string())).copied().unwrap_or(0);
            let burned = (self.initial_supply[d] - chain::supply(&self.app, d)) as i128 + drift;
            items.push(format!("(5, {}, {})", did, burned));
        }
        coq_list(&items)
    }
    pub fn balances_raw(&self) -> BTreeMap<(String, String), u128> {
        let mut m = BTreeMap::new();
        for a in self.tracked_accounts() {
            for d in [NATIVE, IBC] {
                m.insert((a.clone(), d.to_string()), chain::balance(&self.app, &a, d));
            }
        }
        for d in [NATIVE, IBC] {
            m.insert(("#supply".into(), d.to_string()), chain::supply(&self.app, d));
        }
        m
    }

    /// initial model state from the minter's own queries + raw position table
    pub fn init_state_coq(&mut self) -> String {
        let c = self.minter_config();
        let admin = self.addrs.id(c["admin"].as_str().unwrap());
        let pay = if self.cfg.payment_address { Some(self.addrs.id(PAYADDR)) } else { None };
        let wl = c["whitelist"].as_str().map(|a| self.addrs.id(a));
        let denom = self.denoms.id(c["mint_price"]["denom"].as_str().unwrap());
        let start: u64 = c["start_time"].as_str().unwrap().parse().unwrap();
        let pos: Vec<String> = self.positions().iter().map(|(p, i)| format!("({}, {})", p, i)).collect();
        // LAST_DISCOUNT_TIME = creation time - 12h (raw storage)
        let last = {
            let st = self.app.contract_storage(&self.minter);
            vending_minter::state::LAST_DISCOUNT_TIME.load(&*st).unwrap().nanos()
        };
        format!(
            "(mkVS {} {} {} {} {} {} {} {} None {} {} [] 0 [] [] [] [] [] 0 0 0 0 {} {})",
            admin,
            coq_opt_n(pay),
            c["num_tokens"],
            c["per_address_limit"],
            coq_opt_n(wl),
            start,
            c["mint_price"]["amount"].as_str().unwrap(),
            denom,
            self.mintable(),
            coq_list(&pos),
            last,
            coq_opt_n(self.trading_time())
        )
    }
}

// ---------- operation language ----------
#[derive(Clone, Debug, PartialEq, Eq, serde::Serialize, serde::Deserialize)]
pub enum Op {
    /// advance the clock to t0 + secs*1e9 + nanos (absolute, relative to world creation)
    At { secs: u64, nanos: i64 },
    Mint { who: String, funds: Vec<(String, u128)> },
    /// Mint with Merkle arguments (merkle-wl variants only)
    MintM { who: String, funds: Vec<(String, u128)>, stage: Option<u32>, proof: Option<Vec<String>>, allocation: Option<u32> },
    MintTo { who: String, recipient: String, funds: Vec<(String, u128)> },
    MintFor { who: String, token_id: u32, recipient: String, funds: Vec<(String, u128)> },
    Purge { who: String },
    Shuffle { who: String, funds: Vec<(String, u128)> },
    BurnRemaining { who: String },
    UpdateMintPrice { who: String, price: u128 },
    UpdateStartTime { who: String, secs: u64, nanos: i64 },
    UpdateStartTradingTime { who: String, t: Option<(u64, i64)> },
    UpdatePerAddressLimit { who: String, limit: u32 },
    /// attach the spare whitelist (created on demand with the given window relative to now)
    SetWhitelist { who: String, kind: u8, start_in: u64, end_in: u64, price: u128, ibc: bool },
    UpdateDiscountPrice { who: String, price: u128 },
    RemoveDiscountPrice { who: String },
    /// governance: new factory minimum price / fee bps / airdrop price / offset
    SudoParams { min_price: Option<u128>, mint_fee_bps: Option<u64>, airdrop_price: Option<u128>, airdrop_fee_bps: Option<u64>, offset: Option<u64>, max_pal: Option<u32>, shuffle_fee: Option<u128> },
    /// whitelist admin: add / remove a member (plain & tiered stage 0)
    WlAddMember { who: String },
    /// migrate the minter to its own code id, sent by `who` (the wasm admin is the creator).
    /// `stored` first rewrites the cw2 (name, version) the contract holds, as if an older
    /// (or foreign) deployment were being upgraded
    Migrate {
        who: String,
        #[serde(default)]
        stored: Option<(String, String)>,
    },
    /// holder side, sent to the COLLECTION (not a minter step): cw721 Burn of `token_id` by `who`
    /// (`who` may be "@owner": whoever holds the token right now)
    Burn { who: String, token_id: u32 },
    /// holder side, sent to the COLLECTION: cw721 TransferNft of `token_id` from `who` to `to`
    TransferNft { who: String, to: String, token_id: u32 },
}

/// `who` of a holder op may be "@owner": whoever holds the token right now (STRANGER if nobody does)
pub fn resolve_holder(app: &App, collection: &Addr, who: &str, token_id: u32) -> String {
    if who != "@owner" {
        return who.to_string();
    }
    app.wrap()
        .query_wasm_smart::<Value>(collection.clone(), &json!({"owner_of": {"token_id": token_id.to_string(), "include_expired": null}}))
        .ok()
        .and_then(|v| v["owner"].as_str().map(|s| s.to_string()))
        .unwrap_or_else(|| STRANGER.to_string())
}

/// A cw721 Burn / TransferNft sent to `collection` by `who`; the minter must not notice:
/// Err text starts with MINTER-CHANGED-BY-HOLDER-OP when the minter's raw storage moved.
pub fn holder_op(app: &mut App, minter: &Addr, collection: &Addr, who: &str, msg: &Value) -> (bool, Option<String>) {
    let before = chain::storage_digest(app, minter);
    let r = chain::exec(app, who, collection, msg, &[]);
    let ok = r.is_ok();
    let mut err = r.err();
    if chain::storage_digest(app, minter) != before {
        err = Some(format!("MINTER-CHANGED-BY-HOLDER-OP: {}", err.unwrap_or_default()));
    }
    (ok, err)
}

/// MAJOR.MINOR.PATCH with plain decimal numbers (what model/Semver.v accepts); anything else is None
pub fn parse_plain_version(v: &str) -> Option<(u64, u64, u64)> {
    let parts: Vec<&str> = v.split('.').collect();
    if parts.len() != 3 {
        return None;
    }
    let mut out = [0u64; 3];
    for (i, p) in parts.iter().enumerate() {
        if p.is_empty() || !p.bytes().all(|b| b.is_ascii_digit()) || (p.len() > 1 && p.starts_with('0')) {
            return None;
        }
        out[i] = p.parse().ok()?;
    }
    Some((out[0], out[1], out[2]))
}
pub fn coq_version(v: &str) -> String {
    match parse_plain_version(v) {
        Some((a, b, c)) => format!("(Some ({}, {}, {}))", a, b, c),
        None => "None".into(),
    }
}

pub struct StepOut {
    pub coq: Option<String>,
    pub ok: bool,
    pub err: Option<String>,
    pub minted: Option<(u64, Option<String>)>,
    pub is_minter_step: bool,
}

fn funds_of(fs: &[(String, u128)]) -> Vec<Coin> {
    fs.iter().map(|(d, a)| coin(*a, d.clone())).collect()
}

impl SaleWorld {
    pub fn abs_time(&self, secs: u64, nanos: i64) -> u64 {
        ((self.t0 + secs * S) as i128 + nanos as i128) as u64
    }
    fn coq_funds(&mut self, fs: &[(String, u128)]) -> String {
        coq_list(&fs.iter().map(|(d, a)| format!("mkCoin {} {}", self.denoms.id(d), a)).collect::<Vec<_>>())
    }
    fn exec_minter<T: serde::Serialize + std::fmt::Debug>(
        &mut self,
        who: &str,
        msg: &T,
        funds: &[(String, u128)],
    ) -> Result<cw_multi_test::AppResponse, String> {
        let m = self.minter.clone();
        chain::exec(&mut self.app, who, &m, msg, &funds_of(funds))
    }

    /// Run one op. For minter ops returns the Coq `sstep`.
    pub fn run(&mut self, op: &Op) -> StepOut {
        use vending_minter::msg::ExecuteMsg as E;
        use vending_minter_merkle_wl::msg::ExecuteMsg as EM;
        let not_step = |ok: bool, err: Option<String>| StepOut { coq: None, ok, err, minted: None, is_minter_step: false };
        match op {
            Op::At { secs, nanos } => {
                let t = self.abs_time(*secs, *nanos);
                if t > chain::now(&self.app) {
                    chain::set_time(&mut self.app, t);
                }
                return not_step(true, None);
            }
            Op::SudoParams { min_price, mint_fee_bps, airdrop_price, airdrop_fee_bps, offset, max_pal, shuffle_fee } => {
                let msg = json!({"update_params": {
                    "code_id": null, "add_sg721_code_ids": null, "rm_sg721_code_ids": null, "frozen": null,
                    "creation_fee": null,
                    "min_mint_price": min_price.map(|p| coinv(p, NATIVE)),
                    "mint_fee_bps": mint_fee_bps, "max_trading_offset_secs": offset,
                    "extension": {"max_token_limit": null, "max_per_address_limit": max_pal,
                        "airdrop_mint_price": airdrop_price.map(|p| coinv(p, NATIVE)),
                        "airdrop_mint_fee_bps": airdrop_fee_bps,
                        "shuffle_fee": shuffle_fee.map(|p| coinv(p, NATIVE))}}});
                let f = self.factory.clone();
                let r = chain::sudo(&mut self.app, &f, &msg);
                return not_step(r.is_ok(), r.err());
            }
            Op::Burn { who, token_id } => {
                let (m, c) = (self.minter.clone(), self.collection.clone());
                let who = resolve_holder(&self.app, &c, who, *token_id);
                let (ok, err) = holder_op(&mut self.app, &m, &c, &who, &json!({"burn": {"token_id": token_id.to_string()}}));
                return not_step(ok, err);
            }
            Op::TransferNft { who, to, token_id } => {
                let (m, c) = (self.minter.clone(), self.collection.clone());
                let who = resolve_holder(&self.app, &c, who, *token_id);
                let (ok, err) = holder_op(&mut self.app, &m, &c, &who, &json!({"transfer_nft": {"recipient": to, "token_id": token_id.to_string()}}));
                return not_step(ok, err);
            }
            Op::Migrate { who, stored } => {
                if let Some((n, v)) = stored {
                    // "@own" stands for what the contract stored at creation
                    let n = if n == "@own" { self.own_cw2.0.clone() } else { n.clone() };
                    let v = if v == "@own" { self.own_cw2.1.clone() } else { v.clone() };
                    crate::w_migrate::set_cw2(&mut self.app, &self.minter, &n, &v);
                }
                let (name, version) = crate::w_migrate::get_cw2(&self.app, &self.minter);
                let now = chain::now(&self.app);
                let code_id = self.factory_params()["code_id"].as_u64().unwrap();
                let admin = self.app.wrap().query_wasm_contract_info(self.minter.to_string()).ok().and_then(|i| i.admin);
                let is_admin = admin.as_deref() == Some(who.as_str());
                let before_digest = chain::storage_digest(&self.app, &self.minter);
                let before_bal = self.balances_raw();
                let m = self.minter.clone();
                let sender = Addr::unchecked(who.clone());
                let res = match crate::util::catch(|| self.app.migrate_contract(sender, m, &json!({}), code_id)) {
                    Ok(Ok(_)) => Ok(()),
                    Ok(Err(e)) => Err(format!("{:#}", e)),
                    Err(p) => Err(p),
                };
                let ok = res.is_ok();
                let fp = self.fp_coq();
                let wv_after = self.cur_wl_view(who);
                let obs = self.observe();
                let obs_coq = coq_list(&obs.iter().map(|x| x.to_string()).collect::<Vec<_>>());
                let last = {
                    let st = self.app.contract_storage(&self.minter);
                    vending_minter::state::LAST_DISCOUNT_TIME.load(&*st).unwrap().nanos()
                };
                let bal = self.balances_coq();
                let coq = format!(
                    "(IMigrate (mkMig {} {} {} {} {} {} {} {} {} {}))",
                    now,
                    coq_bool(name == self.own_cw2.0),
                    coq_version(&version),
                    coq_bool(is_admin),
                    coq_bool(ok),
                    fp,
                    wv_after,
                    obs_coq,
                    last,
                    bal
                );
                let mut err = res.err();
                if !ok && (chain::storage_digest(&self.app, &self.minter) != before_digest || self.balances_raw() != before_bal) {
                    err = Some(format!("STATE-CHANGED-ON-FAILURE: {}", err.unwrap_or_default()));
                }
                if ok && self.balances_raw() != before_bal {
                    err = Some("MIGRATE-MOVED-FUNDS".into());
                }
                return StepOut { coq: Some(coq), ok, err, minted: None, is_minter_step: true };
            }
            Op::WlAddMember { who } => {
                if let Some(wl) = self.whitelist.clone() {
                    let msg = match self.wl_kind {
                        WlKind::Plain => json!({"add_members": {"to_add": [who]}}),
                        WlKind::Tiered => json!({"add_members": {"to_add": [who], "stage_id": 0}}),
                        WlKind::Flex => json!({"add_members": {"to_add": [{"address": who, "mint_count": self.cfg.wl_flex_count}]}}),
                        WlKind::TieredFlex => {
                            json!({"add_members": {"to_add": [{"address": who, "mint_count": self.cfg.wl_flex_count}], "stage_id": 0}})
                        }
                        WlKind::None => json!({}),
                    };
                    let r = chain::exec(&mut self.app, CREATOR, &wl, &msg, &[]);
                    return not_step(r.is_ok(), r.err());
                }
                return not_step(false, Some("no whitelist".into()));
            }
            _ => {}
        }
        // ----- minter steps -----
        let now = chain::now(&self.app);
        let (who, funds): (String, Vec<(String, u128)>) = match op {
            Op::Mint { who, funds } | Op::Shuffle { who, funds } | Op::MintM { who, funds, .. } => (who.clone(), funds.clone()),
            Op::MintTo { who, funds, .. } | Op::MintFor { who, funds, .. } => (who.clone(), funds.clone()),
            Op::Purge { who }
            | Op::BurnRemaining { who }
            | Op::UpdateMintPrice { who, .. }
            | Op::UpdateStartTime { who, .. }
            | Op::UpdateStartTradingTime { who, .. }
            | Op::UpdatePerAddressLimit { who, .. }
            | Op::SetWhitelist { who, .. }
            | Op::UpdateDiscountPrice { who, .. }
            | Op::RemoveDiscountPrice { who } => (who.clone(), vec![]),
            _ => unreachable!(),
        };
        self.proof_ctx = match op {
            Op::MintM { stage, proof: Some(p), allocation, .. } => Some((*stage, p.clone(), *allocation)),
            _ => None,
        };
        let fp = self.fp_coq();
        let wv = self.cur_wl_view(&who);
        let before_digest = chain::storage_digest(&self.app, &self.minter);
        let mut before_bal = self.balances_raw();
        let before_tokens = self.num_tokens_collection();
        let sender_id = self.addrs.id(&who);
        let minter_id = self.addrs.id(self.minter.as_str());
        let env = format!("(mkEnv {} {} {} {})", now, sender_id, self.coq_funds(&funds), minter_id);
        let mut new_view: Option<String> = None;
        let mut pre_positions: Vec<(u32, u32)> = vec![];
        // a failed Mint / MintTo carries no token: the model is then asked about a pick that WOULD be legal
        // (the first table entry), so that it has to fail for a reason of its own rather than on the pick
        let first_id: u64 = match op {
            Op::Mint { .. } | Op::MintM { .. } | Op::MintTo { .. } => self.positions().first().map(|p| p.1 as u64).unwrap_or(0),
            _ => 0,
        };
        let res = match op {
            Op::Mint { .. } => {
                if self.v.merkle {
                    self.exec_minter(&who, &EM::Mint { stage: None, proof_hashes: None, allocation: None }, &funds)
                } else {
                    self.exec_minter(&who, &E::Mint {}, &funds)
                }
            }
            Op::MintM { stage, proof, allocation, .. } => self.exec_minter(
                &who,
                &EM::Mint { stage: *stage, proof_hashes: proof.clone(), allocation: *allocation },
                &funds,
            ),
            Op::MintTo { recipient, .. } => self.exec_minter(&who, &E::MintTo { recipient: recipient.clone() }, &funds),
            Op::MintFor { token_id, recipient, .. } => {
                self.exec_minter(&who, &E::MintFor { token_id: *token_id, recipient: recipient.clone() }, &funds)
            }
            Op::Purge { .. } => self.exec_minter(&who, &E::Purge {}, &funds),
            Op::Shuffle { .. } => {
                pre_positions = self.positions();
                self.exec_minter(&who, &E::Shuffle {}, &funds)
            }
            Op::BurnRemaining { .. } => self.exec_minter(&who, &E::BurnRemaining {}, &funds),
            Op::UpdateMintPrice { price, .. } => self.exec_minter(&who, &E::UpdateMintPrice { price: *price }, &funds),
            Op::UpdateStartTime { secs, nanos, .. } => {
                let t = self.abs_time(*secs, *nanos);
                self.exec_minter(&who, &E::UpdateStartTime(Timestamp::from_nanos(t)), &funds)
            }
            Op::UpdateStartTradingTime { t, .. } => {
                let tt = t.map(|(s, n)| Timestamp::from_nanos(self.abs_time(s, n)));
                self.exec_minter(&who, &E::UpdateStartTradingTime(tt), &funds)
            }
            Op::UpdatePerAddressLimit { limit, .. } => {
                self.exec_minter(&who, &E::UpdatePerAddressLimit { per_address_limit: *limit }, &funds)
            }
            Op::SetWhitelist { kind, start_in, end_in, price, ibc, .. } => {
                let k = match kind {
                    0 => WlKind::Plain,
                    1 => WlKind::Tiered,
                    2 => WlKind::Flex,
                    _ => WlKind::TieredFlex,
                };
                let denom = if *ibc { IBC } else { NATIVE };
                let lim = self.cfg.wl_limit;
                match self.make_whitelist(k, &[(*start_in, *end_in)], *price, denom, lim, None) {
                    Ok(a) => {
                        // the whitelist's creation fee is paid outside the minter step
                        let after_wl = self.balances_raw();
                        for (k2, v1) in &after_wl {
                            let v0 = before_bal.get(k2).copied().unwrap_or(0);
                            if *v1 != v0 {
                                *self.ext_drift.entry(k2.clone()).or_insert(0) += *v1 as i128 - v0 as i128;
                            }
                        }
                        before_bal = after_wl;
                        new_view = self.wl_view(&a, &who);
                        let r = self.exec_minter(&who, &E::SetWhitelist { whitelist: a.to_string() }, &funds);
                        if r.is_ok() {
                            self.whitelist = Some(a.clone());
                            self.wl_kind = k;
                        }
                        self.spare_whitelist = Some(a);
                        r
                    }
                    Err(e) => return not_step(false, Some(e)),
                }
            }
            Op::UpdateDiscountPrice { price, .. } => self.exec_minter(&who, &E::UpdateDiscountPrice { price: *price }, &funds),
            Op::RemoveDiscountPrice { .. } => self.exec_minter(&who, &E::RemoveDiscountPrice {}, &funds),
            _ => unreachable!(),
        };
        let ok = res.is_ok();
        // what was minted: response attribute token_id + the owner the collection reports
        let mut minted: Option<(u64, Option<String>)> = None;
        if let Ok(r) = &res {
            if matches!(op, Op::Mint { .. } | Op::MintM { .. } | Op::MintTo { .. } | Op::MintFor { .. }) {
                for ev in &r.events {
                    if ev.ty == "wasm" {
                        if let Some(a) = ev.attributes.iter().find(|a| a.key == "token_id") {
                            if ev.attributes.iter().any(|a| a.key == "action" && a.value.starts_with("mint")) {
                                let id: u64 = a.value.parse().unwrap_or(0);
                                minted = Some((id, self.owner_of(id)));
                            }
                        }
                    }
                }
            }
        }
        let choice = minted.as_ref().map(|m| m.0).unwrap_or(first_id);
        let coq_op = match op {
            Op::Mint { .. } => format!("(OMint None false None {})", choice),
            Op::MintM { stage, proof, allocation, .. } => format!(
                "(OMint {} {} {} {})",
                coq_opt_n(stage.map(|x| x as u64)),
                coq_bool(proof.is_some()),
                coq_opt_n(allocation.map(|x| x as u64)),
                choice
            ),
            Op::MintTo { recipient, .. } => format!("(OMintTo true {} {})", self.addrs.id(recipient), choice),
            Op::MintFor { token_id, recipient, .. } => format!("(OMintFor {} true {})", token_id, self.addrs.id(recipient)),
            Op::Purge { .. } => "OPurge".into(),
            Op::Shuffle { .. } => {
                let ids: Vec<String> = if ok {
                    self.positions().iter().map(|(_, i)| i.to_string()).collect()
                } else {
                    pre_positions.iter().map(|(_, i)| i.to_string()).collect()
                };
                format!("(OShuffle {})", coq_list(&ids))
            }
            Op::BurnRemaining { .. } => "OBurnRemaining".into(),
            Op::UpdateMintPrice { price, .. } => format!("(OUpdateMintPrice {})", price),
            Op::UpdateStartTime { secs, nanos, .. } => format!("(OUpdateStartTime {})", self.abs_time(*secs, *nanos)),
            Op::UpdateStartTradingTime { t, .. } => {
                format!("(OUpdateStartTradingTime {})", coq_opt_n(t.map(|(s, n)| self.abs_time(s, n))))
            }
            Op::UpdatePerAddressLimit { limit, .. } => format!("(OUpdatePerAddressLimit {})", limit),
            Op::SetWhitelist { .. } => {
                let a = self.spare_whitelist.clone().unwrap();
                format!("(OSetWhitelist true {} {})", self.addrs.id(a.as_str()), new_view.clone().unwrap_or("None".into()))
            }
            Op::UpdateDiscountPrice { price, .. } => format!("(OUpdateDiscountPrice {})", price),
            Op::RemoveDiscountPrice { .. } => "ORemoveDiscountPrice".into(),
            _ => unreachable!(),
        };
        let minted_coq = match &minted {
            Some((id, Some(owner))) => format!("(Some ({}, {}))", id, self.addrs.id(owner)),
            Some((id, None)) => format!("(Some ({}, 0))", id),
            None => "None".into(),
        };
        let wv_after = self.cur_wl_view(&who);
        let obs = self.observe();
        let obs_coq = coq_list(&obs.iter().map(|x| x.to_string()).collect::<Vec<_>>());
        let bal = self.balances_coq();
        let coq = format!(
            "(mkStep {} {} {} {} {} {} {} {} {})",
            env,
            fp,
            wv,
            coq_op,
            coq_bool(ok),
            minted_coq,
            wv_after,
            obs_coq,
            bal
        );
        let mut err = res.err();
        // rejected => nothing changed (storage digest, balances, collection size): reported through `err` prefix
        if !ok {
            let after_digest = chain::storage_digest(&self.app, &self.minter);
            if after_digest != before_digest || self.balances_raw() != before_bal || self.num_tokens_collection() != before_tokens {
                err = Some(format!("STATE-CHANGED-ON-FAILURE: {}", err.unwrap_or_default()));
            }
        }
        StepOut { coq: Some(coq), ok, err, minted, is_minter_step: true }
    }
}

/// A whole case as a Coq `scase` term.
pub fn case_coq(w: &mut SaleWorld, init: &str, init_bal: &str, steps: &[String]) -> String {
    let accts: Vec<String> = w.count_accounts().iter().map(|a| w.addrs.id(a).to_string()).collect();
    let pos: Vec<String> = w.positions().iter().map(|(p, i)| format!("({}, {})", p, i)).collect();
    format!(
        "(mkCase {} {} {} {} {} {})",
        w.v.coq(),
        init,
        init_bal,
        coq_list(&accts),
        coq_list(&steps.iter().map(|s| wrap_item(s, "(mkStep", "IStep")).collect::<Vec<_>>()),
        coq_list(&pos)
    )
}

/// a step record becomes a history item of the correspondence vocabulary; migrations are items already
pub fn wrap_item(s: &str, record_prefix: &str, ctor: &str) -> String {
    if s.trim_start().starts_with(record_prefix) {
        format!("({} {})", ctor, s)
    } else {
        s.to_string()
    }
}

// ---------- migrations inside histories: shared generator pieces ----------
/// stored cw2 versions worth trying: every `Version::new(a, b, c)` literal of the nine
/// minters' sources with its patch / minor neighbours, the code's own version ("@own") and
/// its neighbours, a far future version, and strings that do not parse
pub fn migrate_version_pool() -> Vec<String> {
    let repo = std::env::var("VERIF_REPO").unwrap_or_else(|_| "/repo".to_string());
    let mut out: std::collections::BTreeSet<String> = std::collections::BTreeSet::new();
    let mut around = |a: u64, b: u64, c: u64, out: &mut std::collections::BTreeSet<String>| {
        out.insert(format!("{}.{}.{}", a, b, c));
        out.insert(format!("{}.{}.{}", a, b, c + 1));
        out.insert(format!("{}.{}.0", a, b + 1));
        if c > 0 {
            out.insert(format!("{}.{}.{}", a, b, c - 1));
        } else if b > 0 {
            out.insert(format!("{}.{}.9", a, b - 1));
            out.insert(format!("{}.{}.0", a, b - 1));
        }
    };
    let mut names: Vec<String> = VARIANTS.iter().map(|v| v.name.to_string()).collect();
    names.extend(["open-edition-minter", "open-edition-minter-wl-flex", "open-edition-minter-merkle-wl"].iter().map(|s| s.to_string()));
    for n in names {
        let p = std::path::Path::new(&repo).join(format!("contracts/minters/{}/src/contract.rs", n));
        let Ok(src) = std::fs::read_to_string(&p) else { continue };
        let mut rest = &src[..];
        while let Some(i) = rest.find("Version::new(") {
            rest = &rest[i + "Version::new(".len()..];
            let end = rest.find(')').unwrap_or(0);
            let nums: Vec<u64> = rest[..end].split(',').filter_map(|x| x.trim().parse().ok()).collect();
            if nums.len() == 3 {
                around(nums[0], nums[1], nums[2], &mut out);
            }
        }
        // the workspace version the code reports
        if let Ok(toml) = std::fs::read_to_string(std::path::Path::new(&repo).join("Cargo.toml")) {
            if let Some(l) = toml.lines().find(|l| l.trim_start().starts_with("version") && l.contains('"')) {
                let v = l.split('"').nth(1).unwrap_or("");
                if let Some((a, b, c)) = parse_plain_version(v) {
                    around(a, b, c, &mut out);
                }
            }
        }
    }
    around(3, 9, 0, &mut out);
    let mut v: Vec<String> = out.into_iter().collect();
    v.extend(["@own", "@own", "99.0.0", "0.0.1", "abc", "3.9", ""].iter().map(|s| s.to_string()));
    v
}

/// (sender, stored) of one random migration: mostly the wasm admin, mostly the own name
pub fn gen_migrate_args(rng: &mut Rng, pool: &[String]) -> (String, Option<(String, String)>) {
    let who = if rng.chance(6, 7) { CREATOR } else { *rng.pick(&[STRANGER, BUYERS[0], PAYADDR]) };
    let stored = if rng.chance(1, 7) {
        None
    } else {
        let name = if rng.chance(1, 10) { "crates.io:something-else".to_string() } else { "@own".to_string() };
        Some((name, rng.pick(pool).clone()))
    };
    (who.to_string(), stored)
}

/// insert migrations into a generated history: each position with probability `permille`/1000
pub fn sprinkle_migrates(rng: &mut Rng, ops: &mut Vec<Op>, permille: u64) {
    let pool = migrate_version_pool();
    let mut i = 0;
    while i <= ops.len() {
        if rng.below(1000) < permille {
            let (who, stored) = gen_migrate_args(rng, &pool);
            ops.insert(i, Op::Migrate { who, stored });
            i += 1;
        }
        i += 1;
    }
}
