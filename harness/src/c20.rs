//! C20 — migrations never downgrade, never cross contract types, and preserve state.
//! For each of the eighteen contracts with a migrate entry point: put it into a reachable
//! mid-life state, overwrite the stored cw2 (name, version) with every point of a grid,
//! migrate to the same code, and record ok/err, the cw2 info, the slots a migration may
//! write, and whether anything else (raw storage, smart queries) changed.
use crate::chain;
use crate::util::*;
use crate::util::NATIVE;
use crate::c18::{upd_json, Upd};
use crate::w_factory::{jcoin, params_from_json, params_json, q_params, FParams, FactoryKind};
use crate::w_migrate::*;
use crate::Args;
use serde::{Deserialize, Serialize};
use serde_json::{json, Value};
use std::collections::{BTreeMap, BTreeSet};

#[derive(Clone, Copy, Debug, Serialize, Deserialize, PartialEq, Eq, PartialOrd, Ord)]
pub enum MsgKind {
    /// `Empty {}` for the non-factories, `null` for the factories
    Nothing,
    /// a factory update that changes a few parameters
    Valid,
    BadMinMintPrice,
    BadAirdropPrice,
    BadShuffleFee,
}

/// where the cw2 record the migration sees comes from
#[derive(Clone, Copy, Debug, Default, Serialize, Deserialize, PartialEq, Eq)]
pub enum Stored {
    /// (name, version) of the case are written over the record
    #[default]
    Rewrite,
    /// nothing is written: the record is exactly what the contract's own instantiate stored
    AsInstantiated,
    /// the NAME stays as instantiate stored it, only the VERSION of the case is written
    KeepName,
}

#[derive(Clone, Debug, Serialize, Deserialize, PartialEq, Eq)]
pub enum Case {
    /// semver::Version::parse on the crate itself
    Parse { s: String },
    /// the crate's Ord
    Cmp { a: (u64, u64, u64), b: (u64, u64, u64) },
    Mig {
        contract: Contract,
        stage: u8,
        name: String,
        version: String,
        msg: MsgKind,
        /// sg721-updatable only: write a cw721 0.16 `minter` item (the current owner) first
        legacy_minter: bool,
        /// sg721-updatable only: remove the updatable flags first (a genuine sg721-base state)
        strip_flags: bool,
        /// run the migration at this block time instead of the world's (nanoseconds)
        clock: Option<u64>,
        /// what governance did through sudo before the migration (see w_migrate::setup_gov)
        #[serde(default)]
        gov: u8,
        /// state of the optional instantiate fields (see w_migrate::setup_opt)
        #[serde(default)]
        opt: u8,
        #[serde(default)]
        stored: Stored,
    },
    /// a factory instantiated with `init`, stored cw2 (name, version), migrated with an
    /// optional parameter message; the Params answer is compared field by field
    MigP { kind: FactoryKind, init: FParams, upd: Option<Upd>, name: String, version: String },
}

fn coq_str(s: &str) -> String {
    format!("\"{}\"%string", s.replace('"', "\"\""))
}
fn coq_opt_bool(b: Option<bool>) -> String {
    match b {
        Some(x) => format!("(Some {})", coq_bool(x)),
        None => "None".into(),
    }
}

/// documented identities (written from the property / the crates' published names; not
/// read from the model or from Consts)
fn documented_names(c: Contract) -> Vec<&'static str> {
    use Contract::*;
    match c {
        VendingMinter | VendingMinterFeatured | VendingMinterMerkleWl | VendingMinterMerkleWlFeatured | TokenMergeMinter => vec!["crates.io:sg-minter"],
        VendingMinterWlFlex | VendingMinterWlFlexFeatured => vec!["crates.io:sg-vending-minter-flex"],
        OpenEditionMinter | OpenEditionMinterMerkleWl => vec!["crates.io:sg-open-edition-minter"],
        OpenEditionMinterWlFlex => vec!["crates.io:sg-open-edition-minter-flex"],
        BaseFactory => vec!["crates.io:sg-base-factory"],
        VendingFactory => vec!["crates.io:vending-factory"],
        OpenEditionFactory => vec!["crates.io:open-edition-factory"],
        TokenMergeFactory => vec!["crates.io:token-merge-factory"],
        Splits => vec!["crates.io:sg-splits"],
        WhitelistMerkletree => vec!["crates.io:whitelist-merkletree"],
        TieredWhitelistMerkletree => vec!["crates.io:tiered-whitelist-merkletree"],
        Sg721Updatable => vec!["sg721-base", "crates.io:sg721-base", "sg721-updatable", "crates.io:sg721-updatable"],
    }
}
fn own_name(c: Contract) -> &'static str {
    if c == Contract::Sg721Updatable {
        "crates.io:sg721-updatable"
    } else {
        documented_names(c)[0]
    }
}

/// the workspace version of the tree under test (every crate uses `version.workspace = true`)
fn workspace_version() -> String {
    let repo = std::env::var("VERIF_REPO").unwrap_or_else(|_| "/repo".to_string());
    let txt = std::fs::read_to_string(format!("{}/Cargo.toml", repo)).expect("workspace Cargo.toml");
    let mut in_pkg = false;
    for l in txt.lines() {
        let t = l.trim();
        if t.starts_with('[') {
            in_pkg = t == "[workspace.package]";
        } else if in_pkg && t.starts_with("version") {
            return t.split('"').nth(1).expect("version string").to_string();
        }
    }
    panic!("workspace version not found")
}

fn plain_triple(s: &str) -> Option<(u64, u64, u64)> {
    match semver::Version::parse(s) {
        Ok(v) if v.pre.is_empty() && v.build.is_empty() => Some((v.major, v.minor, v.patch)),
        _ => None,
    }
}

fn factory_msg(c: Contract, k: MsgKind) -> Value {
    use Contract::*;
    if k == MsgKind::Nothing {
        return if c.kind() == Kind::Factory { Value::Null } else { json!({}) };
    }
    let bad = |b: bool| if b { json!({"amount": "7", "denom": "uatom"}) } else { Value::Null };
    let ext = match c {
        BaseFactory => Value::Null,
        VendingFactory | TokenMergeFactory => json!({"max_token_limit": 777, "max_per_address_limit": null,
            "airdrop_mint_price": bad(k == MsgKind::BadAirdropPrice), "airdrop_mint_fee_bps": 5000,
            "shuffle_fee": bad(k == MsgKind::BadShuffleFee)}),
        _ => json!({"max_token_limit": 777, "max_per_address_limit": null, "min_mint_price": null,
            "airdrop_mint_price": bad(k == MsgKind::BadAirdropPrice), "airdrop_mint_fee_bps": 5000, "dev_fee_address": null}),
    };
    if c == TokenMergeFactory {
        json!({"code_id": 21, "add_sg721_code_ids": [13], "rm_sg721_code_ids": [1], "frozen": true,
            "creation_fee": null, "max_trading_offset_secs": null, "extension": ext})
    } else {
        json!({"code_id": 21, "add_sg721_code_ids": [13], "rm_sg721_code_ids": [1], "frozen": true,
            "creation_fee": null, "min_mint_price": bad(k == MsgKind::BadMinMintPrice), "mint_fee_bps": 250,
            "max_trading_offset_secs": null, "extension": ext})
    }
}
fn msg_expressible(c: Contract, k: MsgKind) -> bool {
    use Contract::*;
    match (c, k) {
        (_, MsgKind::Nothing) => true,
        (x, _) if x.kind() != Kind::Factory => false,
        (_, MsgKind::Valid) => true,
        (BaseFactory, MsgKind::BadMinMintPrice) => true,
        (BaseFactory, _) => false,
        (TokenMergeFactory, MsgKind::BadMinMintPrice) => false,
        (OpenEditionFactory, MsgKind::BadShuffleFee) => false,
        _ => true,
    }
}
fn coq_msg(c: Contract, k: MsgKind) -> String {
    if c.kind() != Kind::Factory || k == MsgKind::Nothing {
        return "None".into();
    }
    format!(
        "(Some (mkFmsg {} {} {}))",
        coq_bool(k == MsgKind::BadMinMintPrice),
        coq_bool(k == MsgKind::BadAirdropPrice),
        coq_bool(k == MsgKind::BadShuffleFee)
    )
}

struct World {
    setup: Setup,
    raw0: Raw,
    time0: cosmwasm_std::BlockInfo,
    qs: Vec<(Value, bool)>,
    ids: Ids,
}

struct Outcome {
    coq: String,
    ok: bool,
    viol: Vec<(String, String)>,
    nontrivial: bool,
}

fn coq_state(name: &str, version: &str, raw: &Raw, ids: &mut Ids) -> String {
    let t = |k: &str| coq_opt_n(slot_timestamp(raw, k));
    let a = |o: Option<String>, ids: &mut Ids| coq_opt_n(o.map(|s| ids.id(&s)));
    let lm = a(slot_addr(raw, "minter"), ids);
    let ow = a(slot_owner(raw), ids);
    format!(
        "(mkState {} {} (mkSlots {} {} {} {} {} {} {} {}))",
        coq_str(name),
        coq_str(version),
        t("last_discount_time"),
        coq_opt_bool(slot_bool(raw, "frozen_token_metadata")),
        coq_opt_bool(slot_bool(raw, "enable_updatable")),
        t("royalty_updated_at"),
        lm,
        ow,
        match slot_status(raw) {
            Some((a, b, c)) => format!("(Some ({}, {}, {}))", coq_bool(a), coq_bool(b), coq_bool(c)),
            None => "None".to_string(),
        },
        coq_opt_n(slot_mintable(raw))
    )
}

fn run_mig(w: &mut World, case: &Case, code_version: &str) -> Outcome {
    let Case::Mig { contract, name, version, msg, legacy_minter, strip_flags, clock, stored, .. } = case else { unreachable!() };
    let c = *contract;
    let addr = w.setup.addr.clone();
    // ---- put the world back and apply the case's preparation
    restore(&mut w.setup.app, &addr, &w.raw0);
    w.setup.app.set_block(w.time0.clone());
    if let Some(t) = clock {
        let mut b = w.time0.clone();
        b.time = cosmwasm_std::Timestamp::from_nanos(*t);
        w.setup.app.set_block(b);
    }
    {
        let owner = slot_owner(&w.raw0);
        let mut st = w.setup.app.contract_storage_mut(&addr);
        if *legacy_minter {
            if let Some(o) = owner {
                st.set(b"minter", serde_json::to_string(&o).unwrap().as_bytes());
            }
        }
        if *strip_flags {
            st.remove(b"frozen_token_metadata");
            st.remove(b"enable_updatable");
        }
    }
    // the record as the contract's own instantiate left it (the world was just restored)
    let (inst_name, inst_version) = get_cw2(&w.setup.app, &addr);
    let (name, version): (String, String) = match stored {
        Stored::Rewrite => (name.clone(), version.clone()),
        Stored::AsInstantiated => (inst_name.clone(), inst_version.clone()),
        Stored::KeepName => (inst_name.clone(), version.clone()),
    };
    let (name, version) = (&name, &version);
    if *stored != Stored::AsInstantiated {
        set_cw2(&mut w.setup.app, &addr, name, version);
    }
    let now = chain::now(&w.setup.app);
    let pre = snapshot(&w.setup.app, &addr, &w.qs);
    // ---- migrate
    let r = migrate(&mut w.setup, &factory_msg(c, *msg));
    let ok = r.is_ok();
    let post = snapshot(&w.setup.app, &addr, &w.qs);
    let (post_name, post_version) = get_cw2(&w.setup.app, &addr);

    // ---- what changed
    let mut changed_keys: BTreeSet<String> = BTreeSet::new();
    for k in pre.raw.keys().chain(post.raw.keys()) {
        if pre.raw.get(k) != post.raw.get(k) {
            changed_keys.insert(String::from_utf8_lossy(k).to_string());
        }
    }
    let other_keys_changed: Vec<&String> = changed_keys.iter().filter(|k| !SLOT_KEYS.contains(&k.as_str())).collect();
    let changed_queries: Vec<usize> = (0..w.qs.len()).filter(|i| pre.answers[*i] != post.answers[*i]).collect();
    let plain_queries_changed: Vec<usize> = changed_queries.iter().cloned().filter(|i| !w.qs[*i].1).collect();
    let rest_unchanged = other_keys_changed.is_empty() && plain_queries_changed.is_empty();
    let params_changed = changed_keys.contains("sudo-params");

    // ---- monitors (property text; documented names; the semver crate for the ordering)
    let mut viol = vec![];
    if *stored != Stored::Rewrite && inst_name != own_name(c) {
        viol.push((
            format!("C20:{:?}:instantiate-recorded-foreign-identity", c),
            format!("{:?}: its own instantiate recorded the cw2 identity {:?} (version {:?}); its migrate treats {:?} as its own identity", c, inst_name, inst_version, own_name(c)),
        ));
    }
    let mut v = |key: &str, what: String| viol.push((format!("C20:{}:{:?}", key, c), format!("{:?} stored ({:?}, {:?}) msg {:?}: {}", c, name, version, msg, what)));
    let code = plain_triple(code_version).expect("code version");
    let stored = plain_triple(version);
    let accepted = documented_names(c).contains(&name.as_str());
    let from_base = c == Contract::Sg721Updatable && (name == "sg721-base" || name == "crates.io:sg721-base");
    if ok {
        if !accepted {
            v("accepted-foreign-name", "the stored contract identity is not one this code accepts".into());
        }
        match stored {
            None => v("accepted-unparsable-version", "the stored version is not a semantic version".into()),
            Some(s) if s > code => v("accepted-newer-version", format!("stored {:?} is newer than the code's {:?}", s, code)),
            _ => {}
        }
        if c.kind() == Kind::Factory {
            if (post_name.as_str(), post_version.as_str()) != (name.as_str(), version.as_str()) {
                v("post-version", format!("a factory migration changed the recorded version to ({}, {})", post_name, post_version));
            }
        } else if (post_name.as_str(), post_version.as_str()) != (own_name(c), code_version) {
            v("post-version", format!("recorded ({}, {}) after migration, expected ({}, {})", post_name, post_version, own_name(c), code_version));
        }
        // every value that could be queried before is unchanged, apart from the documented exceptions
        for i in &changed_queries {
            if pre.answers[*i].is_err() {
                continue; // could not be queried before
            }
            let q = w.qs[*i].0.to_string();
            let exempt = (c.kind() == Kind::Factory && *msg != MsgKind::Nothing && w.qs[*i].1)
                || (from_base && (q.contains("enable_updatable") || q.contains("freeze_token_metadata")));
            if !exempt {
                v("state-changed", format!("query {} answered {:?} before and {:?} after", q, pre.answers[*i], post.answers[*i]));
            }
        }
        let older = |t: (u64, u64, u64)| stored.map_or(false, |s| s < t);
        for k in &changed_keys {
            let allowed = match k.as_str() {
                "mintable_num_tokens" => false, // supply moves by mint / burn only
                "status" => false, // what governance set is never a migration's to change
                "contract_info" => c.kind() != Kind::Factory,
                "last_discount_time" => c.kind() == Kind::Vending && older((3, 9, 0)),
                "frozen_token_metadata" | "enable_updatable" => from_base,
                "royalty_updated_at" => c == Contract::Sg721Updatable && older((3, 1, 0)),
                "minter" | "ownership" => c == Contract::Sg721Updatable && older((3, 0, 0)),
                "sudo-params" => c.kind() == Kind::Factory && *msg != MsgKind::Nothing,
                _ => false,
            };
            if !allowed {
                v("storage-changed", format!("raw storage key {:?} changed", k));
            }
        }
        // the discount cooldown anchor is now - 12 h, the royalty timestamp now - 24 h
        if c.kind() == Kind::Vending && older((3, 9, 0)) && slot_timestamp(&post.raw, "last_discount_time") != Some(now.wrapping_sub(12 * 3600 * 1_000_000_000)) {
            v("discount-anchor", format!("LAST_DISCOUNT_TIME = {:?} at block time {}", slot_timestamp(&post.raw, "last_discount_time"), now));
        }
        if c == Contract::Sg721Updatable && older((3, 1, 0)) && slot_timestamp(&post.raw, "royalty_updated_at") != Some(now.wrapping_sub(24 * 3600 * 1_000_000_000)) {
            v("royalty-timestamp", format!("royalty_updated_at = {:?} at block time {}", slot_timestamp(&post.raw, "royalty_updated_at"), now));
        }
    } else {
        if pre.raw != post.raw {
            v("rejected-but-changed", format!("a refused migration changed storage keys {:?}", changed_keys));
        }
        // accepted for every older version of an accepted identity that the code declares compatible
        if let (true, Some(s)) = (accepted, stored) {
            let declared = match c.kind() {
                Kind::Updatable => s >= (0, 16, 0) && !(s == code && name == own_name(c)) && (s >= (3, 0, 0) || *legacy_minter),
                _ => true,
            };
            let clock_fine = clock.map_or(true, |t| t >= 24 * 3600 * 1_000_000_000);
            let msg_fine = matches!(msg, MsgKind::Nothing | MsgKind::Valid);
            if s <= code && declared && clock_fine && msg_fine {
                v("refused-compatible", format!("refused although the identity is accepted and {:?} <= {:?}: {}", s, code, r.as_ref().unwrap_err()));
            }
        }
    }
    drop(v);

    // a migration is applied once (C20_migrate_once_then_fixed / C20_at_code_version_nothing_changes):
    // after an accepted migration, a further attempt -- whether the contract answers Ok or
    // refuses -- changes neither raw storage nor the cw2 record.  Factories are driven
    // without a message here (a message rewrites their parameters, which is C18's subject).
    if ok {
        let again_msg = if c.kind() == Kind::Factory { factory_msg(c, MsgKind::Nothing) } else { factory_msg(c, *msg) };
        let _ = migrate(&mut w.setup, &again_msg);
        let post2 = snapshot(&w.setup.app, &addr, &w.qs);
        if post2.raw != post.raw {
            let mut keys: BTreeSet<String> = BTreeSet::new();
            for k in post.raw.keys().chain(post2.raw.keys()) {
                if post.raw.get(k) != post2.raw.get(k) {
                    keys.insert(String::from_utf8_lossy(k).to_string());
                }
            }
            viol.push((
                format!("C20:second-migration-changed:{:?}", c),
                format!("{:?} stored ({:?}, {:?}) msg {:?}: a second migrate attempt after the accepted one changed raw storage keys {:?}", c, name, version, msg, keys),
            ));
        }
    }

    let pre_s = coq_state(name, version, &pre.raw, &mut w.ids);
    let post_s = coq_state(&post_name, &post_version, &post.raw, &mut w.ids);
    Outcome {
        coq: format!(
            "CMig {} {} {} {} {} {} {} {}",
            c.coq(),
            now,
            coq_msg(c, *msg),
            pre_s,
            coq_bool(ok),
            post_s,
            coq_bool(params_changed),
            coq_bool(rest_unchanged)
        ),
        ok,
        viol,
        nontrivial: accepted && stored.is_some(),
    }
}

fn run_pure(case: &Case) -> Outcome {
    match case {
        Case::Parse { s } => {
            let r = semver::Version::parse(s);
            let coq = match &r {
                Ok(v) if v.pre.is_empty() && v.build.is_empty() => format!("CParse {} (Some ({}, {}, {}))", coq_str(s), v.major, v.minor, v.patch),
                Ok(_) => format!("CParse {} None", coq_str("outside-the-model")), // never generated
                Err(_) => format!("CParse {} None", coq_str(s)),
            };
            Outcome { coq, ok: r.is_ok(), viol: vec![], nontrivial: r.is_ok() }
        }
        Case::Cmp { a, b } => {
            let va = semver::Version::new(a.0, a.1, a.2);
            let vb = semver::Version::new(b.0, b.1, b.2);
            let mut viol = vec![];
            // the ordering the property speaks of: numeric, component by component
            let want = a < b;
            if (va < vb) != want {
                viol.push(("C20:semver-order".to_string(), format!("{} < {} is {} on the crate", va, vb, va < vb)));
            }
            Outcome {
                coq: format!("CCmp ({}, {}, {}) ({}, {}, {}) {}", a.0, a.1, a.2, b.0, b.1, b.2, coq_bool(va < vb)),
                ok: va < vb,
                viol,
                nontrivial: true,
            }
        }
        _ => unreachable!(),
    }
}

// ---------------- factory migrations with parameters ----------------
type Cn = (String, u128);

fn fcontract(kind: FactoryKind) -> Contract {
    match kind {
        FactoryKind::Base => Contract::BaseFactory,
        FactoryKind::Vending => Contract::VendingFactory,
        FactoryKind::OpenEdition => Contract::OpenEditionFactory,
        FactoryKind::TokenMerge => Contract::TokenMergeFactory,
    }
}

struct Names {
    denoms: Ids,
    strs: Ids,
}
impl Names {
    fn new() -> Self {
        Names { denoms: denom_ids(), strs: Ids::with_fixed(&[], 100) }
    }
    fn coin(&mut self, c: &Cn) -> String {
        format!("(mkCoin {} {})", self.denoms.id(&c.0), c.1)
    }
    fn ocoin(&mut self, c: &Option<Cn>) -> String {
        match c {
            Some(c) => format!("(Some {})", self.coin(c)),
            None => "None".into(),
        }
    }
}
fn on<T: std::fmt::Display>(o: &Option<T>) -> String {
    match o {
        Some(x) => format!("(Some {})", x),
        None => "None".into(),
    }
}
fn nl(l: &[u64]) -> String {
    coq_list(&l.iter().map(|x| x.to_string()).collect::<Vec<_>>())
}
fn ol(o: &Option<Vec<u64>>) -> String {
    match o {
        Some(l) => format!("(Some {})", nl(l)),
        None => "None".into(),
    }
}
fn coq_cp(n: &mut Names, p: &FParams) -> String {
    format!(
        "(mkCP {} {} {} {} {} {} {})",
        p.code_id,
        nl(&p.allowed),
        coq_bool(p.frozen),
        n.coin(&p.creation_fee),
        n.coin(&p.min_mint_price),
        p.mint_fee_bps,
        p.offset
    )
}
fn coq_fparams(n: &mut Names, kind: FactoryKind, p: &FParams) -> String {
    match kind {
        FactoryKind::Base => coq_cp(n, p),
        FactoryKind::Vending => format!(
            "(mkVP {} (mkVX {} {} {} {} {}))",
            coq_cp(n, p),
            p.max_token_limit,
            p.max_per_address_limit,
            n.coin(&p.airdrop_mint_price),
            p.airdrop_mint_fee_bps,
            n.coin(&p.shuffle_fee)
        ),
        FactoryKind::OpenEdition => format!(
            "(mkOP {} (mkOX {} {} {} {} {}))",
            coq_cp(n, p),
            p.max_token_limit,
            p.max_per_address_limit,
            p.airdrop_mint_fee_bps,
            n.coin(&p.airdrop_mint_price),
            n.strs.id(&p.dev_fee_address)
        ),
        FactoryKind::TokenMerge => format!(
            "(mkTP {} {} {} {} {} {} {} {} {} {})",
            p.code_id,
            nl(&p.allowed),
            coq_bool(p.frozen),
            n.coin(&p.creation_fee),
            p.offset,
            p.max_token_limit,
            p.max_per_address_limit,
            n.coin(&p.airdrop_mint_price),
            p.airdrop_mint_fee_bps,
            n.coin(&p.shuffle_fee)
        ),
    }
}
fn coq_cm(n: &mut Names, u: &Upd) -> String {
    format!(
        "(mkCM {} {} {} {} {} {} {} {})",
        on(&u.code_id),
        ol(&u.add),
        ol(&u.rm),
        coq_opt_bool(u.frozen),
        n.ocoin(&u.creation_fee),
        n.ocoin(&u.min_mint_price),
        on(&u.mint_fee_bps),
        on(&u.offset)
    )
}
fn coq_vxm(n: &mut Names, u: &Upd) -> String {
    format!(
        "(mkVXM {} {} {} {} {})",
        on(&u.max_token_limit),
        on(&u.max_per_address_limit),
        n.ocoin(&u.airdrop_mint_price),
        on(&u.airdrop_mint_fee_bps),
        n.ocoin(&u.shuffle_fee)
    )
}
fn coq_upd(n: &mut Names, kind: FactoryKind, u: &Option<Upd>) -> String {
    let Some(u) = u else { return "None".into() };
    let body = match kind {
        FactoryKind::Base => coq_cm(n, u),
        FactoryKind::Vending => format!("(mkVM {} {})", coq_cm(n, u), coq_vxm(n, u)),
        FactoryKind::OpenEdition => {
            let dev = match &u.dev_fee_address {
                Some(s) => format!("(Some {})", n.strs.id(s)),
                None => "None".into(),
            };
            format!(
                "(mkOM {} (mkOXM {} {} {} {} {} {}))",
                coq_cm(n, u),
                on(&u.max_token_limit),
                on(&u.max_per_address_limit),
                n.ocoin(&u.ext_min_mint_price),
                on(&u.airdrop_mint_fee_bps),
                n.ocoin(&u.airdrop_mint_price),
                dev
            )
        }
        FactoryKind::TokenMerge => format!(
            "(mkTM {} {} {} {} {} {} {})",
            on(&u.code_id),
            ol(&u.add),
            ol(&u.rm),
            coq_opt_bool(u.frozen),
            n.ocoin(&u.creation_fee),
            on(&u.offset),
            coq_vxm(n, u)
        ),
    };
    format!("(Some {})", body)
}

/// the leaves of a Params answer: scalars, coins and the id list, by dotted path
fn leaves(v: &Value, prefix: &str, out: &mut BTreeMap<String, Value>) {
    match v {
        Value::Object(m) if !(m.len() == 2 && m.contains_key("denom") && m.contains_key("amount")) => {
            for (k, x) in m {
                let p = if prefix.is_empty() { k.clone() } else { format!("{}.{}", prefix, k) };
                leaves(x, &p, out);
            }
        }
        other => {
            out.insert(prefix.to_string(), other.clone());
        }
    }
}

/// message field -> (path in the Params answer, the value the message supplies), from the
/// message and state struct definitions of each factory
fn supplied(kind: FactoryKind, u: &Upd) -> BTreeMap<String, Value> {
    let c = |x: &Cn| jcoin(&x.0, x.1);
    let mut m = BTreeMap::new();
    let mut put = |path: String, v: Option<Value>| {
        if let Some(v) = v {
            m.insert(path, v);
        }
    };
    put("code_id".into(), u.code_id.map(|x| json!(x)));
    put("frozen".into(), u.frozen.map(|x| json!(x)));
    put("creation_fee".into(), u.creation_fee.as_ref().map(c));
    put("max_trading_offset_secs".into(), u.offset.map(|x| json!(x)));
    if kind != FactoryKind::TokenMerge {
        put("min_mint_price".into(), u.min_mint_price.as_ref().map(c));
        put("mint_fee_bps".into(), u.mint_fee_bps.map(|x| json!(x)));
    }
    if kind != FactoryKind::Base {
        let e = |n: &str| if kind == FactoryKind::TokenMerge { n.to_string() } else { format!("extension.{}", n) };
        put(e("max_token_limit"), u.max_token_limit.map(|x| json!(x)));
        put(e("max_per_address_limit"), u.max_per_address_limit.map(|x| json!(x)));
        put(e("airdrop_mint_price"), u.airdrop_mint_price.as_ref().map(c));
        put(e("airdrop_mint_fee_bps"), u.airdrop_mint_fee_bps.map(|x| json!(x)));
        if kind == FactoryKind::OpenEdition {
            put(e("dev_fee_address"), u.dev_fee_address.as_ref().map(|x| json!(x)));
        } else {
            put(e("shuffle_fee"), u.shuffle_fee.as_ref().map(c));
        }
    }
    m
}
fn id_set(v: &Value) -> BTreeSet<u64> {
    v.as_array().map(|a| a.iter().filter_map(|x| x.as_u64()).collect()).unwrap_or_default()
}

fn run_migp(case: &Case, code_version: &str) -> Outcome {
    let Case::MigP { kind, init, upd, name, version } = case else { unreachable!() };
    let kind = *kind;
    let c = fcontract(kind);
    let mut app = chain::new_app();
    let code_id = app.store_code(kind.code());
    let imsg = json!({ "params": params_json(kind, init) });
    let addr = {
        use cw_multi_test::Executor;
        app.instantiate_contract(code_id, cosmwasm_std::Addr::unchecked("governance"), &imsg, &[], "factory", Some(CREATOR.to_string()))
            .unwrap_or_else(|e| panic!("cannot instantiate {:?} with {}: {:#}", kind, imsg, e))
    };
    set_cw2(&mut app, &addr, name, version);
    let now = chain::now(&app);
    let pre_raw = raw_storage(&app, &addr);
    let pre_params = q_params(&app, &addr).expect("Params query");
    let msg = match upd {
        None => Value::Null,
        Some(u) => upd_json(kind, u)["update_params"].clone(),
    };
    let mut setup = Setup { app, addr: addr.clone(), admin: CREATOR.to_string(), code_id, contract: c };
    let r = migrate(&mut setup, &msg);
    let app = setup.app;
    let ok = r.is_ok();
    let post_raw = raw_storage(&app, &addr);
    let post_params = q_params(&app, &addr).expect("Params query");
    let (post_name, post_version) = get_cw2(&app, &addr);
    let mut rest_unchanged = true;
    for k in pre_raw.keys().chain(post_raw.keys()) {
        if pre_raw.get(k) != post_raw.get(k) && k.as_slice() != b"sudo-params" && k.as_slice() != b"contract_info" {
            rest_unchanged = false;
        }
    }

    // ---- monitors: the property sentence on the Params answers
    let mut viol = vec![];
    let mut v = |key: &str, what: String| {
        viol.push((format!("C20:{}:{:?}", key, c), format!("{:?} stored ({:?}, {:?}) params {} message {}: {}", c, name, version, pre_params, msg, what)))
    };
    let code = plain_triple(code_version).expect("code version");
    let stored = plain_triple(version);
    let accepted = documented_names(c).contains(&name.as_str());
    let mut pre_l = BTreeMap::new();
    let mut post_l = BTreeMap::new();
    leaves(&pre_params, "", &mut pre_l);
    leaves(&post_params, "", &mut post_l);
    if ok {
        if !accepted {
            v("accepted-foreign-name", "the stored contract identity is not one this code accepts".into());
        }
        match stored {
            None => v("accepted-unparsable-version", "the stored version is not a semantic version".into()),
            Some(s) if s > code => v("accepted-newer-version", format!("stored {:?} is newer than the code's {:?}", s, code)),
            _ => {}
        }
        if (post_name.as_str(), post_version.as_str()) != (name.as_str(), version.as_str()) {
            v("post-version", format!("a factory migration changed the recorded version to ({}, {})", post_name, post_version));
        }
        let sup = upd.as_ref().map(|u| supplied(kind, u)).unwrap_or_default();
        let ids_supplied = upd.as_ref().map_or(false, |u| u.add.is_some() || u.rm.is_some());
        if pre_l.keys().collect::<Vec<_>>() != post_l.keys().collect::<Vec<_>>() {
            v("factory-migrate-unsupplied-param-changed", "the set of parameters in the Params answer changed".into());
        }
        for (path, before) in &pre_l {
            let Some(after) = post_l.get(path) else { continue };
            if path == "allowed_sg721_code_ids" {
                // a set of ids: without additions/removals the same set; with them, additions before removals
                let (b, a) = (id_set(before), id_set(after));
                if !ids_supplied {
                    if a != b {
                        v("factory-migrate-unsupplied-param-changed", format!("{}: {} -> {} although no code id was added or removed", path, before, after));
                    }
                } else {
                    let u = upd.as_ref().unwrap();
                    let mut want = b.clone();
                    want.extend(u.add.clone().unwrap_or_default());
                    for x in u.rm.clone().unwrap_or_default() {
                        want.remove(&x);
                    }
                    if a != want && a != b {
                        v("factory-migrate-supplied-param-garbled", format!("{}: {} -> {}, neither the previous set nor previous + added - removed", path, before, after));
                    }
                }
                continue;
            }
            match sup.get(path) {
                None => {
                    if after != before {
                        v("factory-migrate-unsupplied-param-changed", format!("{} was not supplied and went {} -> {}", path, before, after));
                    }
                }
                Some(want) => {
                    if after != want && after != before {
                        v("factory-migrate-supplied-param-garbled", format!("{} supplied as {} went {} -> {}", path, want, before, after));
                    }
                }
            }
        }
        if !rest_unchanged {
            v("storage-changed", "raw storage outside the parameters changed".into());
        }
    } else {
        if pre_raw != post_raw || pre_params != post_params {
            v("rejected-but-changed", "a refused migration changed the contract".into());
        }
        if let (true, Some(s)) = (accepted, stored) {
            let all_native = upd.as_ref().map_or(true, |u| {
                [&u.creation_fee, &u.min_mint_price, &u.airdrop_mint_price, &u.shuffle_fee, &u.ext_min_mint_price]
                    .iter()
                    .all(|c| c.as_ref().map_or(true, |c| c.0 == NATIVE))
            });
            if s <= code && all_native {
                v("refused-compatible", format!("refused although the identity is accepted, {:?} <= {:?} and every supplied coin is native: {}", s, code, r.as_ref().unwrap_err()));
            }
        }
    }
    drop(v);

    // ---- observation for the model
    let mut n = Names::new();
    let mut ids = Ids::with_fixed(&[], 10);
    let p0 = params_from_json(kind, &pre_params, init).expect("Params answer has the documented shape");
    let p1 = params_from_json(kind, &post_params, init).expect("Params answer has the documented shape");
    let ctor = match kind {
        FactoryKind::Base => "CMigBase",
        FactoryKind::Vending => "CMigVending",
        FactoryKind::OpenEdition => "CMigOE",
        FactoryKind::TokenMerge => "CMigTM",
    };
    let pre_s = coq_state(name, version, &pre_raw, &mut ids);
    let post_s = coq_state(&post_name, &post_version, &post_raw, &mut ids);
    let p0s = coq_fparams(&mut n, kind, &p0);
    let us = coq_upd(&mut n, kind, upd);
    let p1s = coq_fparams(&mut n, kind, &p1);
    Outcome {
        coq: format!("{} {} {} {} {} {} {} {} {}", ctor, now, pre_s, p0s, us, coq_bool(ok), post_s, p1s, coq_bool(rest_unchanged)),
        ok,
        viol,
        nontrivial: ok && upd.is_some(),
    }
}

// ---- generators for the parameter cases
const IBC: &str = "ibc/C4CFF46FD6DE35CA4CF4CE031E643C8FDC9BA4B99AE598E9B0ED98FE3A2319F9";

/// stored parameters whose numeric fields are pairwise distinct (a fallback taken from the
/// wrong stored field is then visible)
fn init_params(which: u8) -> FParams {
    let n = |a: u128| (NATIVE.to_string(), a);
    match which {
        0 => FParams {
            code_id: 7,
            allowed: vec![1, 3, 5],
            frozen: false,
            creation_fee: n(5_000_000_001),
            min_mint_price: n(50_000_002),
            mint_fee_bps: 1_003,
            offset: 604_804,
            max_token_limit: 10_005,
            max_per_address_limit: 56,
            airdrop_mint_price: n(100_000_007),
            airdrop_mint_fee_bps: 9_008,
            shuffle_fee: n(500_000_009),
            dev_fee_address: "stars1abcd4kdla12mh86psg4y4h6hh05g2hmqoap350".to_string(),
        },
        _ => FParams {
            code_id: 31,
            allowed: vec![2, 2, 4, 9, 9],
            frozen: true,
            creation_fee: n(32),
            min_mint_price: n(33),
            mint_fee_bps: 34,
            offset: 35,
            max_token_limit: 36,
            max_per_address_limit: 37,
            airdrop_mint_price: n(38),
            airdrop_mint_fee_bps: 39,
            shuffle_fee: n(40),
            dev_fee_address: "otherdev".to_string(),
        },
    }
}

/// names of the optional fields of the kind's migration message, in a fixed order
fn field_names(kind: FactoryKind) -> Vec<&'static str> {
    let mut v = vec!["code_id", "add", "rm", "frozen", "creation_fee", "offset"];
    if kind != FactoryKind::TokenMerge {
        v.extend(["min_mint_price", "mint_fee_bps"]);
    }
    match kind {
        FactoryKind::Base => {}
        FactoryKind::OpenEdition => v.extend(["max_token_limit", "max_per_address_limit", "airdrop_mint_price", "airdrop_mint_fee_bps", "ext_min_mint_price", "dev_fee_address"]),
        _ => v.extend(["max_token_limit", "max_per_address_limit", "airdrop_mint_price", "airdrop_mint_fee_bps", "shuffle_fee"]),
    }
    v
}

/// a message supplying exactly the fields selected by `mask` (bit i = field_names[i]),
/// with values distinct from every stored value; `salt` varies them
fn upd_of_mask(kind: FactoryKind, mask: u32, init: &FParams, salt: u64) -> Upd {
    let n = |a: u128| (NATIVE.to_string(), a);
    let s = salt as u128;
    let mut u = Upd::default();
    for (i, f) in field_names(kind).iter().enumerate() {
        if mask & (1 << i) == 0 {
            continue;
        }
        match *f {
            "code_id" => u.code_id = Some(121 + salt),
            "add" => u.add = Some(vec![13 + salt, 5]),
            "rm" => u.rm = Some(vec![3, 9]),
            "frozen" => u.frozen = Some(!init.frozen),
            "creation_fee" => u.creation_fee = Some(n(6_000_000_122 + s)),
            "offset" => u.offset = Some(700_123 + salt),
            "min_mint_price" => u.min_mint_price = Some(n(60_000_124 + s)),
            "mint_fee_bps" => u.mint_fee_bps = Some(2_125 + salt),
            "max_token_limit" => u.max_token_limit = Some(11_126 + salt as u32),
            "max_per_address_limit" => u.max_per_address_limit = Some(127 + salt as u32),
            "airdrop_mint_price" => u.airdrop_mint_price = Some(n(110_000_128 + s)),
            "airdrop_mint_fee_bps" => u.airdrop_mint_fee_bps = Some(8_129 + salt),
            "shuffle_fee" => u.shuffle_fee = Some(n(510_000_130 + s)),
            "ext_min_mint_price" => u.ext_min_mint_price = Some(n(70_000_131 + s)),
            "dev_fee_address" => u.dev_fee_address = Some(format!("newdev{}", salt)),
            _ => unreachable!(),
        }
    }
    u
}

fn migp(kind: FactoryKind, init: &FParams, upd: Option<Upd>, name: &str, version: &str) -> Case {
    Case::MigP { kind, init: init.clone(), upd, name: name.to_string(), version: version.to_string() }
}

fn param_cases(a: &Args, rng: &mut Rng, code: &str) -> Vec<Case> {
    let mut cases = vec![];
    for kind in FactoryKind::ALL {
        let own = own_name(fcontract(kind));
        let nf = field_names(kind).len() as u32;
        let full = (1u32 << nf) - 1;
        for which in 0..2u8 {
            let init = init_params(which);
            // no message; the empty message; every field; every single field; all but one; every pair
            let mut masks: Vec<u32> = vec![0, full];
            for i in 0..nf {
                masks.push(1 << i);
                masks.push(full & !(1 << i));
            }
            for i in 0..nf {
                for j in (i + 1)..nf {
                    masks.push((1 << i) | (1 << j));
                }
            }
            if a.thorough() && which == 0 {
                masks.extend(0..=full); // every subset
            } else {
                for _ in 0..(if nf <= 8 { 120 } else { 60 }) {
                    masks.push(rng.below(full as u64 + 1) as u32);
                }
            }
            cases.push(migp(kind, &init, None, own, "3.15.0"));
            for (k, m) in masks.iter().enumerate() {
                let salt = if k % 3 == 0 { 0 } else { rng.below(50) };
                cases.push(migp(kind, &init, Some(upd_of_mask(kind, *m, &init, salt)), own, "3.15.0"));
            }
            // other stored versions (equal to the code's, ancient) with single fields and everything
            for ver in [code, "0.1.0", "3.9.0"] {
                cases.push(migp(kind, &init, Some(upd_of_mask(kind, full, &init, 1)), own, ver));
                for i in 0..nf {
                    if (i + which as u32) % 3 == 0 {
                        cases.push(migp(kind, &init, Some(upd_of_mask(kind, 1 << i, &init, 2)), own, ver));
                    }
                }
            }
            // refused by the gate: nothing of a full message may apply
            for (name, ver) in [(own, "3.17.0"), (own, "4.0.0"), (own, "3.16"), (own, ""), ("crates.io:sg-minter", "3.15.0"), ("", "3.15.0")] {
                cases.push(migp(kind, &init, Some(upd_of_mask(kind, full, &init, 3)), name, ver));
                cases.push(migp(kind, &init, None, name, ver));
            }
            // a non-native denom in each coin field in turn, with every other field supplied:
            // either the whole message is refused or (unchecked fields) applied
            for f in ["creation_fee", "min_mint_price", "airdrop_mint_price", "shuffle_fee", "ext_min_mint_price"] {
                if !field_names(kind).contains(&f) {
                    continue;
                }
                for others in [full, 0] {
                    let bit = 1u32 << field_names(kind).iter().position(|x| *x == f).unwrap();
                    let mut u = upd_of_mask(kind, others | bit, &init, 4);
                    let bad = Some((IBC.to_string(), 77u128));
                    match f {
                        "creation_fee" => u.creation_fee = bad,
                        "min_mint_price" => u.min_mint_price = bad,
                        "airdrop_mint_price" => u.airdrop_mint_price = bad,
                        "shuffle_fee" => u.shuffle_fee = bad,
                        _ => u.ext_min_mint_price = bad,
                    }
                    cases.push(migp(kind, &init, Some(u), own, "3.15.0"));
                }
            }
        }
    }
    cases
}

// ---------------- generators ----------------
const MAJORS: [u64; 5] = [0, 1, 2, 3, 4];
const MINORS: [u64; 7] = [0, 1, 9, 10, 15, 16, 17];
const PATCHES: [u64; 4] = [0, 1, 9, 10];

fn grid_versions() -> Vec<String> {
    let mut v = vec![];
    for a in MAJORS {
        for b in MINORS {
            for c in PATCHES {
                v.push(format!("{}.{}.{}", a, b, c));
            }
        }
    }
    v
}
fn boundary_versions(code: &str) -> Vec<String> {
    let (a, b, c) = plain_triple(code).unwrap();
    let mut v: Vec<String> = vec![
        "3.8.9", "3.8.99", "3.9.0", "3.9.1", "2.99.99", "3.0.0", "3.0.1", "3.0.99", "3.1.0", "0.15.99", "0.16.0", "0.16.1", "0.0.0",
        "18446744073709551615.0.0", "3.18446744073709551615.0", "0.0.18446744073709551615", "3.2.0", "3.100.0", "30.0.0", "3.16.100",
    ]
    .into_iter()
    .map(String::from)
    .collect();
    v.push(code.to_string());
    v.push(format!("{}.{}.{}", a, b, c + 1));
    v.push(format!("{}.{}.{}", a, b + 1, 0));
    v.push(format!("{}.{}.{}", a + 1, 0, 0));
    if c > 0 {
        v.push(format!("{}.{}.{}", a, b, c - 1));
    }
    if b > 0 {
        v.push(format!("{}.{}.{}", a, b - 1, 99));
        v.push(format!("{}.{}.{}", a, b - 1, c));
    }
    if a > 0 {
        v.push(format!("{}.{}.{}", a - 1, 99, 99));
        v.push(format!("{}.{}.{}", a - 1, b + 1, c));
    }
    v
}
const MALFORMED: [&str; 26] = [
    "", "3", "3.16", "3.16.0.0", "v3.16.0", "3.16.x", "03.16.0", "3.016.0", "3.16.00", " 3.16.0", "3.16.0 ", "3..0", ".16.0", "3.16.", "a.b.c",
    "18446744073709551616.0.0", "3,16,0", "-1.0.0", "+1.0.0", "1.0.0.", "3.16.0-", "3.16.0+", "3.1 6.0", "3.16.O", "0x3.0.0", "3.16.0\n",
];
const NAMES: [&str; 26] = [
    "crates.io:sg-minter", "crates.io:sg-vending-minter-flex", "crates.io:sg-open-edition-minter", "crates.io:sg-open-edition-minter-flex",
    "crates.io:sg-base-minter", "crates.io:sg721-base", "sg721-base", "crates.io:sg721-updatable", "sg721-updatable",
    "crates.io:sg721-nt", "crates.io:sg721-metadata-onchain",
    "crates.io:vending-factory", "crates.io:sg-base-factory", "crates.io:open-edition-factory", "crates.io:token-merge-factory",
    "crates.io:sg-splits", "crates.io:whitelist-merkletree", "crates.io:tiered-whitelist-merkletree", "crates.io:sg-whitelist",
    "crates.io:cw4-group", "", "sg-minter", "crates.io:sg-minter ", "CRATES.IO:SG-MINTER", "crates.io:sg-minterx", "crates.io:sg721-updatabl",
];


/// every MAJOR.MINOR.PATCH literal in the sources that hold a migrate function
/// (`Version::new(a, b, c)` and "a.b.c" strings; test modules excluded), with the
/// versions just below and above each of them
fn harvested_versions() -> Vec<String> {
    let repo = std::env::var("VERIF_REPO").unwrap_or_else(|_| "/repo".to_string());
    let mut files: Vec<String> = vec![];
    for d in [
        "minters/vending-minter", "minters/vending-minter-featured", "minters/vending-minter-wl-flex", "minters/vending-minter-wl-flex-featured",
        "minters/vending-minter-merkle-wl", "minters/vending-minter-merkle-wl-featured", "minters/open-edition-minter",
        "minters/open-edition-minter-wl-flex", "minters/open-edition-minter-merkle-wl", "minters/token-merge-minter",
        "factories/base-factory", "factories/vending-factory", "factories/open-edition-factory", "factories/token-merge-factory",
        "splits", "whitelists/whitelist-merkletree", "whitelists/tiered-whitelist-merkletree",
        "collections/sg721-updatable", "collections/sg721-base",
    ] {
        files.push(format!("{}/contracts/{}/src/contract.rs", repo, d));
    }
    for f in ["mod.rs", "v3_0_0.rs", "v3_1_0.rs"] {
        files.push(format!("{}/contracts/collections/sg721-base/src/upgrades/{}", repo, f));
    }
    let mut triples: BTreeSet<(u64, u64, u64)> = BTreeSet::new();
    for f in files {
        let Ok(src) = std::fs::read_to_string(&f) else { continue };
        let src = match src.find("#[cfg(test)]") {
            Some(i) => src[..i].to_string(),
            None => src,
        };
        // Version::new(a, b, c)
        let mut rest = &src[..];
        while let Some(i) = rest.find("Version::new(") {
            rest = &rest[i + "Version::new(".len()..];
            let end = rest.find(')').unwrap_or(0);
            let parts: Vec<Option<u64>> = rest[..end].split(',').map(|x| x.trim().parse().ok()).collect();
            if let [Some(a), Some(b), Some(c)] = parts[..] {
                triples.insert((a, b, c));
            }
        }
        // "a.b.c"
        for piece in src.split('"').skip(1).step_by(2) {
            if let Some(t) = plain_triple(piece) {
                triples.insert(t);
            }
        }
    }
    let mut out = BTreeSet::new();
    for (a, b, c) in triples {
        let mut add = |x: u64, y: u64, z: u64| {
            out.insert(format!("{}.{}.{}", x, y, z));
        };
        add(a, b, c);
        add(a, b, c + 1);
        add(a, b + 1, 0);
        if c > 0 {
            add(a, b, c - 1);
        }
        if b > 0 {
            add(a, b - 1, 99);
            add(a, b - 1, c);
        }
        if a > 0 {
            add(a - 1, 99, 99);
            add(a - 1, b, c);
        }
    }
    out.into_iter().collect()
}

fn mig(contract: Contract, stage: u8, name: &str, version: &str) -> Case {
    Case::Mig { contract, stage, name: name.to_string(), version: version.to_string(), msg: MsgKind::Nothing, legacy_minter: false, strip_flags: false, clock: None, gov: 0, opt: 0, stored: Stored::Rewrite }
}

fn gen_cases(a: &Args, code: &str) -> Vec<Case> {
    let mut rng = Rng::new(a.seed);
    let mut cases = vec![];
    let grid = grid_versions();
    let mut bounds = boundary_versions(code);
    let harvested = harvested_versions();
    for h in harvested.iter().cloned() {
        if !bounds.contains(&h) {
            bounds.push(h);
        }
    }
    // ---- the semver crate itself: parse and order
    for s in grid.iter().chain(bounds.iter()) {
        cases.push(Case::Parse { s: s.clone() });
    }
    for s in MALFORMED {
        cases.push(Case::Parse { s: s.to_string() });
    }
    let pool: Vec<u64> = vec![0, 1, 2, 3, 4, 8, 9, 10, 15, 16, 17, 99, 100, u64::MAX];
    let trip = |rng: &mut Rng| (*rng.pick(&pool), *rng.pick(&pool), *rng.pick(&pool));
    cases.push(Case::Cmp { a: (3, 9, 0), b: (3, 16, 0) });
    cases.push(Case::Cmp { a: (3, 16, 0), b: (3, 9, 0) });
    cases.push(Case::Cmp { a: (3, 16, 0), b: (3, 16, 0) });
    cases.push(Case::Cmp { a: (2, 17, 10), b: (3, 0, 0) });
    cases.push(Case::Cmp { a: (3, 0, 10), b: (3, 0, 9) });
    for _ in 0..(if a.thorough() { 4000 } else { 300 }) {
        let x = trip(&mut rng);
        let y = if rng.chance(1, 4) { x } else { trip(&mut rng) };
        cases.push(Case::Cmp { a: x, b: y });
    }
    // ---- per contract
    for c in ALL {
        let own = own_name(c);
        let stages: &[u8] = &[1, 0, 2];
        for (si, &stage) in stages.iter().enumerate() {
            let names = documented_names(c);
            for name in &names {
                // the whole grid on the main state, a sample on the other two
                for (i, ver) in grid.iter().enumerate() {
                    if si == 0 || (i + si * 3) % 11 == 0 {
                        cases.push(mig(c, stage, name, ver));
                    }
                }
                for ver in &bounds {
                    cases.push(mig(c, stage, name, ver));
                }
                if si == 0 || name == &own {
                    for ver in MALFORMED {
                        cases.push(mig(c, stage, name, ver));
                    }
                }
            }
            // foreign (and, for some contracts, accepted) names
            for name in NAMES.iter().cloned().chain([&own[10.min(own.len())..], &format!("{}x", own)[..]].into_iter()) {
                for ver in ["0.16.0", "3.0.0", "3.15.10", code, "4.0.0", "3.16"] {
                    if si == 0 || rng.chance(1, 4) {
                        cases.push(mig(c, stage, name, ver));
                    }
                }
            }
            // factory messages
            if c.kind() == Kind::Factory {
                for k in [MsgKind::Valid, MsgKind::BadMinMintPrice, MsgKind::BadAirdropPrice, MsgKind::BadShuffleFee] {
                    if !msg_expressible(c, k) {
                        continue;
                    }
                    for (name, ver) in [(own, "3.15.0"), (own, code), (own, "0.1.0"), (own, "3.17.0"), (own, "x"), ("crates.io:sg-minter", "3.15.0")] {
                        cases.push(Case::Mig { contract: c, stage, name: name.to_string(), version: ver.to_string(), msg: k, legacy_minter: false, strip_flags: false, clock: None, gov: 0, opt: 0, stored: Stored::Rewrite });
                    }
                }
            }
            // governance has acted before the migration: every status flag triple on every
            // minter, a frozen factory with moved parameters; nothing of it may be undone
            if si == 0 && (is_minter(c) || c.kind() == Kind::Factory) {
                let govs: Vec<u8> = if is_minter(c) { (1..=8).collect() } else { vec![1] };
                for gov in govs {
                    for gstage in [1u8, 0, 2] {
                        if gstage != 1 && !(c.kind() == Kind::Factory || gov == 2 || gov == 7) {
                            continue;
                        }
                        let mut push = |name: &str, ver: &str, msg: MsgKind| {
                            cases.push(Case::Mig { contract: c, stage: gstage, name: name.to_string(), version: ver.to_string(), msg, legacy_minter: false, strip_flags: false, clock: None, gov, opt: 0, stored: Stored::Rewrite });
                        };
                        // every version literal of the migrate sources (+-1) for every triple; the
                        // whole boundary list and a grid sample for "blocked" and "all flags"
                        let wide = c.kind() == Kind::Factory || gov == 2;
                        for ver in &bounds {
                            if wide || harvested.contains(ver) {
                                push(own, ver, MsgKind::Nothing);
                            }
                        }
                        for (i, ver) in grid.iter().enumerate() {
                            if wide && (i + gov as usize) % 10 == 0 {
                                push(own, ver, MsgKind::Nothing);
                            }
                        }
                        for (name, ver) in [("crates.io:sg-base-minter", "2.4.0"), (own, "3.16"), (own, "99.0.0")] {
                            push(name, ver, MsgKind::Nothing);
                        }
                        if c.kind() == Kind::Factory {
                            for ver in ["2.4.0", "3.15.0", code] {
                                push(own, ver, MsgKind::Valid);
                            }
                        }
                    }
                }
            }
            // optional instantiate fields in the other state (absent <-> present) and empty:
            // every may_load / Option item exists in both states before a migration
            if si == 0 {
                for opt in [1u8, 2] {
                    // the "empty" state differs from "the other state" only where a list or a
                    // second optional field exists
                    let has_empty = c.kind() == Kind::Factory
                        || matches!(c, Contract::WhitelistMerkletree | Contract::TieredWhitelistMerkletree | Contract::OpenEditionMinter | Contract::OpenEditionMinterWlFlex | Contract::OpenEditionMinterMerkleWl);
                    if opt == 2 && !has_empty {
                        continue;
                    }
                    for ostage in [1u8, 2] {
                        for name in documented_names(c) {
                            for ver in &bounds {
                                if ostage == 1 || harvested.contains(ver) {
                                    for legacy in [false, true] {
                                        if legacy && c != Contract::Sg721Updatable {
                                            continue;
                                        }
                                        cases.push(Case::Mig { contract: c, stage: ostage, name: name.to_string(), version: ver.clone(), msg: MsgKind::Nothing, legacy_minter: legacy, strip_flags: false, clock: None, gov: 0, opt, stored: Stored::Rewrite });
                                    }
                                }
                            }
                        }
                        for (i, ver) in grid.iter().enumerate() {
                            if ostage == 1 && (i + opt as usize) % 9 == 0 {
                                cases.push(Case::Mig { contract: c, stage: ostage, name: own.to_string(), version: ver.clone(), msg: MsgKind::Nothing, legacy_minter: c == Contract::Sg721Updatable, strip_flags: false, clock: None, gov: 0, opt, stored: Stored::Rewrite });
                            }
                        }
                        for (name, ver) in [("crates.io:sg-base-minter", "2.4.0"), (own, "3.16"), (own, "99.0.0")] {
                            cases.push(Case::Mig { contract: c, stage: ostage, name: name.to_string(), version: ver.to_string(), msg: MsgKind::Nothing, legacy_minter: false, strip_flags: false, clock: None, gov: 0, opt, stored: Stored::Rewrite });
                        }
                        if c.kind() == Kind::Factory {
                            for ver in ["2.4.0", "3.15.0", code] {
                                cases.push(Case::Mig { contract: c, stage: ostage, name: own.to_string(), version: ver.to_string(), msg: MsgKind::Valid, legacy_minter: false, strip_flags: false, clock: None, gov: 0, opt, stored: Stored::Rewrite });
                            }
                        }
                        if is_minter(c) && ostage == 1 {
                            for ver in harvested.iter() {
                                cases.push(Case::Mig { contract: c, stage: ostage, name: own.to_string(), version: ver.clone(), msg: MsgKind::Nothing, legacy_minter: false, strip_flags: false, clock: None, gov: 6, opt, stored: Stored::Rewrite });
                            }
                        }
                    }
                }
            }
            // END states (sale closed by BurnRemaining, sold out, purged, past its end time, a
            // discount in force, ledgers partly filled, collections frozen / burnt, whitelists
            // ended / frozen, splits with a remainder and no admin, frozen factories with
            // duplicate code ids): oldest accepted, below and at every version literal of the
            // migrate sources, current-1, current, and refused pairs
            if si == 0 {
                let sv = plain_triple(code).unwrap();
                let mut vers: Vec<String> = harvested.clone();
                for extra in [
                    if c == Contract::Sg721Updatable { "0.16.0".to_string() } else { "0.1.0".to_string() },
                    if sv.2 > 0 { format!("{}.{}.{}", sv.0, sv.1, sv.2 - 1) } else { format!("{}.{}.99", sv.0, sv.1.saturating_sub(1)) },
                    code.to_string(),
                    format!("{}.{}.{}", sv.0, sv.1, sv.2 + 1),
                    "3.16".to_string(),
                ] {
                    if !vers.contains(&extra) {
                        vers.push(extra);
                    }
                }
                for estage in end_stages(c) {
                    for opt in [0u8, 1, 2] {
                        if opt == 2 && !matches!(c, Contract::OpenEditionMinter | Contract::OpenEditionMinterWlFlex | Contract::OpenEditionMinterMerkleWl) {
                            continue;
                        }
                        for name in documented_names(c) {
                            for ver in &vers {
                                let legacy = c == Contract::Sg721Updatable && plain_triple(ver).map_or(false, |t| t < (3, 0, 0));
                                let gov = if is_minter(c) && estage == 3 && opt == 0 { 2 } else { 0 };
                                cases.push(Case::Mig { contract: c, stage: estage, name: name.to_string(), version: ver.clone(), msg: MsgKind::Nothing, legacy_minter: legacy, strip_flags: false, clock: None, gov, opt, stored: Stored::Rewrite });
                            }
                        }
                        cases.push(Case::Mig { contract: c, stage: estage, name: "crates.io:sg-base-minter".to_string(), version: "2.4.0".to_string(), msg: MsgKind::Nothing, legacy_minter: false, strip_flags: false, clock: None, gov: 0, opt, stored: Stored::Rewrite });
                        if c.kind() == Kind::Factory {
                            for ver in ["2.4.0", code] {
                                cases.push(Case::Mig { contract: c, stage: estage, name: own.to_string(), version: ver.to_string(), msg: MsgKind::Valid, legacy_minter: false, strip_flags: false, clock: None, gov: 0, opt, stored: Stored::Rewrite });
                            }
                        }
                    }
                }
            }
            // "as instantiated": migrate from the cw2 record exactly as the contract's own
            // instantiate stored it, and with that NAME kept and only the version rewound
            if si == 0 {
                let mut stages: Vec<u8> = vec![0, 1, 2];
                stages.extend(end_stages(c));
                for st in stages {
                    for opt in [0u8, 1] {
                        cases.push(Case::Mig { contract: c, stage: st, name: String::new(), version: String::new(), msg: MsgKind::Nothing, legacy_minter: false, strip_flags: false, clock: None, gov: 0, opt, stored: Stored::AsInstantiated });
                    }
                    if st == 0 || st == 2 {
                        continue;
                    }
                    for (i, ver) in harvested.iter().enumerate() {
                        if st == 1 || i % 2 == 0 {
                            let legacy = c == Contract::Sg721Updatable && plain_triple(ver).map_or(false, |t| t < (3, 0, 0));
                            cases.push(Case::Mig { contract: c, stage: st, name: String::new(), version: ver.clone(), msg: MsgKind::Nothing, legacy_minter: legacy, strip_flags: false, clock: None, gov: 0, opt: 0, stored: Stored::KeepName });
                        }
                    }
                    for ver in ["0.16.0", "3.15.9", code, "3.16.1", "3.16"] {
                        cases.push(Case::Mig { contract: c, stage: st, name: String::new(), version: ver.to_string(), msg: MsgKind::Nothing, legacy_minter: false, strip_flags: false, clock: None, gov: 0, opt: 0, stored: Stored::KeepName });
                    }
                }
            }
            // block times around the 12 h / 24 h subtractions
            if c.kind() == Kind::Vending || c == Contract::Sg721Updatable {
                let h = 3600 * 1_000_000_000u64;
                for t in [12 * h - 1, 12 * h, 12 * h + 1, 24 * h - 1, 24 * h, 24 * h + 1, 0] {
                    for ver in ["3.8.9", "3.9.0", "3.0.10", "3.1.0", "3.15.0"] {
                        cases.push(Case::Mig { contract: c, stage, name: own.to_string(), version: ver.to_string(), msg: MsgKind::Nothing, legacy_minter: false, strip_flags: false, clock: Some(t), gov: 0, opt: 0, stored: Stored::Rewrite });
                    }
                }
            }
            // sg721-updatable: legacy cw721 0.16 minter item, stripped flags
            if c == Contract::Sg721Updatable {
                for name in documented_names(c) {
                    for (i, ver) in grid.iter().chain(bounds.iter()).enumerate() {
                        if si == 0 || i % 7 == si {
                            for strip in [false, true] {
                                cases.push(Case::Mig { contract: c, stage, name: name.to_string(), version: ver.clone(), msg: MsgKind::Nothing, legacy_minter: true, strip_flags: strip, clock: None, gov: 0, opt: 0, stored: Stored::Rewrite });
                            }
                            if i % 5 == 0 {
                                cases.push(Case::Mig { contract: c, stage, name: name.to_string(), version: ver.clone(), msg: MsgKind::Nothing, legacy_minter: false, strip_flags: true, clock: None, gov: 0, opt: 0, stored: Stored::Rewrite });
                            }
                        }
                    }
                }
            }
        }
    }
    // ---- factory migrations with parameter messages, field by field
    cases.extend(param_cases(a, &mut rng, code));
    // ---- random stream
    let nrand = if a.thorough() { 20_000 } else { 600 };
    for _ in 0..nrand {
        let c = *rng.pick(&ALL);
        let stage = if rng.chance(1, 3) { *rng.pick(&end_stages(c)) } else { rng.below(3) as u8 };
        let name = if rng.chance(3, 5) { rng.pick(&documented_names(c)).to_string() } else { rng.pick(&NAMES).to_string() };
        let version = match rng.below(10) {
            0 => rng.pick(&MALFORMED).to_string(),
            1 => code.to_string(),
            _ => {
                let (x, y, z) = (*rng.pick(&pool[..12]), *rng.pick(&pool), *rng.pick(&pool));
                format!("{}.{}.{}", x, y, z)
            }
        };
        let msg = if c.kind() == Kind::Factory && rng.chance(1, 2) {
            let k = *rng.pick(&[MsgKind::Valid, MsgKind::Valid, MsgKind::BadMinMintPrice, MsgKind::BadAirdropPrice, MsgKind::BadShuffleFee]);
            if msg_expressible(c, k) { k } else { MsgKind::Valid }
        } else {
            MsgKind::Nothing
        };
        let upd = c == Contract::Sg721Updatable;
        let opt = rng.below(3) as u8;
        let gov = if is_minter(c) { rng.below(9) as u8 } else if c.kind() == Kind::Factory { rng.below(2) as u8 } else { 0 };
        cases.push(Case::Mig { contract: c, stage, name, version, msg, legacy_minter: upd && rng.chance(1, 2), strip_flags: upd && rng.chance(1, 3), clock: None, gov, opt, stored: Stored::Rewrite });
    }
    cases
}

/// developer aid: C20_DEBUG=1 prints which setups / queries do not work
fn debug_setups() {
    for c in ALL {
        let mut combos: Vec<(u8, u8)> = vec![(0u8, 0u8), (1, 0), (2, 0), (0, 1), (1, 1), (2, 1), (0, 2), (1, 2), (2, 2)];
        for st in end_stages(c) {
            for o in 0..3u8 {
                combos.push((st, o));
            }
        }
        for (stage, opt) in combos {
            match setup_opt(c, stage, opt) {
                Err(e) => println!("SETUP FAIL {:?} stage {} opt {}: {}", c, stage, opt, e),
                Ok(s) => {
                    let qs = queries(c);
                    let snap = snapshot(&s.app, &s.addr, &qs);
                    let bad: Vec<String> = qs.iter().zip(snap.answers.iter()).filter(|(_, a)| a.is_err()).map(|((q, _), _)| q.to_string()).collect();
                    println!("{:?} stage {} opt {}: addr {} admin {} keys {} queries {} failing {:?}", c, stage, opt, s.addr, s.admin, snap.raw.len(), qs.len(), bad);
                }
            }
        }
    }
}

pub fn run(a: &Args) {
    if std::env::var("C20_DEBUG").is_ok() {
        debug_setups();
        return;
    }
    let out = OutDir::new(&a.out);
    let mut rep = Report { property: "C20".into(), tier: a.tier.clone(), seed: a.seed, ..Default::default() };
    let code = workspace_version();
    let cases: Vec<Case> = if let Some(p) = &a.replay {
        #[derive(Deserialize)]
        struct ReplayFile {
            case: Case,
        }
        let txt = std::fs::read_to_string(p).expect("replay file");
        let rf: ReplayFile = serde_json::from_str(&txt).expect("replay json");
        vec![rf.case]
    } else {
        gen_cases(a, &code)
    };
    let mut worlds: BTreeMap<(Contract, u8, u8, u8), World> = BTreeMap::new();
    let mut coq_cases = Vec::with_capacity(cases.len());
    let mut distinct = BTreeSet::new();
    let mut nviol = 0;
    let mut seen_keys = BTreeSet::new();
    for (i, case) in cases.iter().enumerate() {
        let o = match case {
            Case::Mig { contract, stage, gov, opt, .. } => {
                let w = worlds.entry((*contract, *stage, *gov, *opt)).or_insert_with(|| {
                    let setup = setup_gov_opt(*contract, *stage, *gov, *opt).unwrap_or_else(|e| panic!("cannot set up {:?} stage {} gov {} opt {}: {}", contract, stage, gov, opt, e));
                    let raw0 = raw_storage(&setup.app, &setup.addr);
                    let time0 = setup.app.block_info();
                    World { raw0, time0, qs: queries(*contract), ids: Ids::with_fixed(&[], 10), setup }
                });
                let o = run_mig(w, case, &code);
                rep.bump(&format!("{:?}:migrate:{}", contract, if o.ok { "ok" } else { "err" }));
                if *gov != 0 {
                    rep.bump(&format!("{:?}:after-governance-sudo", contract));
                }
                if *opt != 0 {
                    rep.bump(&format!("{:?}:optional-fields-state-{}", contract, opt));
                }
                o
            }
            Case::MigP { kind, .. } => {
                let o = run_migp(case, &code);
                rep.bump(&format!("{:?}:migrate-with-params:{}", fcontract(*kind), if o.ok { "ok" } else { "err" }));
                o
            }
            _ => {
                let o = run_pure(case);
                rep.bump(&format!("semver:{}:{}", if matches!(case, Case::Parse { .. }) { "parse" } else { "cmp" }, if o.ok { "ok/true" } else { "err/false" }));
                o
            }
        };
        rep.evaluations += 1;
        if o.nontrivial {
            distinct.insert(serde_json::to_string(case).unwrap());
        }
        for (key, what) in &o.viol {
            nviol += 1;
            if !seen_keys.insert(key.clone()) || rep.violations.len() >= 40 {
                continue;
            }
            let body = format!(
                "{{\n \"property\": \"C20\",\n \"key\": {},\n \"case\": {},\n \"violation\": {}\n}}\n",
                serde_json::to_string(key).unwrap(),
                serde_json::to_string(case).unwrap(),
                serde_json::to_string(what).unwrap()
            );
            let path = out.write_replay(&format!("C20-{}.json", rep.violations.len() + 1), &body);
            rep.violations.push(Violation { key: key.clone(), what: what.clone(), replay: path });
        }
        if rep.samples.len() < 3 && (i % 1499 == 700 || a.replay.is_some()) {
            rep.samples.push(json!({"case": format!("{:?}", case), "impl_ok": o.ok, "model_case": o.coq}));
        }
        coq_cases.push(o.coq);
    }
    rep.distinct_nontrivial = distinct.len() as u64;
    rep.rule = "per contract (18) x life stage (3): stored cw2 (name, version) over the grid {0,1,2,3,4}x{0,1,9,10,15,16,17}x{0,1,9,10}, boundary versions (3.8.x/3.9.0, 2.99.99/3.0.0/3.1.0, 0.15.99/0.16.0, code-1/code/code+1, u64 max), 26 malformed version strings, 28 names (own, the other contracts', near misses); factory messages (none / valid / non-native denom per coin); block times around 12 h and 24 h; sg721-updatable with and without a legacy cw721 0.16 minter item and updatable flags; plus the semver crate's parse and Ord directly. Non-trivial = distinct case whose stored name is accepted and whose stored version parses (the migrate function gets past its identity checks).".into();
    rep.notes.push(format!("code (workspace) version of the tree under test: {}", code));
    out.write_cases("C20", "From Coq Require Import String.\nFrom LP Require Import Semver Migrate Params MigrateParams C20Corr.", "c20_case", "c20_check", &coq_cases, 6, &mut rep);
    out.finish(&rep);
    println!("C20 harness: {} cases, {} monitor violations", rep.evaluations, nviol);
}
