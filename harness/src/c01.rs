//! C01 — supply: no over-mint, no re-mint, exact remaining count (vending family).
//! Histories interleave Mint / MintTo / MintFor / Shuffle / Purge / BurnRemaining by
//! several senders until (and past) sell-out on all six vending minters; the monitors
//! evaluate the property text on the real contracts' answers; every minter step is
//! also printed for the Coq model (corr/SaleCorr.v).
use crate::util::*;
use crate::w_sale::*;
use crate::Args;
use serde::{Deserialize, Serialize};
use std::collections::{BTreeMap, BTreeSet};

#[derive(Clone, Debug, Serialize, Deserialize)]
pub struct Case {
    pub variant: usize,
    pub updatable: bool,
    pub num_tokens: u32,
    pub pal: u32,
    pub price: u128,
    pub ops: Vec<Op>,
}

fn cfg_of(c: &Case) -> SaleCfg {
    let mut cfg = SaleCfg::basic(c.variant);
    cfg.updatable_collection = c.updatable;
    cfg.num_tokens = c.num_tokens;
    cfg.pal = c.pal;
    cfg.price = c.price;
    cfg.start_in_secs = 100;
    cfg
}

pub struct CaseResult {
    pub coq: Option<String>,
    pub steps: u64,
    pub ok_steps: u64,
    pub violations: Vec<(String, String)>, // (key, what)
    pub hist: BTreeMap<String, u64>,
}

fn op_kind(op: &Op) -> &'static str {
    match op {
        Op::At { .. } => "at",
        Op::Mint { .. } => "mint",
        Op::MintM { .. } => "mint_merkle",
        Op::MintTo { .. } => "mint_to",
        Op::MintFor { .. } => "mint_for",
        Op::Purge { .. } => "purge",
        Op::Shuffle { .. } => "shuffle",
        Op::BurnRemaining { .. } => "burn_remaining",
        Op::UpdateMintPrice { .. } => "update_mint_price",
        Op::UpdateStartTime { .. } => "update_start_time",
        Op::UpdateStartTradingTime { .. } => "update_start_trading_time",
        Op::UpdatePerAddressLimit { .. } => "update_per_address_limit",
        Op::SetWhitelist { .. } => "set_whitelist",
        Op::UpdateDiscountPrice { .. } => "update_discount_price",
        Op::RemoveDiscountPrice { .. } => "remove_discount_price",
        Op::SudoParams { .. } => "sudo_params",
        Op::WlAddMember { .. } => "wl_add_member",
    }
}

pub fn run_case(c: &Case) -> CaseResult {
    let mut res = CaseResult { coq: None, steps: 0, ok_steps: 0, violations: vec![], hist: BTreeMap::new() };
    let mut w = match SaleWorld::new(cfg_of(c)) {
        Ok(w) => w,
        Err(e) => {
            *res.hist.entry(format!("{}:create:err", VARIANTS[c.variant].name)).or_insert(0) += 1;
            let _ = e;
            return res;
        }
    };
    let vname = w.v.name;
    let n = c.num_tokens as u64;
    let init = w.init_state_coq();
    let init_bal = w.balances_coq();
    let mut steps = vec![];
    // ---- monitor state (property text, independent of the model) ----
    let mut minted: BTreeSet<u64> = BTreeSet::new();
    let mut burned: u64 = 0;
    let mut burn_done = false;
    let init_ids: BTreeSet<u32> = w.positions().iter().map(|p| p.1).collect();
    if init_ids != (1..=c.num_tokens).collect::<BTreeSet<u32>>() || w.mintable() != n {
        res.violations.push(("C01:initial-table".into(), format!("{}: initial ids/count are not 1..={}", vname, n)));
    }
    for op in &c.ops {
        let before_pos = w.positions();
        let before_mintable = w.mintable();
        let out = w.run(op);
        if !out.is_minter_step {
            continue;
        }
        res.steps += 1;
        if out.ok {
            res.ok_steps += 1;
        }
        *res.hist.entry(format!("{}:{}:{}", vname, op_kind(op), if out.ok { "ok" } else { "err" })).or_insert(0) += 1;
        if let Some(s) = out.coq {
            steps.push(s);
        }
        if let Some(e) = &out.err {
            if e.starts_with("STATE-CHANGED-ON-FAILURE") {
                res.violations.push(("C01:failed-call-changed-state".into(), format!("{}: {:?}: {}", vname, op, e)));
            }
        }
        let after_pos = w.positions();
        let after_mintable = w.mintable();
        let is_mint = matches!(op, Op::Mint { .. } | Op::MintTo { .. } | Op::MintFor { .. });
        if is_mint && out.ok {
            if before_mintable == 0 {
                res.violations.push(("C01:mint-at-zero".into(), format!("{}: {:?} succeeded with mintable count 0", vname, op)));
            }
            if burn_done {
                res.violations.push(("C01:mint-after-burn".into(), format!("{}: {:?} succeeded after burn-remaining", vname, op)));
            }
            match &out.minted {
                Some((id, owner)) => {
                    if *id < 1 || *id > n {
                        res.violations.push(("C01:id-out-of-range".into(), format!("{}: minted id {} outside 1..={}", vname, id, n)));
                    }
                    if !minted.insert(*id) {
                        res.violations.push(("C01:id-minted-twice".into(), format!("{}: id {} minted twice", vname, id)));
                    }
                    if let Op::MintFor { token_id, .. } = op {
                        if *id != *token_id as u64 {
                            res.violations.push(("C01:mint-for-wrong-id".into(), format!("{}: MintFor({}) delivered {}", vname, token_id, id)));
                        }
                    }
                    let want_owner = match op {
                        Op::Mint { who, .. } => who.clone(),
                        Op::MintTo { recipient, .. } | Op::MintFor { recipient, .. } => recipient.clone(),
                        _ => unreachable!(),
                    };
                    if owner.as_deref() != Some(want_owner.as_str()) {
                        res.violations.push(("C01:wrong-owner".into(), format!("{}: token {} owned by {:?}, expected {}", vname, id, owner, want_owner)));
                    }
                }
                None => res.violations.push(("C01:mint-without-token".into(), format!("{}: {:?} succeeded but no token id reported", vname, op))),
            }
        }
        if matches!(op, Op::Shuffle { .. }) && out.ok {
            let mut a: Vec<u32> = before_pos.iter().map(|p| p.1).collect();
            let mut b: Vec<u32> = after_pos.iter().map(|p| p.1).collect();
            let ka: Vec<u32> = before_pos.iter().map(|p| p.0).collect();
            let kb: Vec<u32> = after_pos.iter().map(|p| p.0).collect();
            a.sort();
            b.sort();
            if a != b || ka != kb || before_mintable != after_mintable {
                res.violations.push(("C01:shuffle-changed-set".into(), format!("{}: shuffle changed the remaining ids or their number", vname)));
            }
        }
        if matches!(op, Op::BurnRemaining { .. }) && out.ok {
            burned += before_pos.len() as u64;
            burn_done = true;
        }
        // counter identity after every step
        if after_mintable + minted.len() as u64 + burned != n {
            res.violations.push((
                "C01:count-identity".into(),
                format!("{}: after {:?}: mintable {} + minted {} + burned {} != num_tokens {}", vname, op, after_mintable, minted.len(), burned, n),
            ));
        }
        if after_pos.len() as u64 != after_mintable {
            res.violations.push(("C01:table-size".into(), format!("{}: {} positions stored but mintable count {}", vname, after_pos.len(), after_mintable)));
        }
        if res.violations.len() > 5 {
            break;
        }
    }
    // collection agrees with the trace
    let toks: BTreeSet<u64> = w.all_tokens().iter().map(|t| t.parse().unwrap_or(0)).collect();
    if toks != minted || w.num_tokens_collection() != minted.len() as u64 {
        res.violations.push(("C01:collection-mismatch".into(), format!("{}: collection holds {:?}, trace minted {:?}", vname, toks, minted)));
    }
    res.coq = Some(case_coq(&mut w, &init, &init_bal, &steps));
    res
}

fn gen_case(rng: &mut Rng, variant: usize, thorough: bool) -> Case {
    let sizes: &[u32] = if thorough { &[1, 2, 3, 7, 49, 50, 51, 52, 99, 100, 101, 130] } else { &[1, 2, 5, 12, 50, 51, 60] };
    let num_tokens = *rng.pick(sizes);
    let pal = if num_tokens < 100 { rng.range(1, 3) as u32 } else { rng.range(1, 4) as u32 };
    let price = *rng.pick(&[50u128, 100, 101, 1000]);
    let mut ops = vec![];
    let native = |a: u128| vec![(NATIVE.to_string(), a)];
    // before start: a public mint must fail, airdrops work
    if rng.chance(1, 2) {
        ops.push(Op::Mint { who: BUYERS[0].into(), funds: native(price) });
        ops.push(Op::MintTo { who: CREATOR.into(), recipient: BUYERS[1].into(), funds: vec![] });
    }
    ops.push(Op::At { secs: 200, nanos: 0 });
    let len = if thorough { rng.range(30, 90) } else { rng.range(20, 50) } as usize + num_tokens.min(60) as usize;
    let mut burn_budget = if rng.chance(1, 3) { 1 } else { 0 };
    for i in 0..len {
        // time moves on (the pick depends on the block height)
        if rng.chance(1, 3) {
            ops.push(Op::At { secs: 201 + i as u64, nanos: rng.below(1000) as i64 });
        }
        let who_any = *rng.pick(&[BUYERS[0], BUYERS[1], BUYERS[2], STRANGER, CREATOR]);
        let op = match rng.below(100) {
            0..=34 => Op::Mint { who: (*rng.pick(&[BUYERS[0], BUYERS[1], BUYERS[2], STRANGER])).into(), funds: native(price) },
            35..=59 => Op::MintTo {
                who: if rng.chance(9, 10) { CREATOR.into() } else { who_any.into() },
                recipient: (*rng.pick(&[BUYERS[0], BUYERS[1], STRANGER])).into(),
                funds: vec![],
            },
            60..=77 => {
                let id = match rng.below(10) {
                    0 => 0,
                    1 => num_tokens + 1,
                    _ => rng.range(1, num_tokens as u64) as u32,
                };
                Op::MintFor {
                    who: if rng.chance(9, 10) { CREATOR.into() } else { who_any.into() },
                    token_id: id,
                    recipient: (*rng.pick(&[BUYERS[0], BUYERS[2]])).into(),
                    funds: vec![],
                }
            }
            78..=89 => Op::Shuffle { who: who_any.into(), funds: if rng.chance(5, 6) { native(500) } else { native(499) } },
            90..=94 => Op::Purge { who: who_any.into() },
            _ => {
                if burn_budget > 0 && i > len / 2 {
                    burn_budget -= 1;
                    Op::BurnRemaining { who: CREATOR.into() }
                } else {
                    Op::BurnRemaining { who: STRANGER.into() }
                }
            }
        };
        ops.push(op);
    }
    // after the end: everything that could create a token must fail at 0 / after burn
    ops.push(Op::MintTo { who: CREATOR.into(), recipient: BUYERS[0].into(), funds: vec![] });
    ops.push(Op::Mint { who: STRANGER.into(), funds: native(price) });
    ops.push(Op::MintFor { who: CREATOR.into(), token_id: 1, recipient: BUYERS[0].into(), funds: vec![] });
    ops.push(Op::Shuffle { who: STRANGER.into(), funds: native(500) });
    ops.push(Op::Purge { who: STRANGER.into() });
    Case { variant, updatable: rng.chance(1, 4), num_tokens, pal, price, ops }
}

/// curated minimal histories (always run first)
fn corpus() -> Vec<Case> {
    let native = |a: u128| vec![(NATIVE.to_string(), a)];
    let mut v = vec![];
    for variant in 0..6 {
        // sell out 2 tokens by mint-for in reverse order, then every creator of tokens must fail
        v.push(Case {
            variant,
            updatable: false,
            num_tokens: 2,
            pal: 2,
            price: 100,
            ops: vec![
                Op::At { secs: 200, nanos: 0 },
                Op::MintFor { who: CREATOR.into(), token_id: 2, recipient: BUYERS[0].into(), funds: vec![] },
                Op::MintFor { who: CREATOR.into(), token_id: 2, recipient: BUYERS[0].into(), funds: vec![] },
                Op::Shuffle { who: STRANGER.into(), funds: native(500) },
                Op::Mint { who: BUYERS[1].into(), funds: native(100) },
                Op::Mint { who: BUYERS[1].into(), funds: native(100) },
                Op::MintTo { who: CREATOR.into(), recipient: BUYERS[2].into(), funds: vec![] },
                Op::Purge { who: STRANGER.into() },
                Op::BurnRemaining { who: CREATOR.into() },
            ],
        });
        // burn with tokens left, then nothing mints
        v.push(Case {
            variant,
            updatable: false,
            num_tokens: 5,
            pal: 3,
            price: 100,
            ops: vec![
                Op::At { secs: 200, nanos: 0 },
                Op::Mint { who: BUYERS[0].into(), funds: native(100) },
                Op::BurnRemaining { who: STRANGER.into() },
                Op::BurnRemaining { who: CREATOR.into() },
                Op::Mint { who: BUYERS[0].into(), funds: native(100) },
                Op::MintTo { who: CREATOR.into(), recipient: BUYERS[2].into(), funds: vec![] },
                Op::MintFor { who: CREATOR.into(), token_id: 3, recipient: BUYERS[0].into(), funds: vec![] },
                Op::BurnRemaining { who: CREATOR.into() },
            ],
        });
        // burn-remaining with 1, 2, 3 tokens left (both parities), then a mint-for and a shuffle must fail
        for left in 1..=3u32 {
            v.push(Case {
                variant,
                updatable: false,
                num_tokens: left + 1,
                pal: 2,
                price: 100,
                ops: vec![
                    Op::At { secs: 200, nanos: 0 },
                    Op::MintTo { who: CREATOR.into(), recipient: BUYERS[0].into(), funds: vec![] },
                    Op::BurnRemaining { who: CREATOR.into() },
                    Op::MintFor { who: CREATOR.into(), token_id: 1, recipient: BUYERS[0].into(), funds: vec![] },
                    Op::MintFor { who: CREATOR.into(), token_id: 2, recipient: BUYERS[0].into(), funds: vec![] },
                    Op::Shuffle { who: STRANGER.into(), funds: native(500) },
                    Op::Purge { who: STRANGER.into() },
                ],
            });
        }
        // shuffle with 1..=9 tokens left keeps the id set (each table size once)
        v.push(Case {
            variant,
            updatable: false,
            num_tokens: 9,
            pal: 3,
            price: 100,
            ops: {
                let mut o = vec![Op::At { secs: 200, nanos: 0 }];
                for k in 0..9u64 {
                    o.push(Op::Shuffle { who: BUYERS[(k % 3) as usize].into(), funds: native(500) });
                    o.push(Op::At { secs: 201 + k, nanos: 7 });
                    o.push(Op::MintTo { who: CREATOR.into(), recipient: BUYERS[1].into(), funds: vec![] });
                }
                o
            },
        });
    }
    v
}

pub fn run(a: &Args) {
    let out = OutDir::new(&a.out);
    let mut rep = Report { property: "C01".into(), tier: a.tier.clone(), seed: a.seed, ..Default::default() };
    let cases: Vec<Case> = if let Some(p) = &a.replay {
        #[derive(Deserialize)]
        struct ReplayFile {
            case: Case,
        }
        let rf: ReplayFile = serde_json::from_str(&std::fs::read_to_string(p).expect("replay file")).expect("replay json");
        vec![rf.case]
    } else {
        let mut rng = Rng::new(a.seed);
        let mut v = corpus();
        let per_variant = if a.thorough() { 40 } else { 5 };
        for variant in 0..6 {
            for _ in 0..per_variant {
                v.push(gen_case(&mut rng, variant, a.thorough()));
            }
        }
        v
    };
    let mut coq_cases = vec![];
    let mut nviol = 0;
    let mut distinct = BTreeSet::new();
    for (i, c) in cases.iter().enumerate() {
        let r = run_case(c);
        rep.evaluations += r.steps;
        for (k, v) in &r.hist {
            *rep.histogram.entry(k.clone()).or_insert(0) += v;
        }
        if r.ok_steps > 0 {
            distinct.insert(format!("{:?}", c));
            rep.distinct_nontrivial += r.ok_steps;
        }
        for (key, what) in r.violations.iter().take(3) {
            nviol += 1;
            if nviol <= 20 {
                let body = format!(
                    "{{\n \"property\": \"C01\",\n \"case\": {},\n \"violation\": {}\n}}\n",
                    serde_json::to_string(c).unwrap(),
                    serde_json::to_string(what).unwrap()
                );
                let path = out.write_replay(&format!("C01-{}.json", nviol), &body);
                rep.violations.push(Violation { key: key.clone(), what: what.clone(), replay: path });
            }
        }
        if rep.samples.len() < 3 && i % 7 == 0 {
            rep.samples.push(serde_json::json!({"variant": VARIANTS[c.variant].name, "num_tokens": c.num_tokens,
                "first_ops": c.ops.iter().take(8).map(|o| format!("{:?}", o)).collect::<Vec<_>>(), "steps": r.steps, "ok_steps": r.ok_steps}));
        }
        if let Some(cq) = r.coq {
            coq_cases.push(cq);
        }
    }
    rep.rule = "histories of Mint/MintTo/MintFor/Shuffle/Purge/BurnRemaining by buyers, stranger and admin on each of the six vending minters (num_tokens around the 50-position window and the sell-out), corpus first; evaluations = minter steps executed on the real contracts; distinct_nontrivial = steps that succeeded (state-changing) in distinct histories".into();
    out.write_cases("C01", "From LP Require Import Num Pay Sg1 Bank MinterVending SaleCorr.", "scase", "sale_check", &coq_cases, 6, &mut rep);
    out.finish(&rep);
    println!("C01 harness: {} cases, {} steps, {} monitor violations", cases.len(), rep.evaluations, nviol);
}
